"""A4: guard-discharge reasoner.

Decides whether the safety condition of a panic site follows from the branch conditions that
dominate it.  Everything is rewritten to integer linear normal form over *atoms* (opaque
sub-expressions such as slice lengths, arguments, call results); facts `lin <= 0` are harvested
from dominating edges and from the algebra of a few operators (min, %, &, >>, split_at, ranges);
a goal `lin <= 0` is proven when goal - (sum of at most three facts) has a non-positive upper
bound under the type ranges of the atoms.  Path-insensitive; no enumeration of paths or values.
"""
import itertools
import re

from .ir import simplify, walk
from .facts import path_matches

U64 = 2 ** 64 - 1
INT_RANGES = {
    "u8": (0, 255), "u16": (0, 65535), "u32": (0, 2 ** 32 - 1), "u64": (0, U64), "usize": (0, U64),
    "u128": (0, 2 ** 128 - 1),
    "i8": (-128, 127), "i16": (-32768, 32767), "i32": (-2 ** 31, 2 ** 31 - 1),
    "i64": (-2 ** 63, 2 ** 63 - 1), "isize": (-2 ** 63, 2 ** 63 - 1), "i128": (-2 ** 127, 2 ** 127 - 1),
    "bool": (0, 1),
}
INF = 10 ** 60

CAST_LOSSLESS = {"i8", "u8", "i16", "u16", "i32", "u32", "i64", "u64", "isize", "usize"}


def int_range(ty):
    if ty is None:
        return None
    return INT_RANGES.get(ty)


# ------------------------------------------------------------------ linear forms
class Lin:
    __slots__ = ("co", "k")

    def __init__(self, co=None, k=0):
        self.co = co or {}
        self.k = k

    @staticmethod
    def const(v):
        return Lin({}, v)

    @staticmethod
    def atom(a):
        return Lin({a: 1}, 0)

    def add(self, o, s=1):
        co = dict(self.co)
        for a, c in o.co.items():
            n = co.get(a, 0) + s * c
            if n:
                co[a] = n
            else:
                co.pop(a, None)
        return Lin(co, self.k + s * o.k)

    def sub(self, o):
        return self.add(o, -1)

    def scale(self, s):
        return Lin({a: c * s for a, c in self.co.items() if c * s}, self.k * s)

    def is_const(self):
        return not self.co

    def key(self):
        return (tuple(sorted(((repr(a), c) for a, c in self.co.items()))), self.k)

    def __repr__(self):
        from .ir import show
        parts = []
        for a, c in self.co.items():
            parts.append(("%+d*" % c if c not in (1, -1) else ("+" if c == 1 else "-")) + show(a))
        if self.k or not parts:
            parts.append("%+d" % self.k)
        return " ".join(parts)


class Reasoner:
    def __init__(self, ir, prog):
        self.ir = ir
        self.prog = prog
        self._intrinsic_seen = set()

    # -------------------------------------------------------------- types / ranges
    def ty(self, e):
        return self.ir.type_of(e)

    def range_of_type(self, e):
        t = self.ty(e)
        r = int_range(t)
        return r

    def bounds(self, a):
        """interval of an atom from its type and operator algebra"""
        lo, hi = -INF, INF
        r = self.range_of_type(a)
        if r:
            lo, hi = r
        k = a[0]
        if k == "len":
            lo, hi = 0, 2 ** 63 - 1
        elif k == "bin":
            op = a[1]
            ca = self.cv(a[2])
            cb = self.cv(a[3])
            if op == "BitAnd":
                for x in (a[2], a[3]):
                    ri = self.interval(x)
                    if ri and ri[0] >= 0 and ri[1] < INF:
                        lo, hi = max(lo, 0), min(hi, ri[1])
            elif op in ("BitOr", "BitXor"):
                ra, rb = self.interval(a[2]), self.interval(a[3])
                if ra and rb and ra[0] >= 0 and rb[0] >= 0 and ra[1] < INF and rb[1] < INF:
                    lo, hi = max(lo, 0), min(hi, (1 << max(ra[1], rb[1]).bit_length()) - 1)
            elif op == "Shl" and cb is not None:
                ra = self.interval(a[2])
                if ra and ra[0] >= 0 and ra[1] < INF and r and (ra[1] << cb) <= r[1]:
                    lo, hi = max(lo, 0), min(hi, ra[1] << cb)
            elif op == "Rem" and cb is not None and cb > 0:
                ra = self.interval(a[2])
                if ra and ra[0] >= 0:
                    lo, hi = 0, min(hi, cb - 1)
                else:
                    lo, hi = max(lo, -(cb - 1)), min(hi, cb - 1)
            elif op == "Shr" and cb is not None:
                ra = self.interval(a[2])
                if ra and ra[0] >= 0 and ra[1] < INF:
                    lo, hi = 0, min(hi, ra[1] >> cb)
            elif op == "Div" and cb is not None and cb > 0:
                ra = self.interval(a[2])
                if ra and ra[0] >= 0 and ra[1] < INF:
                    lo, hi = 0, min(hi, ra[1] // cb)
            elif op in ("Lt", "Le", "Gt", "Ge", "Eq", "Ne"):
                lo, hi = 0, 1
        elif k == "cast":
            r = int_range(a[2])
            if r:
                lo, hi = max(lo, r[0]), min(hi, r[1])
            # zero-extension of a narrower unsigned / bool
            ri = self.interval(a[3])
            if ri and r and ri[0] >= r[0] and ri[1] <= r[1]:
                lo, hi = max(lo, ri[0]), min(hi, ri[1])
        elif k == "field" and a[1][0] == "call":
            rb = ret_field_bounds(self.prog, a[1][1], a[2])
            if rb:
                lo, hi = max(lo, rb[0]), min(hi, rb[1])
        elif k == "call":
            f = a[1]
            rb = ret_field_bounds(self.prog, f, None)
            if rb:
                lo, hi = max(lo, rb[0]), min(hi, rb[1])
            if path_matches(f, "std::cmp::min") or path_matches(f, "std::cmp::Ord::min"):
                for x in a[2]:
                    ri = self.interval(x)
                    if ri:
                        hi = min(hi, ri[1])
            if path_matches(f, "std::cmp::max") or path_matches(f, "std::cmp::Ord::max"):
                for x in a[2]:
                    ri = self.interval(x)
                    if ri:
                        lo = max(lo, ri[0])
            if f.endswith("::count_ones") or f.endswith("::leading_zeros") or f.endswith("::trailing_zeros"):
                lo, hi = 0, 128
            last = f.rsplit("::", 1)[-1]
            if last in ("len", "capacity", "remaining", "count") and (self.ty(a) in (None, "usize")) and (
                    f.startswith("std::") or f.startswith("arrayvec::") or f.startswith("<std::") or "ExactSizeIterator" in f):
                # sizes of in-memory collections
                lo, hi = max(lo, 0), min(hi, 2 ** 63 - 1)
        elif k == "unwrapped":
            pb = self.payload_bounds(a[1])
            if pb:
                ilo = self.lin_interval(pb[0]) if pb[0] is not None else None
                ihi = self.lin_interval(pb[1]) if pb[1] is not None else None
                if ilo:
                    lo = max(lo, ilo[0])
                if ihi:
                    hi = min(hi, ihi[1])
        return lo, hi

    def cv(self, e):
        l = self.lin(e)
        if l is not None and l.is_const():
            return l.k
        return None

    def interval(self, e):
        l = self.lin(e)
        if l is None:
            return None
        return self.lin_interval(l)

    def lin_interval(self, l, extra=None):
        lo = hi = l.k
        for a, c in l.co.items():
            blo, bhi = (extra or {}).get(a) or self.bounds(a)
            if extra and a in extra:
                b2 = self.bounds(a)
                blo, bhi = max(blo, b2[0]), min(bhi, b2[1])
            if c > 0:
                lo += c * blo if blo > -INF else -INF
                hi += c * bhi if bhi < INF else INF
            else:
                lo += c * bhi if bhi < INF else -INF
                hi += c * blo if blo > -INF else INF
            lo = max(lo, -INF)
            hi = min(hi, INF)
        return lo, hi

    # -------------------------------------------------------------- linearisation
    def lin(self, e, depth=0):
        if depth > 30 or not isinstance(e, tuple):
            return None
        k = e[0]
        if k == "c":
            return Lin.const(e[1])
        if k == "bin":
            op = e[1]
            if op in ("Add", "AddUnchecked", "Sub", "SubUnchecked"):
                a = self.lin(e[2], depth + 1)
                b = self.lin(e[3], depth + 1)
                if a is None or b is None:
                    return None
                return a.add(b) if op.startswith("Add") else a.sub(b)
            if op in ("Mul", "MulUnchecked"):
                a = self.lin(e[2], depth + 1)
                b = self.lin(e[3], depth + 1)
                if a is not None and b is not None:
                    if a.is_const():
                        return b.scale(a.k)
                    if b.is_const():
                        return a.scale(b.k)
                return Lin.atom(e)
            if op in ("Shl",):
                b = self.cv(e[3])
                a = self.lin(e[2], depth + 1)
                if b is not None and a is not None and a.is_const():
                    return Lin.const(a.k << b)
                return Lin.atom(e)
            if op in ("BitAnd", "BitOr", "BitXor", "Shr", "Div", "Rem"):
                ce = ("bin", op, self.canon(e[2], depth + 1), self.canon(e[3], depth + 1))
                if ce != e and depth < 25:
                    return self.lin(ce, depth + 1)
                a = self.cv(e[2])
                b = self.cv(e[3])
                if a is not None and b is not None:
                    try:
                        v = {"BitAnd": lambda: a & b, "BitOr": lambda: a | b, "BitXor": lambda: a ^ b,
                             "Shr": lambda: a >> b, "Div": lambda: a // b, "Rem": lambda: a % b}[op]()
                        return Lin.const(v)
                    except Exception:
                        pass
                return Lin.atom(e)
            return Lin.atom(e)
        if k == "cast":
            if e[1] == "IntToInt":
                tr = int_range(e[2])
                ri = self.interval(e[3])
                if tr and ri and ri[0] >= tr[0] and ri[1] <= tr[1]:
                    return self.lin(e[3], depth + 1)
            return Lin.atom(e)
        if k == "len":
            return self.len_lin(e[1], depth + 1)
        if k == "unwrapped":
            x = e[1]
            if x[0] == "call":
                f = x[1]
                if _cast_kind(f) == "try" or f.endswith("::try_into") or f.endswith("::try_from"):
                    return self.lin(x[2][0], depth + 1)
                if path_matches(f, "std::num::checked_add") and len(x[2]) == 2:
                    a, b = self.lin(x[2][0], depth + 1), self.lin(x[2][1], depth + 1)
                    if a is not None and b is not None:
                        return a.add(b)
                if path_matches(f, "std::num::checked_sub") and len(x[2]) == 2:
                    a, b = self.lin(x[2][0], depth + 1), self.lin(x[2][1], depth + 1)
                    if a is not None and b is not None:
                        return a.sub(b)
                if path_matches(f, "std::num::checked_mul") and len(x[2]) == 2:
                    a, b = self.lin(x[2][0], depth + 1), self.lin(x[2][1], depth + 1)
                    if a is not None and b is not None:
                        if b.is_const():
                            return a.scale(b.k)
                        if a.is_const():
                            return b.scale(a.k)
            return Lin.atom(e)
        if k == "call":
            f = e[1]
            ck = _cast_kind(f)
            if ck in ("lossless", "assert") and e[2]:
                return self.lin(e[2][0], depth + 1)
            if (f.endswith(" as std::convert::From>::from") or f == "std::convert::Into::into"
                    or f == "std::convert::From::from" or f == "std::convert::num::from") and e[2]:
                # integer widening conversions provided by std are lossless by construction
                ti = self.ty(e[2][0])
                if int_range(ti):
                    return self.lin(e[2][0], depth + 1)
            if path_matches(f, "std::slice::len") and e[2]:
                return self.len_lin(e[2][0], depth + 1)
            if f == "std::mem::size_of" and len(e) > 3 and e[3][0] == "targs" and e[3][1]:
                sz = self.type_size(e[3][1][0])
                if sz is not None:
                    return Lin.const(sz)
                return Lin.atom(e)
            return Lin.atom(e)
        if k == "deref":
            # integers behind shared references (e.g. `&b` in closures / iterators)
            return Lin.atom(e)
        return Lin.atom(e)

    def canon(self, e, depth=0):
        """canonical form of an operand of a non-linear operator: a constant, or the single atom it
        is equal to (e.g. len(&*x) -> len(x), x * 1 -> x)"""
        if e[0] == "c":
            return e
        l = self.lin(e, depth + 1)
        if l is None:
            return e
        if l.is_const():
            t = self.ty(e) or "usize"
            return ("c", l.k, t, None)
        if l.k == 0 and len(l.co) == 1:
            (a, c), = l.co.items()
            if c == 1:
                if a != e:
                    self.ir.ety.setdefault(a, self.ty(e))
                return a
        return e

    def len_lin(self, x, depth=0):
        """linear form of the length of slice-valued expression x"""
        x = _strip_reborrow(x)
        k = x[0]
        n = self._array_len(x)
        if n is not None:
            return Lin.const(n)
        if k == "unsize":
            inner = _strip_reborrow(x[1])
            t = self.ty(inner) or self.ty(x[1]) or ""
            m = re.search(r"\[.*; (\d+)\]$", t.strip())
            if m:
                return Lin.const(int(m.group(1)))
            if inner[0] == "k":
                m = re.search(r"\[.*; (\d+)\]$", inner[1])
                if m:
                    return Lin.const(int(m.group(1)))
            return Lin.atom(("len", x))
        if k == "k":
            m = re.search(r"\[.*; (\d+)\]$", x[1])
            if m:
                return Lin.const(int(m.group(1)))
        if k == "field" and x[2] in (0, 1):
            base = x[1]
            if base[0] == "call":
                f = base[1]
                if (path_matches(f, "std::slice::split_at") or path_matches(f, "std::slice::split_at_mut")) and len(base[2]) == 2:
                    n = self.lin(base[2][1], depth + 1)
                    if n is not None:
                        if x[2] == 0:
                            return n
                        ls = self.len_lin(base[2][0], depth + 1)
                        if ls is not None:
                            return ls.sub(n)
            if base[0] == "unwrapped" and base[1][0] == "call":
                c = base[1]
                f = c[1]
                if path_matches(f, "libtw2_common::bytes::FromBytesExt::ref_and_rest_from") and x[2] == 1:
                    sz = self.size_lin(c)
                    ls = self.len_lin(c[2][0], depth + 1)
                    if sz is not None and ls is not None:
                        return ls.sub(sz)
                if (path_matches(f, "std::slice::split_first") or path_matches(f, "std::slice::split_last")) and x[2] == 1:
                    ls = self.len_lin(c[2][0], depth + 1)
                    if ls is not None:
                        return ls.sub(Lin.const(1))
                if (path_matches(f, "std::slice::split_at_checked")) and len(c[2]) == 2:
                    n = self.lin(c[2][1], depth + 1)
                    if n is not None:
                        if x[2] == 0:
                            return n
                        ls = self.len_lin(c[2][0], depth + 1)
                        if ls is not None:
                            return ls.sub(n)
        if k == "call":
            f = x[1]
            if _is_index(f) and len(x[2]) == 2:
                r = self.range_len(x[2][0], x[2][1], depth + 1)
                if r is not None:
                    return r
            if path_matches(f, "std::slice::Iter::as_slice") or path_matches(f, "std::slice::iter::Iter::as_slice"):
                pass
            if f.endswith("as std::ops::Deref>::deref") or f.endswith("as std::ops::DerefMut>::deref_mut"):
                pass
        if k == "unwrapped" and x[1][0] == "call":
            c = x[1]
            if path_matches(c[1], "std::slice::get") and len(c[2]) == 2:
                r = self.range_len(c[2][0], c[2][1], depth + 1)
                if r is not None:
                    return r
            if c[1] in self.prog.bodies and depth < 20:
                rl = ret_payload_len(self.prog, c[1])
                if rl is not None:
                    sl = subst_lin(rl, c[2], self)
                    if sl is not None:
                        return sl
        return Lin.atom(("len", x))

    def _array_len(self, x):
        """N if x is (a reference to) an array [T; N] by its static type"""
        for y in (x, x[2] if x[0] == "ref" else None, x[1] if x[0] in ("unsize", "deref") else None):
            if y is None:
                continue
            t = self.ty(y)
            if y[0] == "k":
                t = y[1]
            if not t:
                continue
            t = t.strip()
            m = re.match(r"^(?:&(?:'\w+ )?(?:mut )?)*\[.*; (\d+)\]$", t)
            if m:
                return int(m.group(1))
        return None

    def range_len(self, s, rng, depth):
        rng = _strip_reborrow(rng)
        if rng[0] != "agg" or rng[1] != "adt":
            return None
        name = rng[2] or ""
        fl = dict(rng[4])
        if name.endswith("ops::range::RangeTo") or name.endswith("ops::RangeTo"):
            return self.lin(fl.get("end"), depth)
        if name.endswith("::RangeFrom"):
            ls = self.len_lin(s, depth)
            st = self.lin(fl.get("start"), depth)
            if ls is not None and st is not None:
                return ls.sub(st)
        if name.endswith("::Range"):
            a, b = self.lin(fl.get("start"), depth), self.lin(fl.get("end"), depth)
            if a is not None and b is not None:
                return b.sub(a)
        if name.endswith("::RangeFull"):
            return self.len_lin(s, depth)
        return None

    def type_size(self, t):
        from .facts import norm_path
        prim = {"u8": 1, "i8": 1, "u16": 2, "i16": 2, "u32": 4, "i32": 4, "u64": 8, "i64": 8,
                "usize": 8, "isize": 8, "u128": 16, "i128": 16, "bool": 1, "char": 4}
        if t in prim:
            return prim[t]
        m = re.match(r"^\[(\w+); (\d+)\]$", t)
        if m and m.group(1) in prim:
            return prim[m.group(1)] * int(m.group(2))
        a = self.prog.adts.get(norm_path(t)) or self.prog.adts.get(t)
        if a and a.get("size") is not None:
            return a["size"]
        return None

    def size_lin(self, call):
        """Lin of size_of::<T>() for T = first type argument of the call at the given site"""
        site = call[3] if len(call) > 3 else None
        if not site or site[0] == "targs":
            return None
        body = self.prog.bodies.get(site[0])
        if body is None:
            return None
        t = body.blocks[site[1]]["term"]
        targs = t.get("targs") or []
        if not targs:
            return None
        sz = self.type_size(targs[0])
        if sz is not None:
            return Lin.const(sz)
        return Lin.atom(("call", "std::mem::size_of", (), ("targs", (targs[0],))))

    def size_of_targ(self, call):
        """size_of::<T>() for the Self type of a resolved trait call, from the ADT facts"""
        site = call[3] if len(call) > 3 else None
        if not site:
            return None
        body = self.prog.bodies.get(site[0])
        if body is None:
            return None
        t = body.blocks[site[1]]["term"]
        targs = t.get("targs") or []
        if not targs:
            return None
        from .facts import norm_path
        a = self.prog.adts.get(norm_path(targs[0])) or self.prog.adts.get(targs[0])
        if a and a.get("size") is not None:
            return a["size"]
        return None

    # -------------------------------------------------------------- conditions -> constraints
    def constraints_of(self, e, rel, v, dty=None):
        """constraints (list of Lin, each meaning lin <= 0) implied by `e rel v`; [] if none"""
        out = []
        if rel == "==":
            if self._is_bool(e, dty) and v in (0, 1):
                return self.bool_constraints(e, bool(v))
            l = self.lin(e)
            if l is not None and int_range(self.ty(e) or dty):
                out.append(l.sub(Lin.const(v)))
                out.append(Lin.const(v).sub(l))
        elif rel == "notin":
            if self._is_bool(e, dty):
                if set(v) == {0}:
                    return self.bool_constraints(e, True)
                if set(v) == {1}:
                    return self.bool_constraints(e, False)
            l = self.lin(e)
            r = int_range(self.ty(e) or dty)
            if l is not None and r:
                vs = sorted(v)
                # excluded prefix / suffix of the type range
                lo = r[0]
                while lo in vs:
                    lo += 1
                if lo > r[0]:
                    out.append(Lin.const(lo).sub(l))
                hi = r[1]
                while hi in vs:
                    hi -= 1
                if hi < r[1]:
                    out.append(l.sub(Lin.const(hi)))
        return out

    def _is_bool(self, e, dty):
        if dty == "bool":
            return True
        return self.ty(e) == "bool"

    def bool_constraints(self, e, truth, depth=0):
        """constraints implied by boolean expression e having value `truth`"""
        if depth > 12:
            return []
        k = e[0]
        if k == "un" and e[1] == "Not":
            return self.bool_constraints(e[2], not truth, depth + 1)
        if k == "c":
            return []
        if k == "bin":
            op = e[1]
            a, b = e[2], e[3]
            if op in ("Eq", "Ne") and (self.ty(a) == "bool" or self.ty(b) == "bool"):
                # x == true / x != false ...
                cb = self.cv(b)
                ca = self.cv(a)
                if cb is not None:
                    t = (cb == 1) if op == "Eq" else (cb != 1)
                    return self.bool_constraints(a, truth == t, depth + 1)
                if ca is not None:
                    t = (ca == 1) if op == "Eq" else (ca != 1)
                    return self.bool_constraints(b, truth == t, depth + 1)
                return []
            if op in ("BitAnd",) and self.ty(e) == "bool":
                if truth:
                    return self.bool_constraints(a, True, depth + 1) + self.bool_constraints(b, True, depth + 1)
                return []
            if op in ("BitOr",) and self.ty(e) == "bool":
                if not truth:
                    return self.bool_constraints(a, False, depth + 1) + self.bool_constraints(b, False, depth + 1)
                return []
            if op in ("Lt", "Le", "Gt", "Ge", "Eq", "Ne"):
                if not truth:
                    op = {"Lt": "Ge", "Le": "Gt", "Gt": "Le", "Ge": "Lt", "Eq": "Ne", "Ne": "Eq"}[op]
                la, lb = self.lin(a), self.lin(b)
                if la is None or lb is None:
                    return []
                ta, tb = self.ty(a), self.ty(b)
                if not (int_range(ta) or int_range(tb) or a[0] in ("len",) or b[0] in ("len",)):
                    # comparisons of non-integers carry no arithmetic
                    if not (la.is_const() or lb.is_const()):
                        return []
                d = la.sub(lb)
                if op == "Lt":
                    return [d.add(Lin.const(1))]
                if op == "Le":
                    return [d]
                if op == "Gt":
                    return [d.scale(-1).add(Lin.const(1))]
                if op == "Ge":
                    return [d.scale(-1)]
                if op == "Eq":
                    return [d, d.scale(-1)]
                lo, hi = self.lin_interval(d)
                if lo >= 0:
                    return [Lin.const(1).sub(d)]
                if hi <= 0:
                    return [d.add(Lin.const(1))]
                return [("ne", d)]
        if k == "call":
            f = e[1]
            args = e[2]
            if path_matches(f, "std::slice::is_empty") and args:
                l = self.len_lin(args[0])
                if l is not None:
                    return [l] if truth else [Lin.const(1).sub(l)]
            cmpops = {"lt": "Lt", "le": "Le", "gt": "Gt", "ge": "Ge", "eq": "Eq", "ne": "Ne"}
            last = f.rsplit("::", 1)[-1]
            if last in cmpops and len(args) == 2 and ("PartialOrd" in f or "PartialEq" in f):
                a, b = _strip_ref(args[0]), _strip_ref(args[1])
                if int_range(self.ty(a)) or int_range(self.ty(b)):
                    return self.bool_constraints(("bin", cmpops[last], a, b), truth, depth + 1)
            if last in ("is_some", "is_ok", "is_none", "is_err") and args and (
                    "option::Option" in f or "result::Result" in f):
                succ = last in ("is_some", "is_ok")
                return self.variant_constraints(_strip_ref(args[0]), succ == truth)
        if k == "discr":
            return []
        return []

    def variant_constraints(self, x, success):
        """constraints implied by Option/Result-valued x being (not) its success variant"""
        x = _strip_reborrow(x)
        if x[0] != "call":
            return []
        cond = self.success_condition(x)
        if cond is None:
            return []
        if success:
            return cond
        if len(cond) == 1:
            return [cond[0].scale(-1).add(Lin.const(1))]
        return []

    def success_condition(self, c):
        """for a call returning Option/Result: constraints equivalent to it being Some/Ok"""
        f = c[1]
        a = c[2]
        if path_matches(f, "std::num::checked_sub") and len(a) == 2:
            la, lb = self.lin(a[0]), self.lin(a[1])
            r = int_range(self.ty(a[0]))
            if la is not None and lb is not None and r:
                return [Lin.const(r[0]).sub(la.sub(lb)), la.sub(lb).sub(Lin.const(r[1]))]
        if path_matches(f, "std::num::checked_add") and len(a) == 2:
            la, lb = self.lin(a[0]), self.lin(a[1])
            r = int_range(self.ty(a[0]))
            if la is not None and lb is not None and r:
                return [la.add(lb).sub(Lin.const(r[1])), Lin.const(r[0]).sub(la.add(lb))]
        if path_matches(f, "libtw2_common::bytes::FromBytesExt::ref_and_rest_from") and a:
            sz = self.size_lin(c)
            ls = self.len_lin(a[0])
            if sz is not None and ls is not None:
                return [sz.sub(ls)]
        if (path_matches(f, "zerocopy::FromBytes::ref_from") or path_matches(f, "zerocopy::FromBytes::read_from")) and a:
            # Some iff the length equals size_of::<Self>() (the header types are byte arrays, align 1;
            # checked by the unsafe-inventory rule of C16/C19)
            sz = self.size_lin(c)
            ls = self.len_lin(a[0])
            if sz is not None and ls is not None:
                return [sz.sub(ls), ls.sub(sz)]
        for nm in ("split_first", "split_last", "first", "last", "first_mut", "last_mut"):
            if path_matches(f, "std::slice::" + nm) and a:
                ls = self.len_lin(a[0])
                if ls is not None:
                    return [Lin.const(1).sub(ls)]
        if (path_matches(f, "std::slice::get") or path_matches(f, "std::slice::get_mut")) and len(a) == 2:
            ls = self.len_lin(a[0])
            if int_range(self.ty(a[1])):
                li = self.lin(a[1])
                if ls is not None and li is not None:
                    return [li.sub(ls).add(Lin.const(1))]
            else:
                r = self.range_goals(a[0], a[1])
                if r is not None:
                    return r
        if path_matches(f, "std::slice::split_at_checked") and len(a) == 2:
            ls, n = self.len_lin(a[0]), self.lin(a[1])
            if ls is not None and n is not None:
                return [n.sub(ls)]
        if _cast_kind(f) == "try" and a:
            tgt = f.rsplit("try_", 1)[-1]
            r = int_range(tgt)
            l = self.lin(a[0])
            if r and l is not None:
                return [Lin.const(r[0]).sub(l), l.sub(Lin.const(r[1]))]
        return None

    def range_goals(self, s, rng):
        """safety constraints of slicing s with range aggregate rng"""
        rng = _strip_reborrow(rng)
        if rng[0] != "agg" or rng[1] != "adt":
            return None
        name = rng[2] or ""
        fl = dict(rng[4])
        ls = self.len_lin(s)
        if ls is None:
            return None
        if name.endswith("::RangeTo"):
            e = self.lin(fl.get("end"))
            return None if e is None else [e.sub(ls)]
        if name.endswith("::RangeFrom"):
            st = self.lin(fl.get("start"))
            return None if st is None else [st.sub(ls)]
        if name.endswith("::Range"):
            a, b = self.lin(fl.get("start")), self.lin(fl.get("end"))
            if a is None or b is None:
                return None
            return [a.sub(b), b.sub(ls)]
        if name.endswith("::RangeFull"):
            return []
        if name.endswith("::RangeInclusive") or name.endswith("::RangeToInclusive"):
            return None
        return None

    # -------------------------------------------------------------- intrinsic facts of atoms
    def intrinsic(self, lins):
        """relational facts that hold for atoms by the algebra of their operator"""
        out = []
        seen = set()
        work = []
        for l in lins:
            if isinstance(l, Lin):
                work.extend(l.co.keys())
        n = 0
        while work and n < 200:
            a = work.pop()
            if a in seen:
                continue
            seen.add(a)
            n += 1
            new = []
            k = a[0]
            if k == "call":
                f = a[1]
                args = a[2]
                if (path_matches(f, "std::cmp::min") or path_matches(f, "std::cmp::Ord::min")) and len(args) == 2:
                    for x in args:
                        lx = self.lin(x)
                        if lx is not None:
                            new.append(Lin.atom(a).sub(lx))
                if (path_matches(f, "std::cmp::max") or path_matches(f, "std::cmp::Ord::max")) and len(args) == 2:
                    for x in args:
                        lx = self.lin(x)
                        if lx is not None:
                            new.append(lx.sub(Lin.atom(a)))
                if path_matches(f, "std::num::saturating_sub") and len(args) == 2:
                    lx = self.lin(args[0])
                    r = int_range(self.ty(args[0]))
                    if lx is not None and r and r[0] == 0:
                        new.append(Lin.atom(a).sub(lx))
                if path_matches(f, "std::option::Option::unwrap_or") and len(args) == 2:
                    # A = unwrap_or(O, D): A <= D when payload(O) <= D, A <= U when D <= U
                    u = self.payload_upper(args[0])
                    ld = self.lin(args[1])
                    if u is not None and ld is not None:
                        if self.lin_interval(u.sub(ld))[1] <= 0:
                            new.append(Lin.atom(a).sub(ld))
                        elif self.lin_interval(ld.sub(u))[1] <= 0:
                            new.append(Lin.atom(a).sub(u))
            elif k == "bin":
                op = a[1]
                if op in ("Rem", "Div", "Shr", "BitAnd"):
                    la = self.lin(a[2])
                    ia = self.interval(a[2])
                    if la is not None and ia and ia[0] >= 0:
                        new.append(Lin.atom(a).sub(la))
                    if op == "BitAnd":
                        lb = self.lin(a[3])
                        ib = self.interval(a[3])
                        if lb is not None and ib and ib[0] >= 0:
                            new.append(Lin.atom(a).sub(lb))
                if op == "Shr":
                    k_ = self.cv(a[3])
                    la = self.lin(a[2])
                    ia = self.interval(a[2])
                    if k_ is not None and 0 <= k_ < 64 and la is not None and ia and ia[0] >= 0:
                        # x - 2^k * A - 2^k + 1 <= 0   and   2^k * A - x <= 0
                        new.append(la.sub(Lin.atom(a).scale(1 << k_)).sub(Lin.const((1 << k_) - 1)))
                        new.append(Lin.atom(a).scale(1 << k_).sub(la))
                if op == "Rem":
                    lb = self.lin(a[3])
                    ia = self.interval(a[2])
                    ib = self.interval(a[3])
                    if lb is not None and ia and ia[0] >= 0 and ib and ib[0] >= 1:
                        new.append(Lin.atom(a).sub(lb).add(Lin.const(1)))
            elif k == "unwrapped":
                pb = self.payload_bounds(a[1])
                if pb:
                    if pb[1] is not None:
                        new.append(Lin.atom(a).sub(pb[1]))
                    if pb[0] is not None:
                        new.append(pb[0].sub(Lin.atom(a)))
            for l in new:
                out.append(l)
                work.extend(l.co.keys())
        return out

    def payload_bounds(self, x):
        """(lower Lin or None, upper Lin or None) of the payload of Option-valued x"""
        x = _strip_reborrow(x)
        if x[0] != "call" or not x[2]:
            return None
        f = x[1]
        raw_ok = f in ("std::iter::range::next",) or f.endswith("as std::iter::Iterator>::next") and "Range" in f
        if raw_ok:
            it = _strip_reborrow(x[2][0])
            if it[0] == "ref":
                it = it[2]
            if it[0] == "var":
                it = self.ir.var_init(it[1])
            n = 0
            while it is not None and it[0] == "call" and it[2] and n < 4 and (
                    it[1].endswith("::into_iter") or it[1].endswith("IntoIterator>::into_iter")):
                it = _strip_reborrow(it[2][0])
                n += 1
            if it is not None and it[0] == "agg" and it[1] == "adt" and (it[2] or "").endswith("::Range"):
                fl = dict(it[4])
                a, b = self.lin(fl.get("start")), self.lin(fl.get("end"))
                return (a, b.sub(Lin.const(1)) if b is not None else None)
        u = self.payload_upper(x)
        if u is not None:
            return (Lin.const(0), u)
        return None

    def payload_upper(self, x):
        """upper bound (Lin) of the payload of Option-valued x, for a few std producers"""
        x = _strip_reborrow(x)
        if x[0] != "call" or not x[2]:
            return None
        f = x[1]
        if path_matches(f, "std::iter::Iterator::position") or f.endswith("as std::iter::Iterator>::position"):
            s = self.iter_source(x[2][0])
            if s is not None:
                ls = self.len_lin(s)
                if ls is not None:
                    return ls.sub(Lin.const(1))
        return None

    def iter_source(self, it):
        """slice a `slice::Iter` value was created from (the iterator may have advanced)"""
        it = _strip_reborrow(it)
        if it[0] == "ref":
            it = it[2]
        if it[0] == "var":
            init = self.ir.var_init(it[1])
            if init is None:
                return None
            it = init
        if it[0] == "call" and (path_matches(it[1], "std::slice::iter") or path_matches(it[1], "std::slice::iter_mut")) and it[2]:
            return it[2][0]
        return None

    # -------------------------------------------------------------- proving
    def facts_at(self, bb):
        facts = []
        nes = []
        for e, rel, v, edge, dty in self.ir.edge_conditions(bb):
            if e[0] == "discr":
                # Option/Result success variant tests on calls with a known success condition
                x = e[1]
                var = self.variant_of_discr(x, rel, v)
                if var is not None:
                    for c in self.variant_constraints(x, var):
                        facts.append(c)
                # Ordering results of cmp(a, b)
                facts.extend(self.ordering_constraints(x, rel, v))
                continue
            for c in self.constraints_of(e, rel, v, dty):
                if isinstance(c, tuple):
                    nes.append(c[1])
                else:
                    facts.append(c)
        return facts, nes

    def variant_of_discr(self, x, rel, v):
        """True if the test says x is its success variant (Some/Ok), False if the failure one"""
        t = self.ty(x) or ""
        t = t.lstrip("&").strip()
        if t.startswith("mut "):
            t = t[4:]
        if t.startswith("std::option::Option<") or t.startswith("core::option::Option<"):
            some = 1
        elif t.startswith("std::result::Result<") or t.startswith("core::result::Result<"):
            some = 0
        else:
            return None
        if rel == "==":
            return v == some
        if rel == "notin" and len(v) == 1:
            return v[0] != some
        return None

    def ordering_constraints(self, x, rel, v):
        x = _strip_reborrow(x)
        if x[0] != "call":
            return []
        f = x[1]
        if not (f.endswith("::cmp") and ("Ord" in f)) or len(x[2]) != 2:
            return []
        a, b = _strip_ref(x[2][0]), _strip_ref(x[2][1])
        if not (int_range(self.ty(a)) or int_range(self.ty(b))):
            return []
        la, lb = self.lin(a), self.lin(b)
        if la is None or lb is None:
            return []
        d = la.sub(lb)
        # Ordering: Less = -1 (255 as u8 / i8 -1), Equal = 0, Greater = 1
        def norm(val):
            return -1 if val in (255, -1, 2 ** 64 - 1, 2 ** 128 - 1) else val
        if rel == "==":
            val = norm(v)
            if val == -1:
                return [d.add(Lin.const(1))]
            if val == 0:
                return [d, d.scale(-1)]
            if val == 1:
                return [d.scale(-1).add(Lin.const(1))]
        if rel == "notin":
            vs = set(norm(z) for z in v)
            rest = {-1, 0, 1} - vs
            if rest == {-1}:
                return [d.add(Lin.const(1))]
            if rest == {1}:
                return [d.scale(-1).add(Lin.const(1))]
            if rest == {0}:
                return [d, d.scale(-1)]
            if rest == {-1, 0}:
                return [d]
            if rest == {0, 1}:
                return [d.scale(-1)]
        return []

    def prove(self, goal, facts):
        """goal: Lin meaning goal <= 0.  facts: list of Lin (each <= 0)."""
        if goal is None:
            return False
        lo, hi = self.lin_interval(goal)
        if hi <= 0:
            return True
        allf = list(facts) + self.intrinsic([goal] + list(facts))
        # unique
        uniq = {}
        for f in allf:
            uniq.setdefault(f.key(), f)
        allf = list(uniq.values())
        # relevance: facts that share atoms (transitively) with the goal
        rel_atoms = set(goal.co.keys())
        relevant = []
        changed = True
        pool = list(allf)
        while changed:
            changed = False
            rest = []
            for f in pool:
                if not f.co or (set(f.co.keys()) & rel_atoms):
                    relevant.append(f)
                    new = set(f.co.keys()) - rel_atoms
                    if new:
                        rel_atoms |= new
                        changed = True
                else:
                    rest.append(f)
            pool = rest
        relevant = relevant[:40]
        # single-atom facts tighten the intervals
        extra = {}
        multi = []
        for f in relevant:
            if len(f.co) == 1:
                (a, c), = f.co.items()
                blo, bhi = extra.get(a, (-INF, INF))
                # c*a + k <= 0
                if c > 0:
                    bhi = min(bhi, (-f.k) // c)
                else:
                    blo = max(blo, -((-f.k) // (-c)) if False else _ceil_div(f.k, -c))
                extra[a] = (blo, bhi)
            else:
                multi.append(f)
        if self.lin_interval(goal, extra)[1] <= 0:
            return True
        for r in (1, 2, 3):
            if len(multi) < r:
                break
            for combo in itertools.combinations(multi, r):
                g = goal
                for f in combo:
                    g = g.sub(f)
                if self.lin_interval(g, extra)[1] <= 0:
                    return True
                if r == 1:
                    # the fact used twice (e.g. 2*x bounds)
                    g2 = g.sub(combo[0])
                    if self.lin_interval(g2, extra)[1] <= 0:
                        return True
        return False

    def contradiction(self, facts, nes=()):
        """are the facts (each lin <= 0) jointly unsatisfiable?"""
        allf = list(facts) + self.intrinsic(list(facts))
        uniq = {}
        for f in allf:
            uniq.setdefault(f.key(), f)
        allf = list(uniq.values())
        extra = {}
        multi = []
        for f in allf:
            if not f.co:
                if f.k > 0:
                    return True
                continue
            if len(f.co) == 1:
                (a, c), = f.co.items()
                blo, bhi = extra.get(a, (-INF, INF))
                if c > 0:
                    bhi = min(bhi, (-f.k) // c)
                else:
                    blo = max(blo, _ceil_div(f.k, -c))
                extra[a] = (blo, bhi)
            else:
                multi.append(f)
        for a, (blo, bhi) in extra.items():
            b2 = self.bounds(a)
            if max(blo, b2[0]) > min(bhi, b2[1]):
                return True
        multi = multi[-40:]
        for r in (1, 2, 3):
            if len(multi) < r:
                break
            for combo in itertools.combinations(multi, r):
                s = Lin()
                for f in combo:
                    s = s.add(f)
                if self.lin_interval(s, extra)[0] > 0:
                    return True
        # disequalities: d != 0 together with d <= 0 and -d <= 0
        for d in nes:
            if self.prove(d, facts) and self.prove(d.scale(-1), facts):
                return True
        return False


_RFB = {}
_RPL = {}


def ret_payload_len(prog, fid):
    """If workspace function `fid` returns Ok(s)/Some(s) with a slice s whose length is the same
    linear form over the function's parameters on every success path, that form (else None).
    E.g. Unpacker::read_raw(self, len) -> Ok(raw) with len(raw) = len."""
    if fid in _RPL and _RPL[fid][0] is prog:
        return _RPL[fid][1]
    _RPL[fid] = (prog, None)
    body = prog.bodies.get(fid)
    res = None
    if body is not None and body.kind in ("Fn", "AssocFn"):
        from .ir import IR
        ir = IR(body)
        rs = Reasoner(ir, prog)
        forms = []
        ok = True
        for (bi, si, kind, node) in ir.defs.get(0, []):
            if kind != "assign":
                # result of a call (e.g. `self.error()`): fine if it cannot be the success variant -- unknown
                ok = ok and _never_success(prog, node)
                continue
            v = ir.rvalue(node["r"], (bi, si))
            if v[0] == "agg" and v[1] == "adt" and v[3] in ("Ok", "Some") and len(v[4]) == 1:
                l = rs.len_lin(v[4][0][1])
                if l is None or any(not _args_only_expr(a) for a in l.co):
                    ok = False
                else:
                    forms.append(l)
            elif v[0] == "agg" and v[1] == "adt" and v[3] in ("Err", "None"):
                continue
            else:
                ok = False
        if ok and forms and all(f.key() == forms[0].key() for f in forms):
            res = forms[0]
    _RPL[fid] = (prog, res)
    return res


def _never_success(prog, term):
    """the callee of this call terminator only ever returns Err/None"""
    f = term.get("callee")
    b = prog.bodies.get(f)
    if b is None:
        return False
    from .ir import IR
    ir = IR(b)
    ds = ir.defs.get(0, [])
    if not ds:
        return False
    for (bi, si, kind, node) in ds:
        if kind != "assign":
            return False
        r = node["r"]
        if not (r["k"] == "agg" and r.get("variant") in ("Err", "None")):
            return False
    return True


def _args_only_expr(e):
    from .ir import walk
    for x in walk(e):
        if isinstance(x, tuple) and x and isinstance(x[0], str) and x[0] in ("var", "deref", "call"):
            if x[0] == "call" and x[1] in ("std::mem::size_of",):
                continue
            return False
    return True


def subst_expr(e, args):
    from .ir import simplify
    if not isinstance(e, tuple) or not e:
        return e
    if e[0] == "arg":
        if e[1] < len(args):
            return args[e[1]]
        return ("var", -1, "?", None)
    if isinstance(e[0], str):
        if e[0] in ("c", "k", "fn", "var"):
            return e
        if e[0] == "call":
            return ("call", e[1], tuple(subst_expr(a, args) for a in e[2])) + tuple(e[3:])
        return simplify((e[0],) + tuple(subst_expr(x, args) if isinstance(x, tuple) else x for x in e[1:]))
    return tuple(subst_expr(x, args) if isinstance(x, tuple) else x for x in e)


def subst_lin(l, args, rs):
    out = Lin.const(l.k)
    for a, c in l.co.items():
        e = subst_expr(a, args)
        if e[0] == "len":
            le = rs.len_lin(e[1])
        else:
            le = rs.lin(e)
        if le is None:
            return None
        out = out.add(le.scale(c))
    return out


def ret_field_bounds(prog, fid, field):
    """interval of (a field of) the value returned by workspace function `fid`, when every return
    path returns one aggregate / expression whose interval follows from operator algebra alone
    (e.g. `flags: b0 >> 4` is within 0..15).  None if unknown."""
    key = (fid, field)
    if key in _RFB and _RFB[key][0] is prog:
        return _RFB[key][1]
    _RFB[key] = (prog, None)
    body = prog.bodies.get(fid)
    res = None
    if body is not None and body.kind in ("Fn", "AssocFn"):
        from .ir import IR
        ir = IR(body)
        rs = Reasoner(ir, prog)
        rets = body.return_blocks()
        los, his = [], []
        ok = bool(rets)
        for rb in rets:
            e = ir.place({"l": 0}, (rb, len(body.blocks[rb]["st"])))
            if e[0] == "var":
                # several assignments of _0: take each
                vals = []
                for (bi, si, kind, node) in ir.defs.get(0, []):
                    if kind == "assign":
                        vals.append(ir.rvalue(node["r"], (bi, si)))
                    else:
                        ok = False
                if not vals:
                    ok = False
            else:
                vals = [e]
            for v in vals:
                if field is not None:
                    if v[0] == "agg" and v[1] == "adt":
                        fv = dict(v[4]).get(field)
                        if fv is None:
                            ok = False
                            continue
                        v = fv
                    else:
                        ok = False
                        continue
                iv = rs.interval(v)
                if iv is None:
                    ok = False
                else:
                    los.append(iv[0])
                    his.append(iv[1])
        if ok and los:
            res = (min(los), max(his))
            if res[0] <= -INF and res[1] >= INF:
                res = None
    _RFB[key] = (prog, res)
    return res


def _ceil_div(a, b):
    return -((-a) // b)


def _strip_reborrow(x):
    while True:
        if x[0] == "ref" and x[2][0] == "deref":
            x = x[2][1]
        elif x[0] == "deref" and x[1][0] == "ref":
            x = x[1][2]
        else:
            return x


def _strip_ref(x):
    x = _strip_reborrow(x)
    if x[0] == "ref":
        return x[2]
    return ("deref", x) if False else x


def _is_index(f):
    return f in ("std::slice::index::index", "std::slice::index::index_mut",
                 "std::array::index", "std::array::index_mut") or (
        f.endswith("std::ops::Index>::index") and "slice" in f) or (
        f.endswith("std::ops::IndexMut>::index_mut") and "slice" in f)


_CAST_RE = re.compile(r"(?:libtw2_common::num::(?:cast::)?Cast::|as libtw2_common::num::(?:cast::)?Cast>::)(try_|assert_)?(i8|u8|i16|u16|i32|u32|i64|u64|isize|usize)$")


def _cast_kind(f):
    m = _CAST_RE.search(f)
    if not m:
        return None
    if m.group(1) == "try_":
        return "try"
    if m.group(1) == "assert_":
        return "assert"
    return "lossless"


def cast_target(f):
    m = _CAST_RE.search(f)
    return m.group(2) if m else None
