"""Fact extraction: run the mirfacts rustc driver over /repo's *current working tree*.

Facts are cached under /verif/.cache/facts/<tier>-<tree key>/ where the tree key is a SHA-256
over every input of the build (all *.rs, Cargo.toml, Cargo.lock, build.rs, protocol specs).
A check always recomputes the key of the current tree first, so an edited tree is re-extracted.
"""
import fcntl
import hashlib
import json
import os
import shutil
import subprocess
import sys
import time

VERIF = os.path.dirname(os.path.dirname(os.path.abspath(__file__)))
REPO = os.environ.get("VERIF_REPO", "/repo")
CACHE = os.environ.get("VERIF_CACHE") or os.path.join(VERIF, ".cache")     # VERIF_CACHE: a second lane for sweeps
DRIVER = os.path.join(VERIF, "engine", "mirfacts", "target", "release", "mirfacts")

# library packages anchored by the properties (quick tier); thorough = whole workspace, all targets
CORE_PACKAGES = [
    "libtw2-buffer", "libtw2-common", "libtw2-warn", "libtw2-huffman", "libtw2-packer",
    "libtw2-net", "libtw2-snapshot", "libtw2-gamenet-common", "libtw2-gamenet-snap",
    "libtw2-gamenet-ddnet", "libtw2-gamenet-teeworlds-0-5", "libtw2-gamenet-teeworlds-0-6",
    "libtw2-gamenet-teeworlds-0-7", "libtw2-demo", "libtw2-datafile", "libtw2-map",
    "libtw2-teehistorian", "libtw2-serverbrowse", "libtw2-zlib-minimal",
]


class EngineError(Exception):
    pass


def _iter_inputs(repo):
    skip_dirs = {"target", ".git", "_old", "node_modules", "__pycache__"}
    for root, dirs, files in os.walk(repo):
        dirs[:] = sorted(d for d in dirs if d not in skip_dirs)
        for f in sorted(files):
            if f.endswith(".rs") or f in ("Cargo.toml", "Cargo.lock") or (
                f.endswith(".json") and "generate" in root and "spec" in root):
                yield os.path.join(root, f)


def tree_key(repo=None):
    repo = repo or REPO
    h = hashlib.sha256()
    n = 0
    for p in _iter_inputs(repo):
        h.update(os.path.relpath(p, repo).encode())
        h.update(b"\0")
        with open(p, "rb") as fh:
            h.update(hashlib.sha256(fh.read()).digest())
        n += 1
    # the driver itself is an input of the facts
    try:
        with open(DRIVER, "rb") as fh:
            h.update(hashlib.sha256(fh.read()).digest())
    except OSError:
        pass
    h.update(repo.encode())
    return h.hexdigest()[:24], n


def _nightly_sysroot():
    out = subprocess.run(["rustc", "+nightly", "--print", "sysroot"], capture_output=True, text=True)
    if out.returncode != 0:
        raise EngineError("no nightly toolchain: " + out.stderr)
    return out.stdout.strip()


def _member_packages(repo):
    out = subprocess.run(["cargo", "metadata", "--offline", "--no-deps", "--format-version", "1"],
                         cwd=repo, capture_output=True, text=True,
                         env=dict(os.environ, CARGO_NET_OFFLINE="true"))
    if out.returncode != 0:
        raise EngineError("cargo metadata failed: " + out.stderr[-2000:])
    md = json.loads(out.stdout)
    return md["packages"]


def ensure_driver():
    if not os.path.exists(DRIVER):
        r = subprocess.run(["cargo", "build", "--release", "--offline"],
                           cwd=os.path.join(VERIF, "engine", "mirfacts"),
                           env=dict(os.environ, CARGO_NET_OFFLINE="true"))
        if r.returncode != 0 or not os.path.exists(DRIVER):
            raise EngineError("cannot build the mirfacts driver")


def facts_dir(tier, repo=None, log=sys.stderr):
    """Return the directory with the fact files for the current tree, extracting if needed."""
    repo = repo or REPO
    ensure_driver()
    if os.environ.get("VERIF_FACTS_DIR"):        # scratch lanes of bin/batch.py only: facts extracted by lane_extract()
        return os.environ["VERIF_FACTS_DIR"], "lane", True
    os.makedirs(CACHE, exist_ok=True)
    key, nfiles = tree_key(repo)
    fdir = os.path.join(CACHE, "facts", "%s-%s" % (tier, key))
    done = os.path.join(fdir, "DONE")
    if os.path.exists(done):
        return fdir, key, True
    # a thorough extraction also serves the quick tier
    if tier == "quick":
        alt = os.path.join(CACHE, "facts", "thorough-%s" % key, "DONE")
        if os.path.exists(alt):
            return os.path.dirname(alt), key, True
    lockf = open(os.path.join(CACHE, "extract.lock"), "w")
    fcntl.flock(lockf, fcntl.LOCK_EX)
    try:
        if os.path.exists(done):
            return fdir, key, True
        t0 = time.time()
        if os.path.isdir(fdir):
            shutil.rmtree(fdir)
        os.makedirs(fdir)
        target = os.path.join(CACHE, "target-%s" % tier)
        # cargo's freshness cache would silently skip the wrapper for members: drop their
        # fingerprints (dependencies from crates.io stay cached, they never see the wrapper)
        pkgs = _member_packages(repo)
        fpdir = os.path.join(target, "debug", ".fingerprint")
        if os.path.isdir(fpdir):
            names = set(p["name"] for p in pkgs)
            for d in os.listdir(fpdir):
                base = d.rsplit("-", 1)[0]
                if base in names:
                    shutil.rmtree(os.path.join(fpdir, d), ignore_errors=True)
        env = dict(os.environ)
        env.update({
            "LD_LIBRARY_PATH": _nightly_sysroot() + "/lib",
            "RUSTFLAGS": "-Zmir-opt-level=0 -Awarnings",
            "RUSTC_WORKSPACE_WRAPPER": DRIVER,
            "MIRFACTS_OUT": fdir,
            "CARGO_TARGET_DIR": target,
            "CARGO_NET_OFFLINE": "true",
        })
        env.pop("RUSTC_WRAPPER", None)
        cmd = ["cargo", "+nightly", "check", "--offline", "-q"]
        if tier == "thorough":
            cmd += ["--workspace", "--all-targets"]
        else:
            have = set(p["name"] for p in pkgs)
            for p in CORE_PACKAGES:
                if p in have:
                    cmd += ["-p", p]
        r = subprocess.run(cmd, cwd=repo, env=env, capture_output=True, text=True)
        if r.returncode != 0:
            shutil.rmtree(fdir, ignore_errors=True)
            raise EngineError("extraction build failed (the tree does not compile on nightly?):\n"
                              + r.stderr[-4000:])
        files = [f for f in os.listdir(fdir) if f.endswith(".json")]
        if not files:
            shutil.rmtree(fdir, ignore_errors=True)
            raise EngineError("driver produced no fact files (wrapper skipped?)")
        with open(done, "w") as fh:
            json.dump({"key": key, "inputs": nfiles, "files": len(files),
                       "wall_s": round(time.time() - t0, 1), "cmd": cmd}, fh)
        print("[extract] %s: %d fact files in %.1fs" % (tier, len(files), time.time() - t0), file=log)
        _prune(os.path.join(CACHE, "facts"), keep=fdir)
        return fdir, key, False
    finally:
        fcntl.flock(lockf, fcntl.LOCK_UN)
        lockf.close()


def _prune(root, keep, maxn=6):
    ents = []
    for d in os.listdir(root):
        p = os.path.join(root, d)
        if p != keep and os.path.isdir(p):
            ents.append((os.path.getmtime(p), p))
    ents.sort(reverse=True)
    for _, p in ents[maxn:]:
        shutil.rmtree(p, ignore_errors=True)


def lane_extract(repo, fdir, target):
    """Incremental extraction for a *fixed* scratch path (bin/batch.py): cargo's own freshness decides which member crates
    are re-checked; the fact files of the others stay from the previous run of the same lane (their inputs are unchanged).
    Never used by a registered check."""
    ensure_driver()
    os.makedirs(fdir, exist_ok=True)
    pkgs = _member_packages(repo)
    env = dict(os.environ)
    env.update({
        "LD_LIBRARY_PATH": _nightly_sysroot() + "/lib",
        "RUSTFLAGS": "-Zmir-opt-level=0 -Awarnings",
        "RUSTC_WORKSPACE_WRAPPER": DRIVER,
        "MIRFACTS_OUT": fdir,
        "CARGO_TARGET_DIR": target,
        "CARGO_NET_OFFLINE": "true",
    })
    env.pop("RUSTC_WRAPPER", None)
    cmd = ["cargo", "+nightly", "check", "--offline", "-q"]
    have = set(p["name"] for p in pkgs)
    for p in CORE_PACKAGES:
        if p in have:
            cmd += ["-p", p]
    r = subprocess.run(cmd, cwd=repo, env=env, capture_output=True, text=True)
    if r.returncode != 0:
        raise EngineError("extraction build failed:\n" + r.stderr[-3000:])
    return fdir
