"""A2: whole-program call graph over the fact files."""
import re

from .facts import norm_path

_PATH_RE = re.compile(r"[A-Za-z_][A-Za-z0-9_]*(?:::[A-Za-z_][A-Za-z0-9_]*)+")


def self_adt(ty):
    """ADT path of an impl's Self type, None for references / slices / arrays / primitives"""
    t = norm_path(ty).strip()
    if t.startswith("&") or t.startswith("[") or t.startswith("(") or t.startswith("*"):
        return None
    m = _PATH_RE.match(t)
    if m:
        return m.group(0)
    return None


class CallGraph:
    def __init__(self, prog):
        self.prog = prog
        self._out = {}
        self._in = None
        self._impl_methods = None
        self.external_traits = set()
        self._unres = {}
        self._types = {}
        self._indirect = {}
        self.indirect_targets = set()

    def _impls_of(self, trait, method):
        """[(self type ADT path or None, method body id)] of workspace impls of trait::method"""
        if self._impl_methods is None:
            m = {}
            for i in self.prog.impls:
                tr = norm_path(i.get("trait") or "")
                if not tr:
                    continue
                adt = self_adt(i.get("self_ty") or "")
                for it in i["items"]:
                    nit = norm_path(it)
                    name = nit.rsplit("::", 1)[-1]
                    m.setdefault((tr, name), []).append((adt, nit))
            self._impl_methods = m
        return self._impl_methods.get((trait, method), [])

    def callees(self, fid):
        """statically known callees + (dyn) list of unresolved trait calls"""
        r = self._out.get(fid)
        if r is not None:
            return r
        body = self.prog.bodies.get(fid)
        out = []
        if body is None:
            self._out[fid] = out
            return out
        seen = set()

        indirect = self._indirect.setdefault(fid, set())

        def add(x, direct=True):
            if x and x in self.prog.bodies:
                if not direct:
                    indirect.add(x)
                if x not in seen:
                    seen.add(x)
                    out.append(x)

        for bi, blk in enumerate(body.blocks):
            if bi not in body.live:
                continue
            for st in blk["st"]:
                if st["k"] == "assign":
                    r_ = st["r"]
                    if r_["k"] == "agg" and r_.get("ak") == "closure":
                        add(norm_path(r_["def"]), False)
                    self._fn_consts(r_, lambda x: add(x, False))
            t = blk["term"]
            if t["k"] == "call":
                if t.get("nrf"):
                    add(t["nrf"])
                    # default trait methods resolve to the trait's own body: fine
                elif t.get("nf"):
                    add(t["nf"])  # provided method body of the trait itself, if any
                    tr = norm_path(t.get("tr"))
                    if tr:
                        name = t["nf"].rsplit("::", 1)[-1]
                        impls = self._impls_of(tr, name)
                        if not impls:
                            self.external_traits.add(tr)
                        else:
                            self._unres.setdefault(fid, set()).add((tr, name))
                for a in t["args"]:
                    c = a.get("c")
                    if c and "fn" in c:
                        add(norm_path(c["fn"]), False)
        self._out[fid] = out
        return out

    def _fn_consts(self, r, add):
        for key in ("o", "a", "b"):
            o = r.get(key)
            if isinstance(o, dict) and "c" in o and "fn" in o["c"]:
                add(norm_path(o["c"]["fn"]))
        for o in r.get("ops", []) or []:
            if "c" in o and "fn" in o["c"]:
                add(norm_path(o["c"]["fn"]))

    def types_of(self, fid):
        """ADT paths mentioned in the types of the locals of a body"""
        r = self._types.get(fid)
        if r is None:
            r = set()
            body = self.prog.bodies.get(fid)
            if body is not None:
                for l in body.locals:
                    for m in _PATH_RE.findall(norm_path(l["ty"])):
                        r.add(m)
            self._types[fid] = r
        return r

    def reachable(self, entries):
        """rapid type analysis: an unresolved trait-method call is linked to the workspace impls
        whose Self type is mentioned by some reachable body (non-ADT Self types always)"""
        seen = set()
        st = list(entries)
        types = set()
        pending = set()   # (trait, method) pairs called unresolved so far
        while True:
            while st:
                f = st.pop()
                if f in seen:
                    continue
                seen.add(f)
                for g in self.callees(f):
                    if g not in seen:
                        st.append(g)
                self.indirect_targets |= self._indirect.get(f, set())
                types |= self.types_of(f)
                pending |= self._unres.get(f, set())
            added = False
            for (tr, name) in pending:
                for adt, m in self._impls_of(tr, name):
                    if m in seen or m not in self.prog.bodies:
                        continue
                    if adt is None or adt in types:
                        st.append(m)
                        self.indirect_targets.add(m)
                        added = True
            if not added:
                break
        return seen

    def callers(self, fid):
        if self._in is None:
            self._in = {}
            for f in self.prog.bodies:
                for g in self.callees(f):
                    self._in.setdefault(g, []).append(f)
        return self._in.get(fid, [])
