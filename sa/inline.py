"""Inlining of *new* helper functions into their callers, on the raw MIR facts, before any rule looks at them.

Why: every rule instance was confirmed on the reviewed tree, function by function.  The commonest behaviour-preserving
refactoring -- extracting a few statements of an anchored function into a fresh private helper -- moves the very
comparison / store / call a rule looks for into a body the rule has never heard of.  A function that did not exist on
the reviewed tree (it is not in sa/rules/tables/known_fns.py) has, by construction, no rule instance of its own; it is
therefore treated as part of each of its callers: its MIR is spliced into the call site (arguments become single
assignments, `return` becomes an assignment to the destination plus a jump to the continuation).  A fault hidden in
such a helper is then seen exactly as if it had been written in the caller.

On the reviewed tree the set of new functions is empty and this pass does nothing.
"""
import copy

MAX_BLOCKS = 4000
ROUNDS = 3


def _place(p, off):
    p["l"] += off
    for e in p.get("pr", ()):
        if isinstance(e, dict) and "ix" in e:
            e["ix"] += off


def _operand(o, off):
    if not isinstance(o, dict):
        return
    if "cp" in o:
        _place(o["cp"], off)
    elif "mv" in o:
        _place(o["mv"], off)


def _rvalue(r, off):
    for key in ("o", "a", "b"):
        if key in r:
            _operand(r[key], off)
    if "p" in r and isinstance(r["p"], dict):
        _place(r["p"], off)
    for o in r.get("ops", ()):
        _operand(o, off)


def _stmt(st, off):
    k = st["k"]
    if k == "assign":
        _place(st["p"], off)
        _rvalue(st["r"], off)
    elif k == "setdiscr":
        _place(st["p"], off)
    elif k in ("dead", "live"):
        if "l" in st:
            st["l"] += off


def _term(t, off, boff):
    k = t["k"]
    if k == "goto":
        t["t"] += boff
    elif k == "switch":
        _operand(t["o"], off)
        t["targets"] = [[v, b + boff] for v, b in t["targets"]]
        t["otherwise"] += boff
    elif k == "drop":
        _place(t["p"], off)
    elif k == "call":
        for a in t["args"]:
            _operand(a, off)
        if "fop" in t:
            _operand(t["fop"], off)
        if t.get("dest") is not None:
            _place(t["dest"], off)
    elif k == "assert":
        _operand(t["cond"], off)
        for o in t.get("ops", ()):
            _operand(o, off)
    if k in ("drop", "call", "assert"):
        if t.get("t") is not None:
            t["t"] += boff
        if t.get("uw") is not None:
            t["uw"] += boff


def _inline_at(f, bi, g):
    """splice a renumbered copy of g's blocks into f at the call terminating block bi"""
    call = f["blocks"][bi]["term"]
    off = len(f["locals"])
    boff = len(f["blocks"])
    ln = call.get("ln")
    f["locals"].extend(copy.deepcopy(g["locals"]))
    gb = copy.deepcopy(g["blocks"])
    cont, uw, dest = call.get("t"), call.get("uw"), call.get("dest")
    for blk in gb:
        for st in blk["st"]:
            _stmt(st, off)
        t = blk["term"]
        _term(t, off, boff)
        if t["k"] == "return":
            if cont is None:
                blk["term"] = {"k": "unreachable", "ln": t.get("ln")}
            else:
                if dest is not None:
                    blk["st"].append({"k": "assign", "p": copy.deepcopy(dest), "r": {"k": "use", "o": {"mv": {"l": off}}}, "ln": ln, "inl": True})
                blk["term"] = {"k": "goto", "t": cont, "ln": ln}
        elif t["k"] == "resume" and uw is not None:
            blk["term"] = {"k": "goto", "t": uw, "ln": ln}
    f["blocks"].extend(gb)
    if cont is not None and dest is not None and not dest.get("pr"):
        try:
            _thread_returns(f, boff, len(gb), off, dest["l"], cont, ln, bi)
        except (KeyError, IndexError, TypeError):
            pass        # threading is an optimisation of precision only
    # the call block: bind the arguments, jump to the callee's entry
    head = f["blocks"][bi]
    for i, a in enumerate(call["args"]):
        head["st"].append({"k": "assign", "p": {"l": off + 1 + i}, "r": {"k": "use", "o": a}, "ln": ln, "inl": True})
    head["term"] = {"k": "goto", "t": boff, "ln": ln, "inlined": g["id"]}


def _map_place(p, m):
    if p["l"] in m:
        p["l"] = m[p["l"]]
    for e in p.get("pr", ()):
        if isinstance(e, dict) and e.get("ix") in m:
            e["ix"] = m[e["ix"]]


def _map_operand(o, m):
    if isinstance(o, dict):
        if "cp" in o:
            _map_place(o["cp"], m)
        elif "mv" in o:
            _map_place(o["mv"], m)


def _map_block(blk, m):
    for st in blk["st"]:
        if st["k"] == "assign":
            _map_place(st["p"], m)
            r = st["r"]
            for key in ("o", "a", "b"):
                if key in r:
                    _map_operand(r[key], m)
            if "p" in r and isinstance(r["p"], dict):
                _map_place(r["p"], m)
            for o in r.get("ops", ()):
                _map_operand(o, m)
        elif st["k"] == "setdiscr":
            _map_place(st["p"], m)
        elif st["k"] in ("dead", "live") and st.get("l") in m:
            st["l"] = m[st["l"]]
    t = blk["term"]
    if t["k"] == "switch":
        _map_operand(t["o"], m)
    elif t["k"] == "call":
        for a in t["args"]:
            _map_operand(a, m)
        if t.get("dest") is not None:
            _map_place(t["dest"], m)
    elif t["k"] == "drop":
        _map_place(t["p"], m)
    elif t["k"] == "assert":
        _map_operand(t["cond"], m)


def _uses_local(blk, l):
    hit = [False]

    def pl(p):
        if p["l"] == l:
            hit[0] = True
    def op(o):
        if isinstance(o, dict):
            if "cp" in o:
                pl(o["cp"])
            elif "mv" in o:
                pl(o["mv"])
    for st in blk["st"]:
        if st["k"] == "assign":
            pl(st["p"])
            r = st["r"]
            for key in ("o", "a", "b"):
                if key in r:
                    op(r[key])
            if "p" in r and isinstance(r["p"], dict):
                pl(r["p"])
            for o in r.get("ops", ()):
                op(o)
        elif st["k"] == "setdiscr":
            pl(st["p"])
    t = blk["term"]
    if t["k"] == "switch":
        op(t["o"])
    elif t["k"] == "call":
        for a in t["args"]:
            op(a)
        if t.get("dest") is not None:
            pl(t["dest"])
    elif t["k"] == "drop":
        pl(t["p"])
    elif t["k"] == "assert":
        op(t["cond"])
    return hit[0]


def _thread_returns(f, boff, ng, off, dest_l, cont, ln, call_bb=-1):
    """Path sensitivity across the seam.  The callee's result reaches the caller's continuation through one join (the callee's
    return block); the caller then usually branches on it at once (`if helper(..)`, `match helper(..)`, `helper(..)?`).  Each
    predecessor of the return block that stores the result gets its own copy of the continuation block, with the result in
    fresh single-assignment locals, so that the caller's branch is seen to test exactly what that path computed.  For `?`
    (Try::branch) a path that stores a known variant jumps straight to the matching arm."""
    blocks = f["blocks"]
    cb = blocks[cont]
    ret_blocks = [i for i in range(boff, boff + ng) if blocks[i]["term"].get("k") == "goto" and blocks[i]["term"].get("t") == cont
                  and blocks[i]["st"] and blocks[i]["st"][-1].get("inl")]
    if len(ret_blocks) != 1:
        return
    rb = ret_blocks[0]
    # predecessors inside the inlined copy, following trivial goto chains
    preds = {}
    for i in range(boff, boff + ng):
        t = blocks[i]["term"]
        if t["k"] == "goto" and t["t"] == rb and i != rb:
            preds[i] = True
    if len(preds) < 2:
        return
    # the stores of the result on those paths
    stores = {}
    for i in preds:
        for st in reversed(blocks[i]["st"]):
            if st["k"] == "assign" and st["p"]["l"] == off and not st["p"].get("pr"):
                stores[i] = st
                break
    if len(stores) != len(preds):
        return
    # other statements of the return block (storage markers) are harmless to skip
    if any(st["k"] == "assign" and not st.get("inl") for st in blocks[rb]["st"]):
        return
    # `dest` must be consumed by the continuation block alone
    for j, blk in enumerate(blocks):
        if j != cont and j != call_bb and not (boff <= j < boff + ng) and _uses_local(blk, dest_l):
            return
    ct = cb["term"]
    if ct["k"] == "switch":
        assigned = [st["p"]["l"] for st in cb["st"] if st["k"] == "assign" and not st["p"].get("pr")]
        for i, st in stores.items():
            r_i = len(f["locals"])
            f["locals"].append(copy.deepcopy(f["locals"][off]))
            d_i = len(f["locals"])
            f["locals"].append(copy.deepcopy(f["locals"][dest_l]))
            m = {dest_l: d_i}
            for a in assigned:
                m[a] = len(f["locals"])
                f["locals"].append(copy.deepcopy(f["locals"][a]))
            nb = copy.deepcopy(cb)
            _map_block(nb, m)
            st["p"]["l"] = r_i
            blocks[i]["st"].append({"k": "assign", "p": {"l": d_i}, "r": {"k": "use", "o": {"mv": {"l": r_i}}}, "ln": ln, "inl": True})
            blocks[i]["term"] = {"k": "goto", "t": len(blocks), "ln": ln}
            blocks.append(nb)
    elif ct["k"] == "call" and "branch" in (ct.get("f") or "") and ct.get("t") is not None:
        sw = blocks[ct["t"]]["term"]
        if sw["k"] != "switch":
            return
        arms = {v: tb for v, tb in sw["targets"]}
        for i, st in stores.items():
            r = st["r"]
            if r["k"] != "agg" or r.get("variant") not in ("Ok", "Some", "Err", "None"):
                continue
            tgt = arms.get(0 if r["variant"] in ("Ok", "Some") else 1)
            if tgt is None:
                continue
            blocks[i]["st"].append({"k": "assign", "p": {"l": dest_l}, "r": {"k": "use", "o": {"mv": {"l": off}}}, "ln": ln, "inl": True})
            # keep the call to branch on this path (its result feeds the arm), in a private copy of the continuation
            nb = copy.deepcopy(cb)
            nb["term"]["t"] = len(blocks) + 1
            blocks[i]["term"] = {"k": "goto", "t": len(blocks), "ln": ln}
            blocks.append(nb)
            blocks.append({"cleanup": False, "st": copy.deepcopy(blocks[ct["t"]]["st"]), "term": {"k": "goto", "t": tgt, "ln": ln}})


def _callee(t, H):
    for hk, nk in (("rfh", "rf"), ("fh", "f")):
        h = t.get(hk)
        if h and h in H:
            return H[h]
    return None


def inline_new_helpers(raws, known, norm_path, core_prefixes=None):
    """raws: {norm id: raw body}; known: set of function ids of the reviewed tree.  Returns {caller id: [helper ids]}."""
    new = {}
    for nid, b in raws.items():
        if b.get("kind") not in ("Fn", "AssocFn"):
            continue
        if nid in known or b.get("from_exp"):
            continue
        if core_prefixes and not any(nid.startswith(p) or nid.startswith("<" + p) for p in core_prefixes):
            continue
        new[nid] = b
    done = {}
    if not new:
        return done
    for _ in range(ROUNDS):
        changed = False
        for fid, f in raws.items():
            bi = 0
            while bi < len(f["blocks"]):
                t = f["blocks"][bi]["term"]
                if t["k"] == "call" and t.get("rk", "item") in ("item", None):
                    gid = norm_path(t.get("rf") or t.get("f") or "")
                    g = new.get(gid)
                    if g is not None and g is not f and len(f["blocks"]) + len(g["blocks"]) <= MAX_BLOCKS \
                            and len(t["args"]) == g.get("argc", -1):
                        _inline_at(f, bi, g)
                        done.setdefault(fid, []).append(gid)
                        changed = True
                bi += 1
        if not changed:
            break
    return done
