"""Inlining of *new* helper functions into their callers, on the raw MIR facts, before any rule looks at them.

Why: every rule instance was confirmed on the reviewed tree, function by function.  The commonest behaviour-preserving
refactoring -- extracting a few statements of an anchored function into a fresh private helper -- moves the very
comparison / store / call a rule looks for into a body the rule has never heard of.  A function that did not exist on
the reviewed tree (it is not in sa/rules/tables/known_fns.py) has, by construction, no rule instance of its own; it is
therefore treated as part of each of its callers: its MIR is spliced into the call site (arguments become single
assignments, `return` becomes an assignment to the destination plus a jump to the continuation).  A fault hidden in
such a helper is then seen exactly as if it had been written in the caller.

On the reviewed tree the set of new functions is empty and this pass does nothing.
"""
import copy

MAX_BLOCKS = 4000
ROUNDS = 3


def _place(p, off):
    p["l"] += off
    for e in p.get("pr", ()):
        if isinstance(e, dict) and "ix" in e:
            e["ix"] += off


def _operand(o, off):
    if not isinstance(o, dict):
        return
    if "cp" in o:
        _place(o["cp"], off)
    elif "mv" in o:
        _place(o["mv"], off)


def _rvalue(r, off):
    for key in ("o", "a", "b"):
        if key in r:
            _operand(r[key], off)
    if "p" in r and isinstance(r["p"], dict):
        _place(r["p"], off)
    for o in r.get("ops", ()):
        _operand(o, off)


def _stmt(st, off):
    k = st["k"]
    if k == "assign":
        _place(st["p"], off)
        _rvalue(st["r"], off)
    elif k == "setdiscr":
        _place(st["p"], off)
    elif k in ("dead", "live"):
        if "l" in st:
            st["l"] += off


def _term(t, off, boff):
    k = t["k"]
    if k == "goto":
        t["t"] += boff
    elif k == "switch":
        _operand(t["o"], off)
        t["targets"] = [[v, b + boff] for v, b in t["targets"]]
        t["otherwise"] += boff
    elif k == "drop":
        _place(t["p"], off)
    elif k == "call":
        for a in t["args"]:
            _operand(a, off)
        if "fop" in t:
            _operand(t["fop"], off)
        if t.get("dest") is not None:
            _place(t["dest"], off)
    elif k == "assert":
        _operand(t["cond"], off)
        for o in t.get("ops", ()):
            _operand(o, off)
    if k in ("drop", "call", "assert"):
        if t.get("t") is not None:
            t["t"] += boff
        if t.get("uw") is not None:
            t["uw"] += boff


def _inline_at(f, bi, g):
    """splice a renumbered copy of g's blocks into f at the call terminating block bi"""
    call = f["blocks"][bi]["term"]
    off = len(f["locals"])
    boff = len(f["blocks"])
    ln = call.get("ln")
    f["locals"].extend(copy.deepcopy(g["locals"]))
    gb = copy.deepcopy(g["blocks"])
    cont, uw, dest = call.get("t"), call.get("uw"), call.get("dest")
    for blk in gb:
        for st in blk["st"]:
            _stmt(st, off)
        t = blk["term"]
        _term(t, off, boff)
        if t["k"] == "return":
            if cont is None:
                blk["term"] = {"k": "unreachable", "ln": t.get("ln")}
            else:
                if dest is not None:
                    blk["st"].append({"k": "assign", "p": copy.deepcopy(dest), "r": {"k": "use", "o": {"mv": {"l": off}}}, "ln": ln, "inl": True})
                blk["term"] = {"k": "goto", "t": cont, "ln": ln}
        elif t["k"] == "resume" and uw is not None:
            blk["term"] = {"k": "goto", "t": uw, "ln": ln}
    f["blocks"].extend(gb)
    # the call block: bind the arguments, jump to the callee's entry
    head = f["blocks"][bi]
    for i, a in enumerate(call["args"]):
        head["st"].append({"k": "assign", "p": {"l": off + 1 + i}, "r": {"k": "use", "o": a}, "ln": ln, "inl": True})
    head["term"] = {"k": "goto", "t": boff, "ln": ln, "inlined": g["id"]}


def _callee(t, H):
    for hk, nk in (("rfh", "rf"), ("fh", "f")):
        h = t.get(hk)
        if h and h in H:
            return H[h]
    return None


def inline_new_helpers(raws, known, norm_path, core_prefixes=None):
    """raws: {norm id: raw body}; known: set of function ids of the reviewed tree.  Returns {caller id: [helper ids]}."""
    new = {}
    for nid, b in raws.items():
        if b.get("kind") not in ("Fn", "AssocFn"):
            continue
        if nid in known or b.get("from_exp"):
            continue
        if core_prefixes and not any(nid.startswith(p) or nid.startswith("<" + p) for p in core_prefixes):
            continue
        new[nid] = b
    done = {}
    if not new:
        return done
    for _ in range(ROUNDS):
        changed = False
        for fid, f in raws.items():
            bi = 0
            while bi < len(f["blocks"]):
                t = f["blocks"][bi]["term"]
                if t["k"] == "call" and t.get("rk", "item") in ("item", None):
                    gid = norm_path(t.get("rf") or t.get("f") or "")
                    g = new.get(gid)
                    if g is not None and g is not f and len(f["blocks"]) + len(g["blocks"]) <= MAX_BLOCKS \
                            and len(t["args"]) == g.get("argc", -1):
                        _inline_at(f, bi, g)
                        done.setdefault(fid, []).append(gid)
                        changed = True
                bi += 1
        if not changed:
            break
    return done
