"""A3: panic-site inventory, discharged through the A4 reasoner, with interprocedural
preconditions (a site whose safety condition is expressible over the parameters of its function
is exported to the callers and discharged -- or re-exported -- there)."""
import re

from .facts import path_matches, norm_path
from .guards import Reasoner, Lin, int_range, _cast_kind, cast_target, _strip_reborrow, _strip_ref, _is_index
from .ir import IR, show, walk, simplify

MAX_EXPORT_DEPTH = 5

# diverging callees that are the panic machinery itself
PANIC_FNS = (
    "std::panicking::panic", "std::panicking::panic_fmt", "std::panicking::panic_display",
    "std::panicking::panic_explicit", "std::panicking::unreachable_display", "std::panicking::assert_failed",
    "std::panicking::panic_nounwind", "std::panicking::panic_str_2015", "std::panicking::begin_panic",
    "std::rt::panic_fmt", "std::rt::begin_panic", "std::rt::panic_display", "std::option::expect_failed",
    "std::option::unwrap_failed", "std::result::unwrap_failed", "std::panicking::panic_const",
    "std::panicking::panic_bounds_check",
)

# std/arrayvec APIs that panic without a precondition we can state arithmetically: they are
# always reported unless a table line reviews the call site.
OPAQUE_PANICKING = (
    "std::vec::Vec::remove", "std::vec::Vec::insert", "std::vec::Vec::swap_remove",
    "std::vec::Vec::drain", "std::vec::Vec::split_off", "std::collections::VecDeque::drain",
    "std::collections::vec_deque::VecDeque::drain",
    "std::collections::VecDeque::swap",
    "std::slice::swap", "std::slice::chunks", "std::slice::chunks_exact", "std::slice::windows",
    "std::iter::Iterator::step_by", "std::cell::RefCell::borrow_mut", "std::cell::RefCell::borrow",
    "arrayvec::ArrayVec::push", "arrayvec::ArrayVec::insert", "arrayvec::ArrayVec::remove",
    "arrayvec::ArrayVec::swap_remove", "arrayvec::ArrayVec::drain",
    "arrayvec::ArrayString::push", "arrayvec::ArrayString::push_str",
    "arrayvec::array_string::ArrayString::push", "arrayvec::array_string::ArrayString::push_str",
    "std::slice::rotate_left", "std::slice::rotate_right", "std::slice::fill_with",
    "std::string::String::remove", "std::string::String::insert", "std::string::String::truncate",
    "std::string::String::drain", "std::str::split_at",
    "std::time::Instant::duration_since", "std::num::pow", "std::num::abs", "std::num::div_euclid",
    "std::num::rem_euclid", "std::char::from_digit",
    "vec_map::VecMap::index", "std::slice::sort_by_key",
)
OPAQUE_INDEX_TRAITS = (
    " as std::ops::Index>::index", " as std::ops::IndexMut>::index_mut",
    " as std::ops::Add>::add", " as std::ops::Sub>::sub", " as std::ops::AddAssign>::add_assign",
    " as std::ops::SubAssign>::sub_assign", " as std::ops::Mul>::mul", " as std::ops::Div>::div",
    " as std::ops::Rem>::rem",
)


# workspace functions that call their closure argument exactly once, unconditionally
CALLS_CLOSURE_ONCE = ("libtw2_buffer::with_buffer", "libtw2_packer::with_packer")


class Site:
    __slots__ = ("fn", "bb", "ln", "kind", "desc", "status", "why", "callee", "goals", "badset", "ord", "exp", "detail")

    def __init__(self, fn, bb, ln, kind, desc, exp="", detail=""):
        self.detail = detail
        self.fn = fn
        self.bb = bb
        self.ln = ln
        self.kind = kind
        self.desc = desc
        self.status = "open"
        self.why = ""
        self.callee = None
        self.goals = None
        self.badset = None
        self.ord = 0
        self.exp = exp

    def key(self):
        """stable under renaming of locals and reformatting: function, kind of site, operator or
        callee, ordinal among equal descriptors in CFG order"""
        return "%s | %s | %s | %d" % (self.fn, self.kind, self.detail, self.ord)

    def to_json(self, body=None):
        d = {"key": self.key(), "fn": self.fn, "kind": self.kind, "desc": self.desc, "ord": self.ord, "status": self.status,
             "line": self.ln, "why": self.why}
        if body is not None:
            d["at"] = body.loc(self.ln)
        return d


def stable(e):
    """rendering of an expression without local numbers / call-site identities (for keys)"""
    s = show(e)
    s = re.sub(r"_\d+\b", "_", s)
    return s


class FnSummary:
    def __init__(self):
        self.sites = []          # all panic sites of the body
        self.residual = []       # sites neither discharged nor exportable
        self.exports = []        # (site, [badsets]) expressible over the parameters
        self.calls_unresolved = 0
        self.depth = 0


class PanicAnalysis:
    def __init__(self, prog, exempt_fns=(), trusted_fns=(), extra_success=None):
        self.prog = prog
        self.summ = {}
        self._active = set()
        self.irs = {}
        self.exempt_fns = tuple(exempt_fns)      # callee paths whose panics are by contract
        self.trusted_fns = tuple(trusted_fns)    # callee paths assumed not to panic (reviewed)
        self.stats = {"sites": 0, "discharged": 0, "exported": 0, "residual": 0, "bodies": 0}
        self.closure_instantiated = set()

    def ir(self, body):
        r = self.irs.get(body.id)
        if r is None:
            r = IR(body)
            self.irs[body.id] = r
        return r

    # ------------------------------------------------------------------ per function
    def summary(self, fid):
        if fid in self.summ:
            return self.summ[fid]
        body = self.prog.bodies.get(fid)
        if body is None:
            return None
        if fid in self._active:
            return None  # recursion: treated as opaque (no exported preconditions)
        self._active.add(fid)
        try:
            s = self._analyse(body)
        finally:
            self._active.discard(fid)
        self.summ[fid] = s
        return s

    def _analyse(self, body):
        ir = self.ir(body)
        rs = Reasoner(ir, self.prog)
        fs = FnSummary()
        self.stats["bodies"] += 1
        counts = {}
        for bi in sorted(body.live):
            blk = body.blocks[bi]
            t = blk["term"]
            site = None
            badsets = None       # list of lists of Lin: each list is a failing condition to refute
            nes = []
            if t["k"] == "assert":
                site, badsets = self._assert_site(body, ir, rs, bi, t)
            elif t["k"] == "call":
                site, badsets, nes = self._call_site(body, ir, rs, bi, t)
            if site is None:
                continue
            kk = (site.kind, site.detail)
            site.ord = counts.get(kk, 0)
            counts[kk] = site.ord + 1
            fs.sites.append(site)
            self.stats["sites"] += 1
            if site.status in ("discharged", "residual"):
                if site.status == "discharged":
                    self.stats["discharged"] += 1
                else:
                    fs.residual.append(site)
                    self.stats["residual"] += 1
                continue
            facts, fnes = rs.facts_at(bi)
            ok = True
            failing = []
            for bad in badsets:
                blin = [x for x in bad if isinstance(x, Lin)]
                bne = [x[1] for x in bad if not isinstance(x, Lin)]
                if rs.contradiction(facts + blin, list(fnes) + list(nes) + bne):
                    continue
                if self._phi_split(ir, rs, bi, facts + blin, list(fnes) + list(nes) + bne, 0):
                    site.why = "dominating guards, split over the definitions merging at a join"
                    continue
                ok = False
                failing.append(bad)
            if ok:
                site.status = "discharged"
                site.why = site.why or "dominating guards"
                self.stats["discharged"] += 1
                continue
            # exportable? keep only the parameter-expressible part of each failing condition
            exp = []
            exportable = True
            isc = body.kind == "Closure"
            for bad in failing:
                eb = [l for l in bad if _arg_only(l, isc)]
                if site.kind == "panic-call":
                    # path condition of the panic block: drop what is not expressible (stronger
                    # requirement), but something must remain
                    ef = [l for l in facts if _arg_only(l, isc) and l.co]
                    ef += [("ne", d) for d in fnes if _arg_only(d, isc)]
                    eb = ef + eb
                    if not eb:
                        exportable = False
                elif len(eb) != len(bad):
                    exportable = False
                else:
                    # facts over the parameters only strengthen the failing condition
                    eb = eb + [l for l in facts if _arg_only(l, isc) and l.co]
                exp.append(eb)
            if exportable and body.kind in ("Fn", "AssocFn", "Closure") and body.argc > 0:
                site.status = "exported"
                fs.exports.append((site, exp))
                self.stats["exported"] += 1
            else:
                site.status = "residual"
                fs.residual.append(site)
                self.stats["residual"] += 1
        return fs

    # ------------------------------------------------------------------ joins
    def _phi_split(self, ir, rs, bi, lins, nes, depth):
        """The failing condition mentions a variable whose value at the site is a join of several
        definitions.  Refute it separately for every predecessor of the join block, where the
        variable has one definite version and that path's own guards hold."""
        if depth > 2:
            return False
        body = ir.b
        target = None
        for l in lins + list(nes):
            for a in l.co:
                for x in walk(a):
                    if isinstance(x, tuple) and x and x[0] == "var" and len(x) > 3 and isinstance(x[3], tuple) \
                            and x[3] and x[3][0] == "phi":
                        M = x[3][1]
                        if body.dominates(M, bi):
                            if target is None or body.dominates(target[3][1], M):
                                target = x
        if target is None:
            return False
        M = target[3][1]
        preds = [p for p in body.pred[M] if p in body.live]
        if not preds or len(preds) > 6:
            return False
        for p in preds:
            n = len(body.blocks[p]["st"])
            ep = ir.epoch((("v", target[1]), ()), (p, n + 1))
            new = ("var", target[1], target[2], ep)
            ir.ety.setdefault(new, ir.ltystr(target[1]))

            def ren(l):
                co = {}
                for a, c in l.co.items():
                    a2 = _replace(a, target, new)
                    co[a2] = co.get(a2, 0) + c
                return Lin({a: c for a, c in co.items() if c}, l.k)

            rl = [ren(l) for l in lins]
            rn = [ren(l) for l in nes]
            pf, pn = rs.facts_at(p)
            ef, en = self._edge_facts(ir, rs, p, M)
            extra = []
            # the value assigned at the version's definition point
            if isinstance(ep, tuple) and len(ep) == 2 and isinstance(ep[0], int):
                blk = body.blocks[ep[0]]
                val = None
                if ep[1] < len(blk["st"]):
                    st = blk["st"][ep[1]]
                    if st["k"] == "assign" and not st["p"].get("pr") and st["p"]["l"] == target[1]:
                        val = ir.stamp(simplify(ir.rvalue(st["r"], (ep[0], ep[1]))), (ep[0], ep[1]))
                else:
                    t = blk["term"]
                    if t["k"] == "call" and not t["dest"].get("pr") and t["dest"]["l"] == target[1]:
                        val = ir.call_expr(ep[0], t)
                if val is not None and int_range(ir.ltystr(target[1])):
                    lv = rs.lin(val)
                    if lv is not None:
                        d = Lin.atom(new).sub(lv)
                        extra = [d, d.scale(-1)]
            allf = rl + pf + ef + extra
            alln = rn + pn + en
            if rs.contradiction(allf, alln):
                continue
            if self._phi_split(ir, rs, p, allf, alln, depth + 1):
                continue
            return False
        return True

    def _edge_facts(self, ir, rs, p, m):
        """constraints implied by taking the CFG edge p -> m"""
        t = ir.b.blocks[p]["term"]
        facts, nes = [], []
        cs = []
        if t["k"] == "switch":
            vals = [v for v, tb in t["targets"] if tb == m]
            e = ir.term_operand(p, t["o"])
            if t["otherwise"] == m and not vals:
                cs = [(e, "notin", tuple(v for v, _ in t["targets"]), t.get("dty"))]
            elif len(vals) == 1 and t["otherwise"] != m:
                cs = [(e, "==", vals[0], t.get("dty"))]
        elif t["k"] == "assert" and t.get("t") == m:
            cs = [(ir.term_operand(p, t["cond"]), "==", 1 if t["expected"] else 0, "bool")]
        for e, rel, v, dty in cs:
            if e[0] == "discr":
                var = rs.variant_of_discr(e[1], rel, v)
                if var is not None:
                    facts.extend(rs.variant_constraints(e[1], var))
                facts.extend(rs.ordering_constraints(e[1], rel, v))
                continue
            for c in rs.constraints_of(e, rel, v, dty):
                if isinstance(c, tuple):
                    nes.append(c[1])
                else:
                    facts.append(c)
        return facts, nes

    # ------------------------------------------------------------------ assert terminators
    def _assert_site(self, body, ir, rs, bi, t):
        msg = t["msg"]
        ops = [ir.term_operand(bi, o) for o in t["ops"]]
        ln = t.get("ln", 0)
        if msg == "BoundsCheck":
            ln_, ix = ops
            # `len` operand of a bounds check on a slice is PtrMetadata of the indexed place
            l_len = rs.lin(ln_)
            l_ix = rs.lin(ix)
            s = Site(body.id, bi, ln, "bounds", "%s < %s" % (stable(ix), stable(ln_)), detail="index")
            if l_len is None or l_ix is None:
                s.status = "residual"
                return s, None
            # bad: ix >= len  <=> len - ix <= 0
            return s, [[l_len.sub(l_ix)]]
        if msg.startswith("Overflow:") and msg.split(":")[1] not in ("Div", "Rem"):
            op = msg.split(":")[1]
            a, b = ops
            ty = ir.type_of(a) or ir.type_of(b)
            r = int_range(ty)
            s = Site(body.id, bi, ln, "overflow", "%s(%s, %s)" % (op, stable(a), stable(b)), detail=op)
            la, lb = rs.lin(a), rs.lin(b)
            if op in ("Shl", "Shr"):
                bits = {"u8": 8, "i8": 8, "u16": 16, "i16": 16, "u32": 32, "i32": 32, "u64": 64, "i64": 64,
                        "usize": 64, "isize": 64, "u128": 128, "i128": 128}.get(ty)
                if bits is None or lb is None:
                    s.status = "residual"
                    return s, None
                # bad: b >= bits  or b < 0
                bad = [[Lin.const(bits).sub(lb)]]
                rb = rs.lin_interval(lb)
                if rb[0] < 0:
                    bad.append([lb.add(Lin.const(1))])
                return s, bad
            if r is None or la is None or lb is None:
                s.status = "residual"
                return s, None
            if op == "Add":
                res = la.add(lb)
            elif op == "Sub":
                res = la.sub(lb)
            elif op == "Mul":
                if la.is_const():
                    res = lb.scale(la.k)
                elif lb.is_const():
                    res = la.scale(lb.k)
                else:
                    ia, ib = rs.lin_interval(la), rs.lin_interval(lb)
                    if ia[0] >= 0 and ib[0] >= 0 and ia[1] * ib[1] <= r[1]:
                        s.status = "discharged"
                        s.why = "operand ranges"
                        return s, None
                    s.status = "residual"
                    return s, None
            else:
                s.status = "residual"
                return s, None
            bad = []
            lo, hi = rs.lin_interval(res)
            # bad1: res > max ; bad2: res < min
            bad.append([Lin.const(r[1] + 1).sub(res)])
            bad.append([res.sub(Lin.const(r[0] - 1))])
            return s, bad
        if msg == "OverflowNeg":
            a = ops[0]
            r = int_range(ir.type_of(a))
            la = rs.lin(a)
            s = Site(body.id, bi, ln, "overflow", "Neg(%s)" % stable(a), detail="Neg")
            if r is None or la is None:
                s.status = "residual"
                return s, None
            return s, [[la.sub(Lin.const(r[0])), Lin.const(r[0]).sub(la)]]
        if msg in ("MisalignedPointer", "NullPointer"):
            return None, None
        # everything else (division by zero, signed division overflow, ...): the assert's own
        # condition, negated, is the failing condition
        cond = ir.term_operand(bi, t["cond"])
        detail = {"DivisionByZero": "div", "RemainderByZero": "rem", "Overflow:Div": "Div", "Overflow:Rem": "Rem"}.get(msg, msg.split(":")[0])
        s = Site(body.id, bi, ln, "divzero" if msg in ("DivisionByZero", "RemainderByZero") else
                 ("overflow" if msg.startswith("Overflow:") else "assert"),
                 "%s: %s" % (msg, stable(cond)), detail=detail)
        bad = rs.bool_constraints(cond, not t["expected"])
        if not bad:
            lc = rs.cv(cond)
            if lc is not None and bool(lc) == bool(t["expected"]):
                s.status = "discharged"
                s.why = "constant condition"
                return s, None
            s.status = "residual"
            return s, None
        return s, [bad]

    # ------------------------------------------------------------------ calls
    def _call_site(self, body, ir, rs, bi, t):
        f = t.get("callee")
        ln = t.get("ln", 0)
        exp = t.get("exp", "")
        if f is None:
            return None, None, []
        args = [ir.term_operand(bi, a) for a in t["args"]]
        if t.get("t") is None:
            # diverging call
            if any(path_matches(f, x) for x in self.exempt_fns):
                return None, None, []
            mac = exp.split("<")[0] if exp else ""
            mac = mac.replace("$crate::", "").replace("panic::", "")
            nm = (mac + "!" if mac else f.split("::")[-1])
            s = Site(body.id, bi, ln, "panic-call", nm, exp, detail=nm)
            return s, [[]], []
        for x in self.trusted_fns:
            if path_matches(f, x):
                return None, None, []
        # unwrap family
        last = f.rsplit("::", 1)[-1]
        if last in ("unwrap", "expect", "unwrap_err", "expect_err", "unwrap_unchecked") and (
                "option::Option" in f or "result::Result" in f) and args:
            if last == "unwrap_unchecked":
                return None, None, []
            want_success = last in ("unwrap", "expect")
            x = _strip_reborrow(args[0])
            s = Site(body.id, bi, ln, "unwrap", "%s(%s)" % (last, stable(x)), exp, detail=last + "<-" + _producer(x))
            st = self._variant_status(ir, rs, bi, x, want_success)
            if st is True:
                s.status = "discharged"
                s.why = "dominating variant test / constructor"
                return s, None, []
            if isinstance(st, list):
                # each constraint c (<= 0) must hold: bad = not c
                return s, [[c.scale(-1).add(Lin.const(1))] for c in st], []
            s.status = "residual"
            return s, None, []
        ck = _cast_kind(f)
        if ck == "assert" and args:
            r = int_range(cast_target(f))
            l = rs.lin(args[0])
            s = Site(body.id, bi, ln, "assert-cast", "%s(%s)" % (last, stable(args[0])), exp, detail=last)
            if r is None or l is None:
                s.status = "residual"
                return s, None, []
            return s, [[Lin.const(r[1] + 1).sub(l)], [l.sub(Lin.const(r[0] - 1))]], []
        if ck is not None:
            return None, None, []
        if (path_matches(f, "std::slice::split_at") or path_matches(f, "std::slice::split_at_mut")) and len(args) == 2:
            ls, n = rs.len_lin(args[0]), rs.lin(args[1])
            s = Site(body.id, bi, ln, "split_at", "%s <= len(%s)" % (stable(args[1]), stable(_strip_reborrow(args[0]))), exp, detail="split_at")
            if ls is None or n is None:
                s.status = "residual"
                return s, None, []
            return s, [[ls.sub(n).add(Lin.const(1))]], []
        if _is_index(f) and len(args) == 2:
            a1 = _strip_reborrow(args[1])
            s = Site(body.id, bi, ln, "slice-index", "%s[%s]" % (stable(_strip_reborrow(args[0])), stable(a1)), exp,
                     detail=(a1[2].rsplit("::", 1)[-1] if a1[0] == "agg" and a1[2] else "idx"))
            if int_range(ir.type_of(a1)):
                ls, li = rs.len_lin(args[0]), rs.lin(a1)
                if ls is None or li is None:
                    s.status = "residual"
                    return s, None, []
                return s, [[ls.sub(li)]], []
            goals = rs.range_goals(args[0], a1)
            if goals is None:
                s.status = "residual"
                return s, None, []
            if not goals:
                s.status = "discharged"
                s.why = "full range"
                return s, None, []
            return s, [[g.scale(-1).add(Lin.const(1))] for g in goals], []
        if (path_matches(f, "std::slice::copy_from_slice") or path_matches(f, "std::slice::clone_from_slice")) and len(args) == 2:
            ld, ls_ = rs.len_lin(args[0]), rs.len_lin(args[1])
            s = Site(body.id, bi, ln, "copy_from_slice", "len(%s) == len(%s)" % (stable(_strip_reborrow(args[0])), stable(_strip_reborrow(args[1]))), exp, detail="copy_from_slice")
            if ld is None or ls_ is None:
                s.status = "residual"
                return s, None, []
            d = ld.sub(ls_)
            return s, [[d.add(Lin.const(1))], [d.scale(-1).add(Lin.const(1))]], []
        for x in OPAQUE_PANICKING:
            if path_matches(f, x):
                s = Site(body.id, bi, ln, "api", "%s(%s)" % (x.split("::", 1)[-1], ", ".join(stable(a) for a in args[:3])), exp, detail=x)
                s.status = "residual"
                return s, None, []
        for x in OPAQUE_INDEX_TRAITS:
            if f.endswith(x) and not _is_index(f):
                # operator traits on non-primitive types (Vec, VecDeque, maps, Duration, Timestamp...)
                if f.startswith("<libtw2_") or f.startswith("<&libtw2_"):
                    break  # workspace impl: analysed as an ordinary callee below
                s = Site(body.id, bi, ln, "api", "%s(%s)" % (f, ", ".join(stable(a) for a in args[:3])), exp, detail=f)
                s.status = "residual"
                return s, None, []
        # closures created here and handed straight to the callee (with_buffer(buf, |b| ...)): their
        # exported preconditions over captured variables are obligations of this body
        for a in (args if any(path_matches(f, w) for w in CALLS_CLOSURE_ONCE) else ()):
            x = _strip_reborrow(a)
            if x[0] == "ref":
                x = x[2]
            if x[0] == "agg" and x[1] == "closure" and x[2] in self.prog.bodies:
                cs = self.summary(x[2])
                if cs is None or not cs.exports:
                    continue
                self.closure_instantiated.add(x[2])
                cbody = self.prog.bodies[x[2]]
                env_ty = cbody.locals[1]["ty"] if len(cbody.locals) > 1 else ""
                env = ("ref", False, x) if env_ty.startswith("&") else x
                cargs = [env]
                bads = []
                descs = []
                ok = True
                for (csite, cexp) in cs.exports:
                    for bad in cexp:
                        nb = []
                        for l in bad:
                            sl = _subst_lin(l if isinstance(l, Lin) else l[1], cargs, rs)
                            if sl is None or any(_has_unbound(at) for at in sl.co):
                                ok = False
                                break
                            if not isinstance(l, Lin):
                                lo, hi = rs.lin_interval(sl)
                                sl = Lin.const(1).sub(sl) if lo >= 0 else (sl.add(Lin.const(1)) if hi <= 0 else ("ne", sl))
                            nb.append(sl)
                        if not ok:
                            break
                        bads.append(nb)
                    descs.append(csite.kind + ":" + csite.desc)
                    if not ok:
                        break
                s = Site(body.id, bi, ln, "precondition",
                         "%s requires [%s]" % (x[2], "; ".join(sorted(set(descs)))), exp, detail=x[2])
                s.callee = x[2]
                if not ok:
                    s.status = "residual"
                    return s, None, []
                return s, bads, []
        # workspace callee with exported preconditions
        callee = self.prog.bodies.get(f)
        if callee is not None and callee.id != body.id and callee.kind != "Closure":
            cs = self.summary(callee.id)
            if cs is not None and cs.exports:
                bads = []
                descs = []
                ok = True
                gen = callee.raw.get("generics") or []
                targs = t.get("targs") or []
                tmap = dict(zip(gen, targs)) if gen and len(gen) == len(targs) else None
                if tmap:
                    # only concrete types are worth substituting
                    tmap = {k_: v_ for k_, v_ in tmap.items() if rs.type_size(v_) is not None} or None
                for (csite, cexp) in cs.exports:
                    for bad in cexp:
                        nb = []
                        for l in bad:
                            if isinstance(l, Lin):
                                sl = _subst_lin(l, args, rs, tmap)
                            else:
                                sl = _subst_lin(l[1], args, rs, tmap)
                                if sl is not None:
                                    lo, hi = rs.lin_interval(sl)
                                    if lo >= 0:
                                        sl = Lin.const(1).sub(sl)
                                    elif hi <= 0:
                                        sl = sl.add(Lin.const(1))
                                    else:
                                        sl = ("ne", sl)
                            if sl is None:
                                ok = False
                                break
                            nb.append(sl)
                        if not ok:
                            break
                        bads.append(nb)
                    descs.append(csite.kind + ":" + csite.desc)
                    if not ok:
                        break
                s = Site(body.id, bi, ln, "precondition",
                         "%s requires [%s]" % (callee.id, "; ".join(sorted(set(descs)))), exp, detail=callee.id)
                s.callee = callee.id
                if not ok:
                    s.status = "residual"
                    return s, None, []
                return s, bads, []
        return None, None, []

    def _variant_status(self, ir, rs, bi, x, want_success, depth=0):
        """True: known to be the wanted variant.  list[Lin]: holds iff all constraints hold.
        None: unknown."""
        if depth > 6:
            return None
        x = _strip_reborrow(x)
        if x[0] == "agg" and x[1] == "adt":
            if x[3] in ("Some", "Ok"):
                return True if want_success else None
            if x[3] in ("None", "Err"):
                return None if want_success else True
        # dominating discriminant test on the same value
        for e, rel, v, edge in ir.variant_facts(bi):
            if _strip_reborrow(e) == x or _strip_ref(e) == x:
                var = rs.variant_of_discr(e, rel, v)
                if var is None:
                    var = rs.variant_of_discr(x, rel, v)
                if var is not None and var == want_success:
                    return True
        # dominating is_some()/is_ok() style tests are bool_constraints on calls -> handled via
        # success conditions only; check syntactic ones here
        for e, rel, v, edge, dty in ir.edge_conditions(bi):
            truth = None
            if rel == "==" and v in (0, 1):
                truth = bool(v)
            elif rel == "notin" and len(v) == 1 and v[0] in (0, 1):
                truth = not bool(v[0])
            if truth is None:
                continue
            r = _is_variant_test(e, x)
            if r is not None:
                if (r == truth) == want_success:
                    return True
        if x[0] == "call":
            f = x[1]
            last = f.rsplit("::", 1)[-1]
            a = x[2]
            if want_success:
                cond = rs.success_condition(x)
                if cond is not None:
                    return cond
            if last in ("ok", "as_ref", "as_mut", "cloned", "copied", "map", "as_deref", "take") and a and (
                    "option::Option" in f or "result::Result" in f):
                if last == "take":
                    return None
                return self._variant_status(ir, rs, bi, a[0], want_success, depth + 1)
            if last in ("try_into", "try_from") and a and want_success:
                # integer conversions: target type from the type of the call result
                t = ir.type_of(x) or ""
                m = re.search(r"Result<(\w+),", t)
                if m and int_range(m.group(1)) and int_range(ir.type_of(a[0])):
                    r = int_range(m.group(1))
                    l = rs.lin(a[0])
                    if l is not None:
                        return [Lin.const(r[0]).sub(l), l.sub(Lin.const(r[1]))]
        return None

    # ------------------------------------------------------------------ reachability
    def reachable(self, entries, graph):
        seen = set()
        st = [e for e in entries]
        while st:
            f = st.pop()
            if f in seen:
                continue
            seen.add(f)
            for g in graph.callees(f):
                if g not in seen:
                    st.append(g)
        return seen

    def collect(self, fids):
        """residual sites of the given bodies"""
        out = []
        for fid in sorted(fids):
            s = self.summary(fid)
            if s is None:
                continue
            out.extend(s.residual)
        return out


def _replace(e, old, new):
    if e == old:
        return new
    if not isinstance(e, tuple):
        return e
    return tuple(_replace(x, old, new) if isinstance(x, tuple) else x for x in e)


def _producer(x):
    """last path segments of the call that produced an Option/Result (for stable keys)"""
    x = _strip_reborrow(x)
    n = 0
    while n < 8:
        n += 1
        if x[0] == "call":
            last = x[1].rsplit("::", 1)[-1]
            if last in ("ok", "as_ref", "as_mut", "cloned", "copied", "map", "map_err", "as_deref") and x[2]:
                x = _strip_reborrow(x[2][0])
                continue
            return "::".join(x[1].replace(">", "").split("::")[-2:])
        if x[0] in ("unwrapped", "field", "variant", "deref"):
            x = x[1]
            continue
        if x[0] == "ref":
            x = x[2]
            continue
        break
    return x[0]


def _is_variant_test(e, x):
    """e is `is_some(x)`/`is_ok(x)` -> True, `is_none`/`is_err` -> False"""
    if e[0] == "un" and e[1] == "Not":
        r = _is_variant_test(e[2], x)
        return None if r is None else not r
    if e[0] == "call" and e[2]:
        last = e[1].rsplit("::", 1)[-1]
        if last in ("is_some", "is_ok", "is_none", "is_err"):
            a = _strip_ref(e[2][0])
            if a == x or _strip_reborrow(e[2][0]) == x:
                return last in ("is_some", "is_ok")
    return None


PURE_CALLS = ("std::slice::len", "std::mem::size_of", "std::cmp::min", "std::cmp::max")


def _has_unbound(e):
    for x in walk(e):
        if isinstance(x, tuple) and x and x[0] == "var" and x[1] == -1:
            return True
    return False


def _expr_arg_only(e, closure=False):
    for x in walk(e):
        if not isinstance(x, tuple) or not x or not isinstance(x[0], str):
            continue
        if x[0] == "var":
            return False
        if x[0] == "call":
            f = x[1]
            if not (any(path_matches(f, p) for p in PURE_CALLS) or _cast_kind(f)):
                return False
        if x[0] == "deref":
            # memory behind a reference parameter may change; only slices' lengths are stable.
            # Exception: the environment of a closure (captured variables are borrowed for the
            # closure's whole life, so they cannot change between creation and call)
            if closure and _env_rooted(x):
                continue
            return False
    return True


def _env_rooted(e):
    while True:
        k = e[0]
        if k == "arg":
            return e[1] == 0
        if k in ("deref", "field", "variant"):
            e = e[1]
        elif k == "ref":
            e = e[2]
        else:
            return False


def _arg_only(l, closure=False):
    if not isinstance(l, Lin):
        l = l[1]
    for a in l.co:
        if not _expr_arg_only(a, closure):
            return False
    return True


def _subst_expr(e, args, tmap=None):
    if not isinstance(e, tuple) or not e:
        return e
    if tmap and e[0] == "call" and e[1] in ("std::mem::size_of", "std::mem::align_of") and len(e) > 3 \
            and isinstance(e[3], tuple) and e[3] and e[3][0] == "targs":
        return ("call", e[1], e[2], ("targs", tuple(tmap.get(x, x) for x in e[3][1])))
    if e[0] == "arg":
        if e[1] < len(args):
            return args[e[1]]
        return ("var", -1, "?")
    if isinstance(e[0], str):
        if e[0] in ("c", "k", "fn", "var"):
            return e
        if e[0] == "call":
            return ("call", e[1], tuple(_subst_expr(a, args, tmap) for a in e[2])) + tuple(e[3:])
        return simplify((e[0],) + tuple(_subst_expr(x, args, tmap) if isinstance(x, tuple) else x for x in e[1:]))
    return tuple(_subst_expr(x, args, tmap) if isinstance(x, tuple) else x for x in e)


def _subst_lin(l, args, rs, tmap=None):
    out = Lin.const(l.k)
    for a, c in l.co.items():
        e = _subst_expr(a, args, tmap)
        if e[0] == "len":
            le = rs.len_lin(e[1])
        else:
            le = rs.lin(e)
        if le is None:
            return None
        out = out.add(le.scale(c))
    return out
