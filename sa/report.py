"""Obligation bookkeeping, known findings, evidence and replay files."""
import json
import os
import re


class Report:
    def __init__(self, pid, tier, seed):
        self.pid = pid
        self.tier = tier
        self.seed = seed
        self.obs = []            # obligations
        self.floors = []
        self.exempts = []
        self.notes = {}
        self.level = "other"
        self.explanation = ""
        self.assumptions = []
        self.trusted_base = []
        self.rule_text = ""
        self.extra = {}
        self.tree_key = ""
        self.programs = None
        self.disagreements_checked = None

    # ------------------------------------------------------------------ recording
    def ob(self, rule, key, ok, detail="", at=None, nontrivial=True, group=None):
        """one obligation.  key: stable identity (no line numbers); detail: human text"""
        self.obs.append({"rule": rule, "key": "%s | %s | %s" % (self.pid, rule, key), "ok": bool(ok),
                         "detail": detail, "at": at, "nontrivial": nontrivial,
                         "group": group or (rule + "|" + key.split(" | ")[0])})
        return ok

    def floor(self, rule, count, minimum, what=""):
        """fail closed when a rule matches fewer instances than were confirmed by hand"""
        self.floors.append({"rule": rule, "count": count, "floor": minimum, "what": what})
        if count < minimum:
            self.obs.append({"rule": rule, "key": "%s | %s | anchor-lost" % (self.pid, rule), "ok": False,
                             "detail": "anchor-lost: rule `%s` matched %d instance(s), expected at least %d (%s)"
                                       % (rule, count, minimum, what),
                             "at": None, "nontrivial": True, "group": rule + "|floor"})

    def anchor_lost(self, msg):
        self.obs.append({"rule": "anchor", "key": "%s | anchor | %s" % (self.pid, re.sub(r"\s+", " ", msg)[:160]),
                         "ok": False, "detail": "anchor-lost: " + msg, "at": None, "nontrivial": True,
                         "group": "anchor"})

    def exempt(self, key, reason):
        self.exempts.append({"key": key, "reason": reason})

    # ------------------------------------------------------------------ finishing
    def finish(self, known, wall, evid_dir, dump=False):
        os.makedirs(evid_dir, exist_ok=True)
        rdir = os.path.join(evid_dir, "replay")
        os.makedirs(rdir, exist_ok=True)
        for f in os.listdir(rdir):
            if f.startswith(self.pid + "-"):
                try:
                    os.unlink(os.path.join(rdir, f))
                except OSError:
                    pass
        known_keys = {}
        for k in known.get("findings", []):
            if k.get("property") == self.pid and k.get("status") == "known":
                known_keys[k["key"]] = k
        viols = [o for o in self.obs if not o["ok"]]
        new = []
        seen_known = []
        for v in viols:
            if v["key"] in known_keys:
                seen_known.append(v)
            else:
                new.append(v)
        if dump:
            for o in self.obs:
                print("%s %s  -- %s%s" % ("ok  " if o["ok"] else "FAIL", o["key"], o["detail"],
                                          (" @ " + o["at"]) if o["at"] else ""))
        for v in seen_known:
            print("KNOWN-FINDING: property=%s %s [%s]" % (self.pid, known_keys[v["key"]].get("what", v["detail"]), v["key"]))
        n = 0
        for v in new:
            n += 1
            path = os.path.join(rdir, "%s-%d.json" % (self.pid, n))
            with open(path, "w") as fh:
                json.dump({"property": self.pid, "key": v["key"], "rule": v["rule"], "detail": v["detail"],
                           "at": v["at"], "tree_key": self.tree_key, "tier": self.tier}, fh, indent=1)
            print("VIOLATION property=%s replay=%s" % (self.pid, path))
            print("  rule=%s key=%s" % (v["rule"], v["key"]))
            print("  %s%s" % (v["detail"], (" @ " + v["at"]) if v["at"] else ""))
        total = len(self.obs)
        ok = sum(1 for o in self.obs if o["ok"])
        groups = set(o["group"] for o in self.obs if o["nontrivial"])
        samples = []
        # a dozen obligations written out, spread over the rules
        byrule = {}
        for o in self.obs:
            byrule.setdefault(o["rule"], []).append(o)
        for r, lst in sorted(byrule.items()):
            for o in lst[:max(1, 12 // max(1, len(byrule)))]:
                samples.append({"rule": o["rule"], "key": o["key"], "ok": o["ok"], "detail": o["detail"], "at": o["at"]})
        cov = {
            "evaluations": total,
            "distinct_nontrivial": len(groups),
            "rule": self.rule_text or "obligations are rule instances resolved against the MIR facts of the current "
                                      "tree; distinct = distinct (rule, function/role) pairs with at least one real site",
            "samples": samples[:16],
            "obligations": total,
            "discharged": ok,
            "checker_cmd": "python3 -m sa.check %s --tier %s" % (self.pid, self.tier),
            "trusted_base": self.trusted_base or [
                "rustc nightly MIR construction and constant evaluation",
                "the mirfacts serialiser (engine/mirfacts)",
                "the rule tables in sa/rules/%s.py (reviewed by reading the code)" % self.pid],
            "explanation": self.explanation,
            "floors": self.floors,
            "exemptions": self.exempts,
            "per_rule": {r: {"obligations": len(l), "ok": sum(1 for o in l if o["ok"])} for r, l in sorted(byrule.items())},
            "tree_key": self.tree_key,
            "known_findings_seen": [v["key"] for v in seen_known],
            "exhaustive": True,
        }
        if self.programs is not None:
            cov["programs"] = self.programs
            cov["disagreements_checked"] = self.disagreements_checked or 0
        cov.update(self.extra)
        ev = {
            "property_id": self.pid,
            "tier": self.tier,
            "seed": self.seed,
            "level": self.level,
            "coverage": cov,
            "assumptions": self.assumptions,
            "wall_s": round(wall, 2),
            "violations": len(new),
        }
        with open(os.path.join(evid_dir, self.pid + ".json"), "w") as fh:
            json.dump(ev, fh, indent=1)
        print("%s: %d obligations, %d ok, %d known finding(s), %d violation(s) [%s, %.1fs]" % (
            self.pid, total, ok, len(seen_known), len(new), self.tier, wall))
        return 1 if new else 0
