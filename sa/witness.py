"""Compile-fail witnesses (thorough tier): the type-level remainder of C19 / C06.

The witness crate /verif/witness is instantiated against the repository under analysis and its
doc-tests are *compiled* by `cargo +nightly test --doc` (nightly honours the error code of
`compile_fail,E0xxx`); every twin is `no_run`, so nothing of libtw2 is executed.  One obligation
per doc-test: a witness must fail with its error code, its twin must compile."""
import os
import re
import shutil
import subprocess

from . import extract

LINE = re.compile(r"^test src/lib\.rs - (\w+) \(line (\d+)\)( - compile fail| - compile)? \.\.\. (\w+)")


def run(ctx, rep, rule, prefixes):
    """run the witness crate; report the doc-tests whose item name starts with one of `prefixes`"""
    repo = extract.REPO
    wdir = os.path.join(extract.CACHE, "witness-%s" % ctx.key)
    src = os.path.join(extract.VERIF, "witness")
    if os.path.isdir(wdir):
        shutil.rmtree(wdir)
    os.makedirs(wdir)
    try:
        shutil.copytree(os.path.join(src, "src"), os.path.join(wdir, "src"))
        with open(os.path.join(src, "Cargo.toml.in")) as fh:
            toml = fh.read().replace("@REPO@", repo)
        with open(os.path.join(wdir, "Cargo.toml"), "w") as fh:
            fh.write(toml)
        shutil.copy(os.path.join(repo, "Cargo.lock"), os.path.join(wdir, "Cargo.lock"))
        env = dict(os.environ, CARGO_NET_OFFLINE="true", CARGO_TARGET_DIR=os.path.join(extract.CACHE, "target-witness"))
        env.pop("RUSTC_WRAPPER", None)
        env.pop("RUSTC_WORKSPACE_WRAPPER", None)
        r = subprocess.run(["cargo", "+nightly", "test", "--doc", "--offline"], cwd=wdir, env=env, capture_output=True, text=True)
        out = r.stdout + "\n" + r.stderr
        seen = {}
        for ln in out.splitlines():
            m = LINE.match(ln.strip())
            if m:
                name, line, kind, res = m.group(1), int(m.group(2)), (m.group(3) or "").strip(" -"), m.group(4)
                seen.setdefault(name, []).append((line, kind, res))
        if not seen:
            raise extract.EngineError("the witness crate did not build against %s:\n%s" % (repo, out[-3000:]))
        n = 0
        for name in sorted(seen):
            if not any(name.startswith(p) for p in prefixes):
                continue
            tests = sorted(seen[name])
            fails = [t for t in tests if t[1] == "compile fail"]
            twins = [t for t in tests if t[1] == "compile"]
            ok = len(fails) == 1 and len(twins) == 1 and fails[0][2] == "ok" and twins[0][2] == "ok"
            n += 1
            rep.ob(rule, name, ok,
                   "the violating program is rejected with the expected error code and its twin (same program without the offending line) compiles"
                   if ok else "doc-tests: %s" % tests, "witness/src/lib.rs:%d" % (tests[0][0] if tests else 0))
        return n
    finally:
        shutil.rmtree(wdir, ignore_errors=True)
