"""Thorough tier: re-run the check on scratch copies of the tree with each committed seeded change
(/verif/seeded/<name>/patch.diff) applied, and record whether the change is still reported.

This is the "test the checker both ways" half that can be repeated on every run: the deciding
step is unchanged (the same static rules over freshly extracted MIR facts of the patched copy);
nothing of libtw2 is executed.  A seeded change that no longer applies to the tree (the code it
touches was edited) is skipped and reported as such.  A change that applies but is not reported
is printed as SELFTEST-MISS; on the tree the seeds were validated on (same tree key) that means
the engine lost sight of something and the run ends as an engine failure (exit 2), never as a
property verdict."""
import json
import os
import shutil
import subprocess
import tempfile

from . import extract
from .facts import Program, AnchorLost
from .report import Report

SEEDED = os.path.join(extract.VERIF, "seeded")


def seeds_for(pid):
    out = []
    if not os.path.isdir(SEEDED):
        return out
    for name in sorted(os.listdir(SEEDED)):
        d = os.path.join(SEEDED, name)
        mp = os.path.join(d, "meta.json")
        pp = os.path.join(d, "patch.diff")
        if not (os.path.isfile(mp) and os.path.isfile(pp)):
            continue
        try:
            with open(mp) as fh:
                meta = json.load(fh)
        except ValueError:
            continue
        if pid in (meta.get("caught_by") or []):
            out.append((name, pp, meta))
    # behaviour-preserving edits (/verif/neutral): the check must stay silent on them
    try:
        with open(os.path.join(extract.VERIF, "neutral", "INDEX.json")) as fh:
            idx = json.load(fh)
    except (OSError, ValueError):
        idx = {}
    for name in sorted(k for k in idx if not k.startswith("_")):
        if pid in idx[name]:
            pp = os.path.join(extract.VERIF, "neutral", name + ".diff")
            if os.path.isfile(pp):
                out.append(("neutral-" + name, pp, {"neutral": True}))
    return out


def _copy_tree(src, dst):
    def ign(d, names):
        return [n for n in names if n in ("target", ".git")]
    shutil.copytree(src, dst, ignore=ign, symlinks=True)


class _Ctx:
    def __init__(self, tier, seed, fdir, key):
        self.tier = tier
        self.seed = seed
        self.fdir, self.key, self.cached = fdir, key, False
        self._prog = None
        self._cg = None
        self._pa = {}

    @property
    def prog(self):
        if self._prog is None:
            self._prog = Program(self.fdir)
        return self._prog

    @property
    def cg(self):
        if self._cg is None:
            from .callgraph import CallGraph
            self._cg = CallGraph(self.prog)
        return self._cg


def run(pid, mod, known_keys, base_fail_keys, log=print):
    """returns a list of {seed, applied, flagged, rules}"""
    results = []
    seeds = seeds_for(pid)
    if not seeds:
        return results
    real_repo = extract.REPO
    real_cache = extract.CACHE
    for name, patch, meta in seeds:
        tmp = tempfile.mkdtemp(prefix="vsa-selftest.")
        work = os.path.join(tmp, "repo")
        res = {"seed": name, "applied": False, "flagged": False, "rules": [], "neutral": bool(meta.get("neutral"))}
        try:
            _copy_tree(real_repo, work)
            r = subprocess.run(["git", "apply", "--whitespace=nowarn", patch], cwd=work, capture_output=True, text=True)
            if r.returncode != 0:
                res["note"] = "patch does not apply to this tree: " + r.stderr.strip()[:200]
                results.append(res)
                continue
            res["applied"] = True
            extract.REPO = work
            try:
                fdir, key, _ = extract.facts_dir("quick", repo=work, log=open(os.devnull, "w"))
                ctx = _Ctx("quick", 0, fdir, key)
                rep = Report(pid, "quick", 0)
                try:
                    mod.run(ctx, rep)
                except AnchorLost as e:
                    rep.anchor_lost(str(e))
                new = [o for o in rep.obs if not o["ok"] and o["key"] not in known_keys and o["key"] not in base_fail_keys]
                res["flagged"] = bool(new)
                res["rules"] = sorted(set(o["rule"] for o in new))
                res["keys"] = [o["key"] for o in new][:4]
                shutil.rmtree(fdir, ignore_errors=True)
            except extract.EngineError as e:
                res["note"] = "patched copy does not build: " + str(e)[:200]
            finally:
                extract.REPO = real_repo
        finally:
            shutil.rmtree(tmp, ignore_errors=True)
        results.append(res)
        if res["neutral"]:
            log("selftest %s: %s" % (name, "SELFTEST-FALSE-ALARM (behaviour-preserving edit reported by %s)" % ", ".join(res["rules"]) if res["flagged"] else
                                     ("silent, as it must be" if res["applied"] and "note" not in res else res.get("note", ""))))
        else:
            log("selftest %s: %s" % (name, "reported by " + ", ".join(res["rules"]) if res["flagged"] else
                                     ("SELFTEST-MISS (applied, not reported)" if res["applied"] and "note" not in res else res.get("note", ""))))
    return results
