"""A8: bit-provenance evaluation of straight-line pack/unpack expressions.

An abstract integer is a list of abstract bits (LSB first): 0, 1, a source bit ('s', name, k),
('or', frozenset(bits)) / ('xor', frozenset(bits)) of source bits, or 'T' (unknown).  Struct
values are dicts field -> value.  Workspace callees are inlined through their return
expression.  This is the known-bits lattice with symbolic provenance, evaluated on expression
trees (the functions analysed return one aggregate built by straight-line code); anything else
evaluates to 'T' and the rule using it fails closed."""
import re

from .ir import IR, show, walk

T = "T"
WIDTH = {"u8": 8, "i8": 8, "u16": 16, "i16": 16, "u32": 32, "i32": 32, "u64": 64, "i64": 64, "usize": 64,
         "isize": 64, "bool": 1, "u128": 128, "i128": 128}
SIGNED = {"i8", "i16", "i32", "i64", "isize", "i128"}


class Unsupported(Exception):
    pass


def const_bits(v, w):
    v &= (1 << w) - 1
    return [(v >> k) & 1 for k in range(w)]


def src_bits(name, w):
    return [("s", name, k) for k in range(w)]


def b_and(a, b):
    if a == 0 or b == 0:
        return 0
    if a == 1:
        return b
    if b == 1:
        return a
    if a == b:
        return a
    return T


def b_or(a, b):
    if a == 1 or b == 1:
        return 1
    if a == 0:
        return b
    if b == 0:
        return a
    if a == b:
        return a
    if a == T or b == T:
        return T
    sa = a[1] if a[0] == "or" else frozenset([a])
    sb = b[1] if b[0] == "or" else frozenset([b])
    if any(x[0] not in ("s",) for x in sa | sb):
        return T
    return ("or", sa | sb)


def b_xor(a, b):
    if a == 0:
        return b
    if b == 0:
        return a
    if a == b and a != T:
        return 0
    if a == 1 and b == 1:
        return 0
    if a == 1 and isinstance(b, tuple) and b[0] == "not":
        return b[1]
    if b == 1 and isinstance(a, tuple) and a[0] == "not":
        return a[1]
    if a == 1 and b != T:
        return ("not", b)
    if b == 1 and a != T:
        return ("not", a)
    return T


def b_not(a):
    if a == 0:
        return 1
    if a == 1:
        return 0
    if a == T:
        return T
    if isinstance(a, tuple) and a[0] == "not":
        return a[1]
    return ("not", a)


class BitEval:
    def __init__(self, prog):
        self.prog = prog
        self._irs = {}
        self.zero = set()   # source bits known to be 0 (range asserts), as ('s', name, k)

    def ir(self, fid):
        r = self._irs.get(fid)
        if r is None:
            body = self.prog.bodies.get(fid)
            if body is None:
                return None
            r = IR(body)
            self._irs[fid] = r
        return r

    # ------------------------------------------------------------------ symbolic inputs
    def symbolic(self, ty, name):
        """symbolic value of type `ty` (int or workspace struct of ints)"""
        ty = ty.strip()
        if ty in WIDTH:
            return src_bits(name, WIDTH[ty])
        m = re.match(r"^\[(\w+); (\d+)\]$", ty)
        if m and m.group(1) in WIDTH:
            return {i: src_bits("%s[%d]" % (name, i), WIDTH[m.group(1)]) for i in range(int(m.group(2)))}
        a = self.prog.adts.get(ty)
        if a is None or a["kind"] != "Struct":
            raise Unsupported("cannot build a symbolic value of type " + ty)
        out = {}
        for f in a["variants"][0]["fields"]:
            fn = int(f["n"]) if f["n"].isdigit() else f["n"]
            out[fn] = self.symbolic(f["ty"], name + "." + f["n"])
        return out

    # ------------------------------------------------------------------ return expression
    def ret_expr(self, fid):
        ir = self.ir(fid)
        if ir is None:
            raise Unsupported("no body for " + fid)
        body = ir.b
        rets = body.return_blocks()
        if len(rets) != 1:
            raise Unsupported("%s has %d return blocks" % (fid, len(rets)))
        rb = rets[0]
        e = ir.place({"l": 0}, (rb, len(body.blocks[rb]["st"])))
        if e[0] == "var":
            ds = ir.defs.get(0, [])
            if len(ds) != 1:
                raise Unsupported("%s: return value has %d definitions" % (fid, len(ds)))
            bi, si, kind, node = ds[0]
            e = ir.rvalue(node["r"], (bi, si)) if kind == "assign" else ir.call_expr(bi, node)
        return e, rb

    def range_facts(self, fid, env):
        """source bits forced to zero by the asserts dominating the return of fid (`x >> K == 0`)"""
        ir = self.ir(fid)
        e, rb = self.ret_expr(fid)
        zeros = set()
        for c, rel, v, edge, dty in ir.edge_conditions(rb):
            truth = None
            if rel == "==" and v in (0, 1):
                truth = bool(v)
            elif rel == "notin" and len(v) == 1 and v[0] in (0, 1):
                truth = not bool(v[0])
            if truth is None:
                continue
            if c[0] == "bin" and c[1] in ("Eq", "Ne") and ((c[1] == "Eq") == truth):
                for x, y in ((c[2], c[3]), (c[3], c[2])):
                    if y[0] == "c" and y[1] == 0 and x[0] == "bin" and x[1] == "Shr" and x[3][0] == "c":
                        try:
                            val = self.eval(x[2], env, ir)
                        except Unsupported:
                            continue
                        if isinstance(val, list):
                            for k in range(x[3][1], len(val)):
                                if isinstance(val[k], tuple) and val[k][0] == "s":
                                    zeros.add(val[k])
        return zeros

    # ------------------------------------------------------------------ evaluation
    def width_of(self, ir, e):
        t = ir.type_of(e)
        if t in WIDTH:
            return WIDTH[t], t in SIGNED
        return None, False

    def apply_zero(self, v):
        if isinstance(v, dict):
            return {k: self.apply_zero(x) for k, x in v.items()}
        return [0 if b in self.zero else b for b in v]

    

    def eval(self, e, env, ir, depth=0):
        """env: {arg index: value}; env["leaf"] (optional) maps a sub-expression to a value before it is evaluated structurally"""
        if depth > 40:
            raise Unsupported("too deep")
        leaf = env.get("leaf") if isinstance(env, dict) else None
        if leaf is not None:
            r = leaf(e)
            if r is not None:
                return r
        k = e[0]
        if k == "c":
            w = WIDTH.get(e[2])
            if w is None:
                raise Unsupported("constant of type " + str(e[2]))
            return const_bits(e[1], w)
        if k == "arg":
            if e[1] in env:
                return env[e[1]]
            raise Unsupported("unbound argument %d" % e[1])
        if k == "field":
            base = self.eval(e[1], env, ir, depth + 1)
            if isinstance(base, dict) and e[2] in base:
                return base[e[2]]
            raise Unsupported("field %s of a non-struct value" % (e[2],))
        if k == "agg" and e[1] == "adt":
            return {n: self.eval(v, env, ir, depth + 1) for n, v in e[4]}
        if k in ("deref",):
            return self.eval(e[1], env, ir, depth + 1)
        if k == "ref":
            return self.eval(e[2], env, ir, depth + 1)
        if k == "cast":
            v = self.eval(e[3], env, ir, depth + 1)
            if not isinstance(v, list):
                raise Unsupported("cast of a struct")
            w = WIDTH.get(e[2])
            if w is None:
                raise Unsupported("cast to " + e[2])
            _, signed = self.width_of(ir, e[3])
            if len(v) >= w:
                return v[:w]
            ext = v[-1] if signed else 0
            return v + [ext] * (w - len(v))
        if k == "bin":
            op = e[1]
            if op in ("BitAnd", "BitOr", "BitXor"):
                a = self.eval(e[2], env, ir, depth + 1)
                b = self.eval(e[3], env, ir, depth + 1)
                if not (isinstance(a, list) and isinstance(b, list)) or len(a) != len(b):
                    raise Unsupported("bitwise op on mismatched values")
                f = {"BitAnd": b_and, "BitOr": b_or, "BitXor": b_xor}[op]
                return [f(x, y) for x, y in zip(a, b)]
            if op in ("Shl", "Shr", "ShlUnchecked", "ShrUnchecked"):
                a = self.eval(e[2], env, ir, depth + 1)
                if e[3][0] != "c" or not isinstance(a, list):
                    raise Unsupported("shift by a non-constant")
                n = e[3][1]
                w = len(a)
                _, signed = self.width_of(ir, e[2])
                if op.startswith("Shl"):
                    return ([0] * n + a)[:w]
                fill = a[-1] if signed else 0
                return (a[n:] + [fill] * n)[:w]
            raise Unsupported("operator " + op)
        if k == "un" and e[1] == "Not":
            a = self.eval(e[2], env, ir, depth + 1)
            return [b_not(x) for x in a]
        if k == "call":
            f = e[1]
            if f in self.prog.bodies:
                cir = self.ir(f)
                re_, rb = self.ret_expr(f)
                cenv = {}
                if leaf is not None:
                    pass
                for i, a in enumerate(e[2]):
                    try:
                        cenv[i] = self.eval(a, env, ir, depth + 1)
                    except Unsupported:
                        pass
                return self.eval(re_, cenv, cir, depth + 1)
            raise Unsupported("call to " + f)
        raise Unsupported("expression kind " + k + ": " + show(e)[:60])


def flatten(v, prefix=""):
    """{(path, k): bit}"""
    out = {}
    if isinstance(v, dict):
        for f, x in v.items():
            out.update(flatten(x, prefix + "." + str(f) if prefix else str(f)))
    else:
        for k, b in enumerate(v):
            out[(prefix, k)] = b
    return out


def bit_str(b):
    if b in (0, 1, T):
        return str(b)
    if b[0] == "s":
        return "%s[%d]" % (b[1], b[2])
    if b[0] in ("or", "xor"):
        return b[0] + "(" + ",".join(sorted(bit_str(x) for x in b[1])) + ")"
    if b[0] == "not":
        return "!" + bit_str(b[1])
    return str(b)


def sources_in(b):
    if isinstance(b, tuple):
        if b[0] == "s":
            return {b}
        if b[0] in ("or", "xor"):
            out = set()
            for x in b[1]:
                out |= sources_in(x)
            return out
        if b[0] == "not":
            return sources_in(b[1])
    return set()
