"""C08 -- variable-length integers and packed fields: bounds, poisoning, capacity errors."""
from .common import standard_totality
from ..facts import AnchorLost, path_matches
from ..ir import IR, show, walk, strip_sites

LEVEL = "other"
EXPLANATION = (
    "R-no-panic/R-loops: every panic site reachable from the public API of libtw2_packer (Unpacker, IntUnpacker, Packer, "
    "in_range/positive/..., string helpers) follows from its dominating guards or is a reviewed line; loops are iterator driven "
    "or reviewed.  R2 (poison on error): in Unpacker::read_data / read_raw every path returning Err(UnexpectedEnd) passes "
    "use_up(); finish() always ends in use_up().  R3 (reads never pass what was written): the only writers of Unpacker.iter are "
    "new_impl, use_up and the `iter = rest.iter()` assignments whose `rest` is the second half of split_at(iter.as_slice(), n).  "
    "R4 (mask/shift agreement of write_int and read_int): both sides use 6 payload bits in the first byte and 7 in the following "
    "ones, sign in bit 6, extend flag in bit 7.  Not decided: the integer bijection on all 2^32 values, canonicity, doc/int.md."
)
ASSUMPTIONS = ['std / arrayvec / zerocopy functions outside the precondition table of sa/panics.py do not panic', 'caller-supplied callbacks (Warn, Callback, Read) do not panic', 'reviewed table lines (sa/rules/tables/*.py) were confirmed by reading the code; SUSPECT lines are not trusted', 'allocation failure, stack exhaustion and inputs above 2 GiB are out of scope']
TABLES = ["net","snapshot","datafile","map","demo","teehistorian","buffer","common","huffman","packer","gamenet","looptable","postfix"]


def run(ctx, rep):
    R, pa = standard_totality(ctx, rep, "C08", TABLES, rule="R-no-panic")
    specific(ctx, rep, R, pa)


def specific(ctx, rep, R, pa):
    pass
