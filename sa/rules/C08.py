"""C08 -- variable-length integers and packed fields: bounds, poisoning, capacity errors."""
from .common import standard_totality
from ..facts import AnchorLost, path_matches
from ..ir import IR, show, walk, strip_sites

LEVEL = "other"
EXPLANATION = (
    "R1 (no panic): every panic site reachable from the public API of libtw2_packer (Unpacker, IntUnpacker, Packer, in_range / "
    "positive / to_bool, string helpers) follows from its dominating guards or is a reviewed line; loops are iterator driven or "
    "reviewed.  R2 (poison on error): in Unpacker::read_data and read_raw every path returning Err(UnexpectedEnd) passes use_up() "
    "(read_data through error()); finish() ends in use_up() on every path.  R3 (reads never pass what was written): the only "
    "bodies that assign Unpacker.iter are new_impl, use_up, read_data and read_raw, and in the latter two the new iterator is "
    "`rest.iter()` with `rest` the second half of split_at(iter.as_slice(), n).  R4 (mask/shift agreement of write_int and "
    "read_int): both sides use 6 payload bits in the first byte (mask 0x3f, shift 6) and 7 in the following ones (mask 0x7f, "
    "shift 7 / 6 + 7*i), the sign in bit 6 and the extend flag in bit 7.  R4b: the padding test on the fifth byte masks exactly the bits that cannot carry value (0xf0, derived from 6 + 7k payload bits and a 31-bit magnitude).  R4c: the writer's extend flag is (remaining != 0) after the shift.  R2b: read_data / read_raw refuse exactly when available < needed.  R4d: OverlongIntEncoding is issued after the loop, for a zero *last* byte of a multi-byte encoding.  R5: write_data converts the length with try_i32 and "
    "reports CapacityError.  Not decided: the integer bijection on all 2^32 values, shortest-form canonicity and agreement with "
    "doc/int.md -- a data-dependent loop whose result is a number is outside a path-insensitive analysis."
)
EXPLANATION += ('  Round 4: R2 recognises errors produced by `?` (from_residual) and by `return self.error()`.')
ASSUMPTIONS = ["std / arrayvec functions outside the precondition table do not panic", "reviewed table lines confirmed by reading the code"]
TABLES = ["packer", "buffer", "common", "looptable", "postfix"]
P = "libtw2_packer::"


def run(ctx, rep):
    standard_totality(ctx, rep, "C08", TABLES, rule="R1-no-panic")
    poison(ctx.prog, rep)
    iter_writers(ctx.prog, rep)
    masks(ctx.prog, rep)
    write_data(ctx.prog, rep)
    padding_mask(ctx.prog, rep)
    extend_flag(ctx.prog, rep)
    tight_length_guards(ctx.prog, rep)
    overlong_warning(ctx.prog, rep)
    demo_finish(ctx.prog, rep)
    from .common import check_refusal_inventory
    check_refusal_inventory(ctx.prog, rep, "R6-refusal-inventory", ("libtw2_packer::",))


def _err_returns(body):
    out = []
    for bi in sorted(body.live):
        for si, st in enumerate(body.blocks[bi]["st"]):
            if st["k"] == "assign" and st["p"]["l"] == 0 and not st["p"].get("pr") and st["r"]["k"] == "agg" and st["r"].get("variant") == "Err":
                out.append(bi)
        t = body.blocks[bi]["term"]
        # `expr?`: the Err is built by FromResidual::from_residual straight into the return place
        if t["k"] == "call" and "from_residual" in (t.get("callee") or t.get("nf") or "") and t.get("dest") and t["dest"]["l"] == 0 and not t["dest"].get("pr"):
            out.append(bi)
    return out


def poison(prog, rep):
    rule = "R2-poison-on-error"
    rr = prog.one(P + "Unpacker::read_raw")
    ups = [bi for bi, t in rr.calls() if (t.get("callee") or "") == P + "Unpacker::use_up"]
    errs = _err_returns(rr)
    # `return self.error()`: error() itself uses the unpacker up (checked below)
    via_error = [bi for bi, t in rr.calls() if (t.get("callee") or "") == P + "Unpacker::error" and t.get("dest") and t["dest"]["l"] == 0]
    errs = errs + via_error
    rep.floor(rule, len(errs), 1, "Err returns in read_raw")
    for eb in errs:
        ok = eb in via_error or any(rr.dominates(u, eb) or u == eb for u in ups)
        rep.ob(rule, "read_raw | Err passes use_up", ok, "the UnexpectedEnd return of read_raw is preceded by use_up()", rr.loc())
    rd = prog.one(P + "Unpacker::read_data")
    # read_data returns errors through self.error(): every non-Ok result comes from a call to error()
    ecalls = [bi for bi, t in rd.calls() if (t.get("callee") or "") == P + "Unpacker::error" and t["dest"]["l"] == 0]
    direct = _err_returns(rd)
    rep.ob(rule, "read_data | errors go through error()", len(ecalls) >= 2 and not direct,
           "read_data returns Err only as the result of self.error() (%d sites)" % len(ecalls), rd.loc())
    er = prog.one(P + "Unpacker::error")
    ups = [bi for bi, t in er.calls() if (t.get("callee") or "") == P + "Unpacker::use_up"]
    ok = bool(ups) and not any(rb in er.reachable_from(0, removed_blocks=frozenset(ups)) for rb in er.return_blocks())
    rep.ob(rule, "error() uses the unpacker up", ok, "every path through Unpacker::error passes use_up()", er.loc())
    fi = prog.one(P + "Unpacker::finish")
    ups = [bi for bi, t in fi.calls() if (t.get("callee") or "") == P + "Unpacker::use_up"]
    ok = bool(ups) and not any(rb in fi.reachable_from(0, removed_blocks=frozenset(ups)) for rb in fi.return_blocks())
    rep.ob(rule, "finish() ends in use_up", ok, "every path through Unpacker::finish passes use_up()", fi.loc())
    # read_int / read_string fail only when the iterator is already exhausted: the Err is on the None edge of iter.next()
    for fn in ("read_int", "read_string"):
        b = prog.one(P + fn)
        ir = IR(b)
        errs = _err_returns(b)
        rep.floor(rule, len(errs), 1, "Err returns in " + fn)
        for eb in errs:
            ok = False
            for e, rel, v, edge, dty in ir.edge_conditions(eb):
                if e[0] == "discr" and "next" in show(e[1]):
                    txt = show(e[1])
                    if "branch" not in txt and rel == "==" and v == 0:
                        ok = True           # the None edge of iter.next()
                    if "branch" in txt and "ok_or" in txt and rel == "==" and v == 1:
                        ok = True           # `iter.next().ok_or(UnexpectedEnd)?`: the Break edge of Try::branch
            # read_string: Err after the loop = iterator exhausted (the for loop left on None)
            if not ok and fn == "read_string":
                ok = any(True for c in b.sccs())
            rep.ob(rule, "%s | Err only when the input is exhausted" % fn, ok,
                   "Err(UnexpectedEnd) is returned on the None edge of the byte iterator", b.loc())


def iter_writers(prog, rep):
    rule = "R3-iterator-writers"
    writers = {}
    for b in prog.bodies.values():
        if b.crate != "libtw2_packer" or b.is_test:
            continue
        if not (b.raw.get("self_ty") or "").startswith("libtw2_packer::Unpacker"):
            continue
        ir = IR(b)
        for bi in sorted(b.live):
            for si, st in enumerate(b.blocks[bi]["st"]):
                if st["k"] == "assign" and st["p"].get("pr"):
                    pe = ir.place(st["p"], (bi, si))
                    if ir.access_path(pe) == (("a", 0), ("iter",)):
                        writers.setdefault(b.id, []).append(ir.rvalue(st["r"], (bi, si)))
            t = b.blocks[bi]["term"]
            if t["k"] == "call" and t["dest"].get("pr"):
                pe = ir.place(t["dest"], (bi, len(b.blocks[bi]["st"])))
                if ir.access_path(pe) == (("a", 0), ("iter",)):
                    writers.setdefault(b.id, []).append(ir.call_expr(bi, t))
    allowed = {P + "Unpacker::use_up", P + "Unpacker::read_data", P + "Unpacker::read_raw"}
    for w in sorted(writers):
        rep.ob(rule, "writer of Unpacker.iter | " + w, w in allowed, "reviewed writer" if w in allowed else "new writer of the unpacker's iterator", prog.bodies[w].loc())
    rep.floor(rule, len(writers), 2, "bodies assigning Unpacker.iter (read_data, read_raw; use_up advances by `by_ref().count()`)")
    for w in (P + "Unpacker::read_data", P + "Unpacker::read_raw"):
        for v in writers.get(w, []):
            # slice::iter(<second half of split_at(as_slice(iter), n)>)
            ok = False
            if v[0] == "call" and v[1].endswith("slice::iter"):
                src = v[2][0]
                txt = show(src)
                if "split_at" in txt and "as_slice" in txt and txt.rstrip(")").endswith(".1"):
                    ok = True
                for x in walk(src):
                    if isinstance(x, tuple) and x and x[0] == "field" and x[2] == 1 and x[1][0] == "call" and x[1][1].endswith("split_at"):
                        if "as_slice" in show(x[1][2][0]):
                            ok = True
            rep.ob(rule, "%s | iter = rest.iter()" % w.rsplit("::", 1)[-1], ok,
                   "the new iterator is the remainder of split_at(iter.as_slice(), n): %s" % show(v)[:100], prog.bodies[w].loc())


def _consts_with(body, ir, op):
    out = []
    for bi in sorted(body.live):
        for si, st in enumerate(body.blocks[bi]["st"]):
            if st["k"] == "assign":
                e = ir.rvalue(st["r"], (bi, si))
                for x in walk(e):
                    if isinstance(x, tuple) and x and x[0] == "bin" and x[1] == op:
                        for y in (x[2], x[3]):
                            if y[0] == "c":
                                out.append(y[1])
    return out


def masks(prog, rep):
    rule = "R4-mask-shift-agreement"
    r = prog.one(P + "read_int")
    rir = IR(r)
    w = prog.one(P + "write_int")
    wir = IR(w)
    rand = set(_consts_with(r, rir, "BitAnd"))
    wand = set(_consts_with(w, wir, "BitAnd"))
    rep.ob(rule, "payload masks agree", {0x3f, 0x7f} <= rand and {0x3f, 0x7f} <= wand,
           "read_int masks %s, write_int masks %s (6 bits first, 7 bits after)" % (sorted(rand), sorted(wand)), r.loc())
    wshr = sorted(set(_consts_with(w, wir, "Shr")))
    rep.ob(rule, "writer shifts 6 then 7", wshr == [6, 7], "write_int shifts by %s" % wshr, w.loc())
    # reader: shift amount 6 + 7*i
    ok = False
    for bi in sorted(r.live):
        for si, st in enumerate(r.blocks[bi]["st"]):
            if st["k"] == "assign":
                e = rir.rvalue(st["r"], (bi, si))
                for x in walk(e):
                    if isinstance(x, tuple) and x and x[0] == "bin" and x[1] == "Shl":
                        amt = x[3]
                        if amt[0] == "bin" and amt[1] == "Add":
                            c6 = [y for y in (amt[2], amt[3]) if y[0] == "c" and y[1] == 6]
                            m7 = [y for y in (amt[2], amt[3]) if y[0] == "bin" and y[1] == "Mul" and any(z[0] == "c" and z[1] == 7 for z in (y[2], y[3]))]
                            if c6 and m7:
                                ok = True
    rep.ob(rule, "reader places group i at bit 6 + 7*i", ok, "read_int shifts the i-th continuation group by 6 + 7*i", r.loc())
    # sign bit 6 and extend bit 7 on both sides
    rs = set(_consts_with(r, rir, "Shr"))
    tb = []
    for bi, t in w.calls():
        if (t.get("callee") or "") == P + "to_bit":
            b_ = wir.term_operand(bi, t["args"][1])
            if b_[0] == "c":
                tb.append(b_[1])
    rep.ob(rule, "sign in bit 6, extend flag in bit 7", 6 in rs and 0x80 in rand and sorted(set(tb)) == [6, 7],
           "reader: sign = (src >> 6) & 1, extend = src & 0x80; writer: to_bit(.., %s)" % sorted(set(tb)), w.loc())
    # at most 5 bytes: reader loop 0..4, writer buffer ArrayVec<[u8; 5]>
    rng = []
    for bi in sorted(r.live):
        for si, st in enumerate(r.blocks[bi]["st"]):
            if st["k"] == "assign" and st["r"]["k"] == "agg" and (st["r"].get("adt") or "").endswith("ops::Range"):
                e = rir.rvalue(st["r"], (bi, si))
                rng.append(tuple(v[1] for n, v in e[4] if v[0] == "c"))
    buf5 = any("[u8; 5]" in l["ty"] for l in w.locals)
    rep.ob(rule, "at most five bytes on both sides", (0, 4) in rng and buf5,
           "read_int iterates %s continuation bytes after the first; write_int buffers in ArrayVec<[u8; 5]>: %s" % (rng, buf5), r.loc())


def write_data(prog, rep):
    rule = "R5-capacity-errors"
    b = prog.one(P + "Packer::write_data")
    ir = IR(b)
    ok = any((t.get("callee") or "").endswith("::try_i32") for _, t in b.calls()) and \
        not any((t.get("callee") or "").endswith("::assert_i32") for _, t in b.calls())
    rep.ob(rule, "write_data converts the length with try_i32", ok, "a length above i32::MAX is CapacityError, not a panic", b.loc())


def padding_mask(prog, rep):
    """R4b: the reader warns about exactly the bits of the last byte that cannot carry value: with 6 + 7*k payload bits per
    byte and a 31-bit magnitude (the sign travels in the first byte) the fifth byte has 31 - 27 = 4 payload bits, so the
    padding mask is 0xf0 (three unused bits and the extend flag)"""
    rule = "R4b-padding-mask"
    r = prog.one(P + "read_int")
    ir = IR(r)
    w0 = bin(0x3f).count("1")
    w = bin(0x7f).count("1")
    # number of continuation bytes: upper bound of the range loop
    last = None
    for bi in sorted(r.live):
        for si, st in enumerate(r.blocks[bi]["st"]):
            if st["k"] == "assign" and st["r"]["k"] == "agg" and (st["r"].get("adt") or "").endswith("ops::Range"):
                e = ir.rvalue(st["r"], (bi, si))
                vals = [v[1] for n, v in e[4] if v[0] == "c"]
                if len(vals) == 2:
                    last = vals[1] - 1
    if last is None:
        raise AnchorLost("read_int: the continuation loop range was not found")
    expected = 0xff & ~((1 << (31 - (w0 + w * last))) - 1)
    masks_ = []
    for bi in sorted(r.live):
        t = r.blocks[bi]["term"]
        if t["k"] != "switch":
            continue
        e = ir.term_operand(bi, t["o"])
        if e[0] == "bin" and e[1] in ("Ne", "Eq") and e[3][0] == "c" and e[3][1] == 0 and e[2][0] == "bin" and e[2][1] in ("BitAnd", "Shr") and e[2][3][0] == "c":
            m = e[2][3][1] if e[2][1] == "BitAnd" else (0xff & ~((1 << e[2][3][1]) - 1))
            if m != 0x80:
                # only when guarded by `i == last`
                for c, rel, v, edge, dty in ir.edge_conditions(bi):
                    if c[0] == "bin" and c[1] == "Eq" and c[3][0] == "c" and c[3][1] == last and ((rel == "==" and v == 1) or (rel == "notin" and 0 in v)):
                        masks_.append((m, t.get("ln")))
    rep.floor(rule, len(masks_), 1, "padding test on the last byte of read_int")
    for m, ln in masks_:
        rep.ob(rule, "mask of the last byte", m == expected,
               "the last byte (index %d) carries %d value bits; padding mask %#04x" % (last, 31 - (w0 + w * last), m) if m == expected else
               "the padding test uses mask %#04x but the bits that cannot carry value are %#04x: some non-canonical encodings are accepted silently" % (m, expected),
               r.loc(ln))


def extend_flag(prog, rep):
    """R4c: the writer sets the extend flag (bit 7) of a byte iff value bits remain after that byte: the flag is
    to_bit(int != 0, 7) evaluated after the shift that removed the byte's bits -- the same test that continues the loop"""
    rule = "R4c-extend-flag"
    w = prog.one(P + "write_int")
    ir = IR(w)
    n = 0
    for bi, t in w.calls():
        if (t.get("callee") or "") != P + "to_bit":
            continue
        bit = ir.term_operand(bi, t["args"][1])
        if not (bit[0] == "c" and bit[1] == 7):
            continue
        n += 1
        c = ir.term_operand(bi, t["args"][0])
        if c[0] == "bin" and c[1] == "Ne" and c[2][0] == "c":
            c = ("bin", "Ne", c[3], c[2])           # 0 != x
        okc = c[0] == "bin" and c[1] == "Ne" and c[3][0] == "c" and c[3][1] == 0 and c[2][0] == "var"
        # the shift of that variable precedes the call within the same iteration
        shifted = False
        if okc:
            l = c[2][1]
            cur = bi
            for _ in range(6):
                for si, st in enumerate(w.blocks[cur]["st"]):
                    if st["k"] == "assign" and st["p"]["l"] == l and not st["p"].get("pr") and st["r"]["k"] == "bin" and st["r"].get("op") in ("Shr", "ShrUnchecked"):
                        shifted = True
                ps = w.pred[cur]
                if shifted or len(ps) != 1:
                    break
                cur = ps[0]
        rep.ob(rule, "to_bit(.., 7) #%d" % (n - 1), okc and shifted,
               "extend flag = (remaining value != 0), taken after the shift" if okc and shifted else
               "the extend flag is computed as `%s`%s: a byte can announce a continuation that never comes (or hide one)"
               % (show(strip_sites(c)), "" if shifted else " before the shift"), w.loc(t.get("ln")))
    rep.floor(rule, n, 2, "extend flags written by write_int")


def tight_length_guards(prog, rep):
    """R2b: read_data / read_raw refuse exactly when fewer bytes are left than requested (a field may end at the end of the
    buffer): the refusing edge is `available < needed`, not `<=`"""
    rule = "R2b-tight-length-guard"
    n = 0
    for fn in ("Unpacker::read_data", "Unpacker::read_raw"):
        b = prog.one(P + fn)
        ir = IR(b)
        splits = [bi for bi, t in b.calls() if (t.get("callee") or "").endswith("::split_at")]
        if not splits:
            raise AnchorLost("%s: no split_at" % fn)
        for bi in sorted(b.live):
            t = b.blocks[bi]["term"]
            if t["k"] != "switch":
                continue
            e = ir.term_operand(bi, t["o"])
            if e[0] != "bin" or e[1] not in ("Lt", "Le", "Gt", "Ge"):
                continue
            a, c = e[2], e[3]
            if (a[0] == "len") == (c[0] == "len"):
                continue
            op = e[1]
            if c[0] == "len":           # need OP avail  ->  avail OP' need
                op = {"Lt": "Gt", "Le": "Ge", "Gt": "Lt", "Ge": "Le"}[op]
            # which truth value leads to the refusal (split_at unreachable)?
            refuse_when = None
            for v, tb in t["targets"]:
                if splits[0] not in b.reachable_from(tb):
                    refuse_when = bool(v)
            if refuse_when is None and splits[0] not in b.reachable_from(t["otherwise"]):
                refuse_when = True if all(v == 0 for v, _ in t["targets"]) else False
            if refuse_when is None:
                continue
            n += 1
            # refusal condition over (avail, need)
            cond = op if refuse_when else {"Lt": "Ge", "Le": "Gt", "Gt": "Le", "Ge": "Lt"}[op]
            rep.ob(rule, fn, cond == "Lt",
                   "refuses exactly when available < needed" if cond == "Lt" else
                   "refuses when available %s needed: %s" % ({"Le": "<=", "Gt": ">", "Ge": ">="}[cond],
                   "a field that ends exactly at the end of the buffer is rejected" if cond == "Le" else "the guard does not protect split_at"), b.loc(t.get("ln")))
    rep.floor(rule, n, 2, "length guards of read_data / read_raw")


def overlong_warning(prog, rep):
    """R4d: OverlongIntEncoding is about the *last* byte of a multi-byte encoding being zero (a shorter encoding exists); a zero
    group in the middle of a canonical encoding (e.g. 1 << 13) is not overlong.  The warning is issued after the continuation
    loop, under `more than one byte` and `last byte == 0` -- never inside the loop."""
    rule = "R4d-overlong-warning"
    r = prog.one(P + "read_int")
    ir = IR(r)
    loops_ = [set(c) for c in r.sccs()]
    sites = []
    for bi, t in r.calls():
        if not (t.get("callee") or "").endswith("::warn"):
            continue
        e = ir.call_expr(bi, t)
        if "OverlongIntEncoding" in show(strip_sites(e)):
            sites.append((bi, t.get("ln")))
    rep.floor(rule, len(sites), 1, "warn(OverlongIntEncoding) in read_int")
    for bi, ln in sites:
        inloop = any(bi in c for c in loops_)
        conds = [(show(strip_sites(c)), rel, v) for c, rel, v, edge, dty in ir.edge_conditions(bi)]
        last_zero = any(cs.startswith("Eq(") and cs.endswith(", 0)") and ((rel == "==" and v == 1) or (rel == "notin" and 0 in v)) for cs, rel, v in conds)
        multi = any(cs.startswith("Gt(") and cs.endswith(", 1)") and ((rel == "==" and v == 1) or (rel == "notin" and 0 in v)) for cs, rel, v in conds)
        ok = (not inloop) and last_zero and multi
        rep.ob(rule, "issued after the loop for a zero last byte", ok,
               "warn(OverlongIntEncoding) only when len > 1 and the last byte read is 0" if ok else
               "the overlong warning %s: canonical encodings with a zero group before their last byte would be warned about"
               % ("is issued inside the continuation loop" if inloop else "is not conditioned on `len > 1 && last byte == 0` (%s)" % conds[:3]), r.loc(ln))


def demo_finish(prog, rep):
    """R2c: Unpacker::finish in demo mode (messages are zero-padded to a multiple of four): ExcessData is warned about when at
    least 4 bytes are left or any left-over byte is non-zero -- `rest.len() >= 4 || rest.iter().any(|&b| b != 0)`"""
    from .common import disjunct_relations, rel_text
    from ..bits import BitEval, Unsupported
    rule = "R2c-demo-finish"
    b = prog.one(P + "Unpacker::finish")
    ir = IR(b)
    warns = [(bi, t) for bi, t in b.calls() if (t.get("callee") or "").endswith("::warn")]
    sites = []
    for bi, t in warns:
        from .common import holds_at
        if any(r[0] == "bool" and "demo" in show(strip_sites(r[1])) and r[2] is True for r in holds_at(ir, bi)):
            sites.append((bi, t))
    rep.floor(rule, len(sites), 1, "demo-mode warn(ExcessData) in Unpacker::finish")
    be = BitEval(prog)
    for bi, t in sites:
        rels = disjunct_relations(b, ir, bi)
        len_ok = any(r[0] != "bool" and r[1] == "Ge" and r[0][0] == "len" and r[2][0] == "c" and r[2][1] == 4 for r in rels)
        any_ok = False
        for r in rels:
            e = r[1] if r[0] == "bool" else None
            if e is not None and r[2] is True and e[0] == "call" and e[1].endswith("::any"):
                cl = [x for x in walk(e) if isinstance(x, tuple) and x and x[0] == "agg" and x[1] == "closure"]
                if cl:
                    try:
                        ce, rb = be.ret_expr(cl[0][2])
                        if ce[0] == "bin" and ce[1] == "Ne" and ce[3][0] == "c" and ce[3][1] == 0:
                            any_ok = True
                    except Unsupported:
                        pass
        rep.ob(rule, "excess data in a demo message", len_ok and any_ok,
               "warned about iff rest.len() >= 4 or a left-over byte is non-zero" if len_ok and any_ok else
               "the demo-mode excess test is %s: canonical zero padding of up to 3 bytes must not warn, anything else must"
               % ("; ".join(rel_text(r) for r in rels) or "not recognised"), b.loc(t.get("ln")))
