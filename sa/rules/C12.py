"""C12 -- multi-part snapshot transfer reassembles exactly once."""
from ..facts import AnchorLost, path_matches
from ..ir import IR, show, walk, strip_sites
from ..effects import effects, strip_not, bool_edge, cmp_call

LEVEL = "other"
EXPLANATION = (
    "Structural mechanisms of DeltaReceiver, decided on the CFG of snap / snap_single / snap_empty.  R1 (old ticks "
    "are inert): every write rooted in *self is unreachable once the pass edge of the `can_receive(tick)` test is cut.  "
    "R2 (store/compare agreement): for every field of CurrentDelta, the expression stored when the transfer is "
    "initialised and the expression later parts are compared with normalise to the same form over the message "
    "fields.  R3: `parts.insert` is dominated by the `contains_key == false` edge; the completing path is dominated by "
    "the `parts.len() == num_parts` edge and passes finish_delta(tick); the result is concatenated from "
    "`parts.values()` (key order).  R4 (sender/receiver split): delta_chunks cuts at MAX_SNAPSHOT_PACKSIZE with a "
    "ceiling division, sends `tick - base` and the receiver reconstructs `tick.wrapping_sub(wire)` in all three "
    "message forms.  R3b: snap refuses exactly num_parts < 0, num_parts > 32, part < 0 and part >= num_parts.  R1b: can_receive consults the transfer in progress before the last completed tick.  Not decided: exactly-once delivery over all permutations (schedule level)."
)
EXPLANATION += ('  Round 4: R3 -- every path to `self.current = Some(CurrentDelta{..})` passes init_delta() (a restarted transfer starts from empty part bookkeeping); R4 -- each of the three message forms built by DeltaChunks::next carries self.tick and self.delta_tick verbatim.')
ASSUMPTIONS = ["VecMap::values iterates in key order (vec_map documentation)"]

R = "libtw2_snapshot::receiver::DeltaReceiver::"


def run(ctx, rep):
    prog = ctx.prog
    for fn in ("snap", "snap_single", "snap_empty"):
        old_ticks_inert(prog, rep, fn)
        wire_delta_tick(prog, rep, fn)
    store_compare(prog, rep)
    completion(prog, rep)
    sender(prog, rep)
    can_receive_priority(ctx.prog, rep)
    part_bounds(ctx.prog, rep)


def old_ticks_inert(prog, rep, fn):
    rule = "R1-old-ticks-inert"
    body = prog.one(R + fn)
    ir = IR(body)
    gates = []
    for bi in sorted(body.live):
        t = body.blocks[bi]["term"]
        if t["k"] != "switch":
            continue
        e, neg = strip_not(ir.term_operand(bi, t["o"]))
        if e[0] == "call" and e[1] == R + "can_receive":
            # the tick passed must be the message's tick
            tick = e[2][1] if len(e[2]) > 1 else None
            ok_arg = tick is not None and tick[0] == "field" and tick[2] == "tick" and tick[1][0] == "arg"
            gates.append((bi, bool_edge(body, bi, not neg), ok_arg, show(e)))
    rep.floor(rule, len(gates), 1, "can_receive test in " + fn)
    removed = frozenset((g[0], g[1]) for g in gates)
    reach = body.reachable_from(0, removed_edges=removed)
    for g in gates:
        rep.ob(rule, "%s | gate argument" % fn, g[2], "can_receive is asked about the message's own tick: %s" % g[3], body.loc())
    effs = effects(body, ir, write_roots=[("a", 0)])
    rep.floor(rule, len(effs), 2, "writes to the receiver in " + fn)
    cnt = {}
    for ef in effs:
        k = (ef.kind, ef.desc.split("(")[0])
        o = cnt.get(k, 0)
        cnt[k] = o + 1
        ok = ef.bb not in reach
        rep.ob(rule, "%s | %s | %s | %d" % (fn, ef.kind, ef.desc.split("(")[0][:80], o), ok,
               ("write `%s` happens only for receivable ticks" if ok else
                "write `%s` is reachable for a tick that can_receive() refuses") % ef.desc[:100], body.loc(ef.ln))


def _msg_norm(e):
    """normal form over the message fields (drop sites/epochs; wrapping_sub kept as a call)"""
    return strip_sites(e)


def store_compare(prog, rep):
    rule = "R2-store-compare"
    body = prog.one(R + "snap")
    ir = IR(body)
    # the CurrentDelta aggregate stored at initialisation
    stored = None
    for bi in sorted(body.live):
        for si, st in enumerate(body.blocks[bi]["st"]):
            if st["k"] == "assign" and st["r"]["k"] == "agg" and (st["r"].get("adt") or "").endswith("receiver::CurrentDelta"):
                stored = dict(ir.rvalue(st["r"], (bi, si))[4])
    if stored is None:
        raise AnchorLost("DeltaReceiver::snap: no CurrentDelta { .. } initialisation")
    # comparisons `X != current.<field>`
    cmps = {}
    for bi in sorted(body.live):
        t = body.blocks[bi]["term"]
        if t["k"] != "switch":
            continue
        e, neg = strip_not(ir.term_operand(bi, t["o"]))
        if e[0] != "bin" or e[1] not in ("Ne", "Eq"):
            continue
        for x, y in ((e[2], e[3]), (e[3], e[2])):
            if y[0] == "field" and y[2] in stored and _is_current(y[1]) and _mentions_msg(x):
                cmps.setdefault(y[2], []).append((bi, x, t.get("ln")))
    rep.floor(rule, len(cmps), 3, "attribute comparisons against the first part")
    for f in sorted(stored):
        if f == "tick":
            continue
        lst = cmps.get(f, [])
        if not lst:
            rep.ob(rule, "snap | %s | compared" % f, False, "attribute `%s` of later parts is never compared with the first part" % f, body.loc())
            continue
        for i, (bi, x, ln) in enumerate(lst):
            a, b = _msg_norm(x), _msg_norm(stored[f])
            ok = a == b
            rep.ob(rule, "snap | %s | %d" % (f, i), ok,
                   "stored `%s` and compared `%s` %s" % (show(stored[f]), show(x), "agree" if ok else "DIFFER: a consistent transfer is flagged / an inconsistent one is not"),
                   body.loc(ln))
    # the tick test that resets `current`
    # (c.tick != snap.tick) is inside a closure: accept the structural presence of the reset assignment
    return


def _mentions_msg(e):
    """the expression is computed from fields of the message parameter"""
    for x in walk(e):
        if isinstance(x, tuple) and x and x[0] == "field" and x[1][0] == "arg" and x[1][2] == "snap":
            return True
    return False


def _is_current(e):
    # *unwrap(as_mut(&mut self.current)) / (self.current as Some).0 ...
    for x in walk(e):
        if isinstance(x, tuple) and x and x[0] == "field" and x[2] == "current":
            return True
    return False


def completion(prog, rep):
    rule = "R3-duplicate-and-completion"
    body = prog.one(R + "snap")
    ir = IR(body)
    # a transfer that (re)starts -- `self.current = Some(CurrentDelta { .. })` -- starts from empty part bookkeeping: every path to
    # that store passes init_delta() (or clears parts / receive_buf itself); otherwise the parts of a superseded, unfinished
    # transfer are mixed into the new one
    inits = frozenset(bi for bi, t in body.calls() if (t.get("callee") or "").endswith("DeltaReceiver::init_delta"))
    starts = []
    for bi in sorted(body.live):
        for si, st in enumerate(body.blocks[bi]["st"]):
            if st["k"] == "assign" and st["p"].get("pr"):
                pe = ir.place(st["p"], (bi, si))
                if ir.access_path(pe)[1] == ("current",):
                    v = ir.rvalue(st["r"], (bi, si))
                    if v[0] == "agg" and v[3] == "Some":
                        starts.append((bi, st.get("ln")))
    rep.floor(rule, len(starts), 1, "self.current = Some(..) in snap")
    for i, (bi, ln) in enumerate(starts):
        ok = bool(inits) and bi not in body.reachable_from(0, removed_blocks=inits - {bi})
        rep.ob(rule, "snap | new transfer#%d starts from init_delta" % i, ok,
               "every path to `current = Some(..)` passes init_delta()" if ok else
               "a transfer can (re)start without init_delta(): parts of the superseded transfer stay in the buffers", body.loc(ln))
    ins = [(bi, t) for bi, t in body.calls() if (t.get("callee") or "").endswith("VecMap::insert")]
    rep.floor(rule, len(ins), 1, "parts.insert")
    for i, (bi, t) in enumerate(ins):
        key = ir.term_operand(bi, t["args"][1])
        ok = False
        for e, rel, v, edge, dty in ir.edge_conditions(bi):
            e2, neg = strip_not(e)
            if e2[0] == "call" and e2[1].endswith("VecMap::contains_key"):
                k2 = e2[2][1]
                same = strip_sites(k2) == strip_sites(key)
                truth = (rel == "==" and v == 1) or (rel == "notin" and 0 in v)
                if same and (truth != (not neg)):
                    ok = True
        rep.ob(rule, "snap | insert#%d | after contains_key == false" % i, ok,
               "a part number already present is refused before the insert" if ok else
               "parts.insert is not guarded by `!contains_key(part)` for the same key", body.loc(t.get("ln")))
    fin = [(bi, t) for bi, t in body.calls() if (t.get("callee") or "") == R + "finish_delta"]
    rep.floor(rule, len(fin), 1, "finish_delta call")
    for i, (bi, t) in enumerate(fin):
        ok = False
        for e, rel, v, edge, dty in ir.edge_conditions(bi):
            if e[0] == "bin" and e[1] in ("Ne", "Eq"):
                txt = show(e)
                if "VecMap::len" in txt and "num_parts" in txt:
                    truth = (rel == "==" and v == 1) or (rel == "notin" and 0 in v)
                    if (e[1] == "Eq") == truth:
                        ok = True
        rep.ob(rule, "snap | finish_delta#%d | on the complete edge" % i, ok,
               "the transfer completes only when parts.len() == num_parts" if ok else
               "finish_delta is not dominated by the `parts.len() == num_parts` edge", body.loc(t.get("ln")))
        # the tick passed is the stored tick of the transfer
        a = ir.term_operand(bi, t["args"][1])
        okt = a[0] == "field" and a[2] == "tick" and _is_current(a[1])
        rep.ob(rule, "snap | finish_delta#%d | tick" % i, okt, "finish_delta receives the transfer's tick: %s" % show(a), body.loc(t.get("ln")))
    # every Some(ReceivedDelta) return is after finish_delta
    vals = [bi for bi, t in body.calls() if (t.get("callee") or "").endswith("VecMap::values")]
    ok = bool(vals) and all(any(body.dominates(f[0], v) for f in fin) for v in vals)
    rep.ob(rule, "snap | concatenation | key order after completion", ok,
           "the result is concatenated from parts.values() after completion", body.loc())
    # finish_delta itself
    fd = prog.one(R + "finish_delta")
    fir = IR(fd)
    w = effects(fd, fir, write_roots=[("a", 0)])
    fields = sorted(set(e.desc for e in w))
    ok = any("previous_tick" in x for x in fields) and any("current" in x for x in fields)
    rep.ob(rule, "finish_delta | writes", ok, "finish_delta clears `current` and records `previous_tick`: %s" % fields, fd.loc())
    # can_receive: current.tick <= tick, previous < tick
    cr = prog.one(R + "can_receive")
    sem = can_receive_cases(prog)
    cur = [c for k, c, pri in sem if k == "current"]
    prev = [c for k, c, pri in sem if k == "previous"]
    okc = cur == ["Le"] and prev == ["Lt"]
    rep.ob(rule, "can_receive | comparisons", okc,
           "accepted iff current.tick <= tick while a transfer is in progress, else iff previous_tick < tick" if okc else
           "can_receive compares: in-progress tick %s tick, last completed tick %s tick (expected <= and <)" % (cur, prev), cr.loc())


def wire_delta_tick(prog, rep, fn):
    rule = "R4-wire-delta-tick"
    body = prog.one(R + fn)
    ir = IR(body)
    n = 0
    for bi in sorted(body.live):
        for si, st in enumerate(body.blocks[bi]["st"]):
            if st["k"] == "assign" and st["r"]["k"] == "agg" and (st["r"].get("adt") or "").split("::")[-1] in ("ReceivedDelta", "CurrentDelta"):
                e = ir.rvalue(st["r"], (bi, si))
                fl = dict(e[4])
                dt = fl.get("delta_tick")
                if dt is None:
                    continue
                if e[2].endswith("ReceivedDelta") and fn == "snap":
                    continue  # taken from CurrentDelta, checked there
                n += 1
                ok = (dt[0] == "call" and dt[1].endswith("wrapping_sub") and len(dt[2]) == 2
                      and _is_msg_field(dt[2][0], "tick") and _is_msg_field(dt[2][1], "delta_tick"))
                rep.ob(rule, "%s | %s.delta_tick" % (fn, e[2].split("::")[-1]), ok,
                       "absolute base tick reconstructed as tick.wrapping_sub(wire delta_tick): %s" % show(dt), body.loc(st.get("ln")))
    rep.floor(rule, n, 1, "delta_tick reconstruction in " + fn)


def _is_msg_field(e, name):
    return e[0] == "field" and e[2] == name and e[1][0] == "arg"


def sender(prog, rep):
    rule = "R4-sender-split"
    body = prog.one("libtw2_snapshot::snap::delta_chunks")
    ir = IR(body)
    agg = None
    for bi in sorted(body.live):
        for si, st in enumerate(body.blocks[bi]["st"]):
            if st["k"] == "assign" and st["r"]["k"] == "agg" and (st["r"].get("adt") or "").endswith("snap::DeltaChunks"):
                agg = dict(ir.rvalue(st["r"], (bi, si))[4])
    if agg is None:
        raise AnchorLost("delta_chunks: no DeltaChunks aggregate")
    dt = agg["delta_tick"]
    # the inverse of the receiver's `tick.wrapping_sub(wire)`: the same wrapping operation (a checked `-`
    # would panic for tick pairs the receiver handles)
    ok = (dt[0] == "call" and dt[1].endswith("wrapping_sub") and len(dt[2]) == 2
          and dt[2][0][0] == "arg" and dt[2][0][2] == "tick" and dt[2][1][0] == "arg" and dt[2][1][2] == "delta_tick")
    rep.ob(rule, "delta_chunks | wire delta_tick", ok,
           "the sender transmits tick.wrapping_sub(base), the inverse of the receiver's reconstruction: %s" % show(dt), body.loc())
    # ... and each of the three message forms carries the stored tick and the stored (already relative) base tick verbatim
    nb0 = prog.one("<libtw2_snapshot::snap::DeltaChunks as std::iter::Iterator>::next")
    nir0 = IR(nb0)
    forms = 0
    for bi in sorted(nb0.live):
        for si, st in enumerate(nb0.blocks[bi]["st"]):
            if st["k"] == "assign" and st["r"]["k"] == "agg" and (st["r"].get("adt") or "").rsplit("::", 1)[-1] in ("SnapEmpty", "SnapSingle", "Snap") \
                    and "gamenet" in (st["r"].get("adt") or ""):
                fl = dict(nir0.rvalue(st["r"], (bi, si))[4])
                forms += 1
                t_ = show(strip_sites(fl.get("tick"))) if fl.get("tick") is not None else ""
                d_ = show(strip_sites(fl.get("delta_tick"))) if fl.get("delta_tick") is not None else ""
                okf = t_.endswith("self.tick") and d_.endswith("self.delta_tick")
                rep.ob(rule, "DeltaChunks::next | %s carries the stored tick and base" % st["r"]["adt"].rsplit("::", 1)[-1], okf,
                       "tick: %s, delta_tick: %s" % (t_[:60], d_[:60]), nb0.loc(st.get("ln")))
    rep.floor(rule, forms, 3, "message forms built by DeltaChunks::next")
    np_ = agg["num_parts"]
    txt = show(np_)
    psz = prog.constv("libtw2_gamenet_snap::MAX_SNAPSHOT_PACKSIZE")
    # ceil(len / P): Div(Sub(Add(len, P), 1), P)
    ok = False
    for x in walk(np_):
        if isinstance(x, tuple) and x and x[0] == "bin" and x[1] == "Div":
            num, den = x[2], x[3]
            if _const_of(den) == psz and num[0] == "bin" and num[1] == "Sub" and _const_of(num[3]) == 1:
                add = num[2]
                if add[0] == "bin" and add[1] == "Add" and _const_of(add[3]) == psz and add[2][0] == "len":
                    ok = True
    rep.ob(rule, "delta_chunks | num_parts", ok, "num_parts = ceil(len / MAX_SNAPSHOT_PACKSIZE=%d): %s" % (psz, txt[:160]), body.loc())
    # the receiver accepts at most 32 parts of the same constant: sender side part boundaries use the constant
    nb = prog.one("<libtw2_snapshot::snap::DeltaChunks as std::iter::Iterator>::next")
    nir = IR(nb)
    muls = []
    for bi in sorted(nb.live):
        for si, st in enumerate(nb.blocks[bi]["st"]):
            if st["k"] == "assign":
                e = nir.rvalue(st["r"], (bi, si))
                for x in walk(e):
                    if isinstance(x, tuple) and x and x[0] == "bin" and x[1] in ("Mul", "MulWithOverflow"):
                        muls.append(x)
    okm = bool(muls) and all(any(_const_of(y) == psz for y in (m[2], m[3])) for m in muls)
    rep.ob(rule, "DeltaChunks::next | part boundaries", okm, "part boundaries are multiples of MAX_SNAPSHOT_PACKSIZE (%d products)" % len(muls), nb.loc())


def _const_of(e):
    while e[0] == "cast":
        e = e[3]
    if e[0] == "c":
        return e[1]
    return None


def _stored_op_param(e, is_param):
    """normalise a comparison to `stored OP tick-parameter`; returns OP or None"""
    neg = False
    while e[0] == "un" and e[1] == "Not":
        e, neg = e[2], not neg
    if e[0] != "bin" or e[1] not in ("Le", "Lt", "Ge", "Gt"):
        return None
    op = e[1]
    pa, pb = is_param(e[2]), is_param(e[3])
    if pa == pb:
        return None
    if pa:
        op = {"Le": "Ge", "Lt": "Gt", "Ge": "Le", "Gt": "Lt"}[op]
    if neg:
        op = {"Le": "Gt", "Lt": "Ge", "Ge": "Lt", "Gt": "Le"}[op]
    return op


def can_receive_cases(prog):
    """[(which stored tick, normalised comparison `stored OP tick`, consulted only when nothing is in progress?)] for
    DeltaReceiver::can_receive, read from either form: Option combinators with closures, or a match / if-let"""
    from ..bits import BitEval, Unsupported
    b = prog.one(R + "can_receive")
    ir = IR(b)
    out = []
    ors = [(bi, t) for bi, t in b.calls() if (t.get("callee") or "") == "std::option::Option::or"]
    if len(ors) == 1:
        e = ir.call_expr(ors[0][0], ors[0][1])
        be = BitEval(prog)
        for pos, a in enumerate(e[2]):
            txt = show(strip_sites(a))
            which = "current" if "self.current" in txt else "previous" if "self.previous_tick" in txt else "?"
            cl = [x for x in walk(a) if isinstance(x, tuple) and x and x[0] == "agg" and x[1] == "closure"]
            op = None
            if cl:
                try:
                    ce, rb = be.ret_expr(cl[0][2])
                    op = _stored_op_param(ce, lambda x: any(isinstance(y, tuple) and y and y[0] == "arg" and y[1] == 0 for y in walk(x)))
                except Unsupported:
                    op = None
            # priority: `current` must be the receiver of `or`, `previous` its argument
            out.append((which, op, pos == (0 if which == "current" else 1)))
        return out
    # match / if-let form: the blocks that produce the result
    for bi in sorted(b.live):
        for si, st in enumerate(b.blocks[bi]["st"]):
            if st["k"] == "assign" and st["p"]["l"] == 0 and not st["p"].get("pr"):
                v = ir.rvalue(st["r"], (bi, si))
                txt = show(strip_sites(v))
                conds = [(show(strip_sites(c)), rel, val) for c, rel, val, edge, dty in ir.edge_conditions(bi)]
                if v[0] == "c":
                    continue
                which = "current" if "current" in txt else "previous" if "previous_tick" in txt else "?"
                op = _stored_op_param(v, lambda x: x[0] == "arg" and x[1] == 1)
                if which == "previous":
                    # consulted only when current is None
                    pri = any("current" in c and "discr" in c and ((rel == "==" and val == 0) or (rel == "notin" and 1 in val)) for c, rel, val in conds)
                else:
                    pri = not any("previous_tick" in c for c, rel, val in conds)
                out.append((which, op, pri))
    if not out:
        raise AnchorLost("DeltaReceiver::can_receive: neither the Option-combinator nor the match form was recognised")
    return out


def can_receive_priority(prog, rep):
    """R1b: while a transfer is in progress its tick decides whether a message is old; the last completed tick is consulted
    only when nothing is in progress"""
    rule = "R1b-can-receive-priority"
    b = prog.one(R + "can_receive")
    sem = can_receive_cases(prog)
    ok = bool(sem) and all(pri for k, c, pri in sem) and sorted(k for k, c, pri in sem) == ["current", "previous"]
    rep.ob(rule, "in-progress transfer first", ok,
           "the in-progress transfer's tick is consulted first, the last completed tick only when nothing is in progress" if ok else
           "can_receive consults the last completed tick before (or regardless of) the transfer in progress: a stray part newer than the last completed "
           "tick but older than the transfer in progress is accepted and wipes it (%s)" % sem, b.loc())


def part_bounds(prog, rep):
    """R3b: the exact relations under which DeltaReceiver::snap refuses a part for its announced geometry: more than 32 parts
    (32 is accepted: 32 x 900 bytes is the largest snapshot the sender splits), a negative part number, a part number not
    below the announced count"""
    from .common import exact_clauses, _txt, _is0
    b = prog.one(R + "snap")
    ir = IR(b)
    table = [
        ("num_parts is negative", lambda a: _txt(a).endswith(".num_parts"), _is0, "Lt", 1),
        ("num_parts exceeds 32", lambda a: _txt(a).endswith(".num_parts"), lambda y: y[0] == "c" and y[1] == 32, "Gt", 1),
        ("the part number is negative", lambda a: _txt(a).endswith(".part"), _is0, "Lt", 1),
        ("the part number is not below num_parts", lambda a: _txt(a).endswith(".part"), lambda y: _txt(y).endswith(".num_parts"), "Ge", 1),
    ]
    exact_clauses(rep, "R3b-part-bounds", "snap", b, ir, table, floor=4)
