"""C11 -- snapshot and delta parsers are total and enforce their limits."""
from .common import standard_totality
from ..facts import AnchorLost, path_matches
from ..ir import IR, show, walk, strip_sites
from ..guards import Reasoner, Lin

LEVEL = "other"
EXPLANATION = (
    "R1 (totality, including the follow-up operations the statement lists): every panic site reachable from the public API of "
    "snapshot::snap and snapshot::format (Snap/RawSnap/Delta read*, items, item, crc, write*, recycle, Delta::create, builders) "
    "follows from its dominating guards or is a reviewed line; loops are iterator/reader driven or reviewed.  R2 (single choke "
    "point for the limits): the only bodies that insert into RawSnap.offsets or grow RawSnap.buf are prepare_item_vacant (and "
    "clear); its entry.insert and buf.extend are dominated by the MAX_SNAPSHOT_ITEMS and MAX_SNAPSHOT_SIZE tests, whose constants "
    "evaluate to 1024 and 65536.  R3 (allocation proportional to input): in Delta::read_impl every buf.push is paired with a "
    "successful read_int in the same loop, and the id conversions are range-checked (TypeIdRange, IdRange, NegativeSize, "
    "TooLongDiff clauses present).  R4: a delta that resizes an existing item is refused before apply_item_delta (the guard added "
    "by the D13 repair).  R2b: both limit tests are about the snapshot after the insertion (num_items + 1; the same offset + size that becomes the new range's end).  R5: Snap::type_id's reviewed unwrap rests on build_from_raw checking the registry for every type number >= OFFSET_EXTENDED_TYPE_ID (shared with C10 R3).  Not decided: `written out and read back equal` (value level)."
)
ASSUMPTIONS = [
    "std collections do not panic outside the listed APIs; allocation failure is out of scope",
    "reviewed table lines confirmed by reading the code; SUSPECT lines are not trusted",
]
TABLES = ["snapshot", "packer", "buffer", "common", "looptable", "postfix"]
S = "libtw2_snapshot::snap::"


def run(ctx, rep):
    R, pa = standard_totality(ctx, rep, "C11", TABLES, rule="R1-no-panic")
    choke_point(ctx.prog, rep)
    proportional(ctx.prog, rep)
    resize_guard(ctx.prog, rep)
    limits_count_new_item(ctx.prog, rep)
    # the reviewed unwrap of Snap::type_id rests on build_from_raw's registry clause (shared with C10 R3)
    from .C10 import type_id_clause
    from ..report import Report
    sub = Report("C10", rep.tier, rep.seed)
    type_id_clause(ctx.prog, sub)
    for o in sub.obs:
        rep.ob("R5-registry-clause", o["key"].split(" | ", 2)[2], o["ok"], o["detail"], o["at"])
    from .common import check_refusal_inventory
    check_refusal_inventory(ctx.prog, rep, "R6-refusal-inventory", ("libtw2_snapshot::format::",))


def choke_point(prog, rep):
    rule = "R2-limit-choke-point"
    # who mutates RawSnap.offsets (insert) / RawSnap.buf (extend/push/resize)
    ins, grow = set(), set()
    for b in prog.bodies.values():
        if b.is_test or b.crate != "libtw2_snapshot":
            continue
        ir = None
        for bi, t in b.calls():
            f = t.get("callee") or ""
            if f.endswith("VacantEntry::insert") or f.endswith("BTreeMap::insert") or f.endswith("Entry::or_insert"):
                ir = ir or IR(b)
                ty = b.locals[(t["args"][0].get("mv") or t["args"][0].get("cp") or {"l": 0})["l"]]["ty"]
                if "i32, std::ops::Range<u32>" in ty or "Range<u32>" in ty:
                    # distinguish RawSnap.offsets from Delta.updated_items by the owning function
                    ins.add(b.id)
            if f.endswith("Vec::extend") or f.endswith("Extend>::extend") or f.endswith("Vec::push") or f.endswith("Vec::resize"):
                ir = ir or IR(b)
                a0 = ir.term_operand(bi, t["args"][0])
                if "Vec<i32>" in (ir.type_of(a0) or b.locals[(t["args"][0].get("mv") or t["args"][0].get("cp"))["l"]]["ty"]):
                    root, path = ir.access_path(a0)
                    # RawSnap.buf itself (self.buf / self.raw.buf), or the `buf` handed to prepare_item_vacant
                    if (path and path[-1] == "buf" and "RawSnap" in (b.raw.get("self_ty") or "")) or b.id.endswith("prepare_item_vacant"):
                        grow.add(b.id)
    raw_ins = set(x for x in ins if "RawSnap" in x)
    raw_grow = set(x for x in grow if "RawSnap" in x)
    ok = raw_ins == {S + "RawSnap::prepare_item_vacant"}
    rep.ob(rule, "only prepare_item_vacant inserts into RawSnap.offsets", ok, "inserting bodies: %s" % sorted(raw_ins), None)
    okg = raw_grow == {S + "RawSnap::prepare_item_vacant"}
    rep.ob(rule, "only prepare_item_vacant grows RawSnap.buf", okg,
           "bodies growing RawSnap.buf: %s" % sorted(raw_grow), None)
    b = prog.one(S + "RawSnap::prepare_item_vacant")
    ir = IR(b)
    rs = Reasoner(ir, prog)
    mi = prog.constv("libtw2_snapshot::snap::MAX_SNAPSHOT_ITEMS") if "libtw2_snapshot::snap::MAX_SNAPSHOT_ITEMS" in prog.consts else None
    ms = prog.constv("libtw2_snapshot::snap::MAX_SNAPSHOT_SIZE") if "libtw2_snapshot::snap::MAX_SNAPSHOT_SIZE" in prog.consts else None
    rep.ob(rule, "limit constants", mi == 1024 and ms == 65536, "MAX_SNAPSHOT_ITEMS = %s, MAX_SNAPSHOT_SIZE = %s" % (mi, ms), None)
    sites = [(bi, t) for bi, t in b.calls() if (t.get("callee") or "").endswith("VacantEntry::insert") or (t.get("callee") or "").endswith("::extend")]
    rep.floor(rule, len(sites), 2, "insert/extend in prepare_item_vacant")
    for bi, t in sites:
        conds = ir.edge_conditions(bi)
        c_items = any(e[0] == "bin" and e[1] in ("Gt", "Le", "Lt", "Ge") and any(isinstance(x, tuple) and x and x[0] == "c" and x[1] == mi for x in walk(e)) for e, _, _, _, _ in conds)
        c_size = any(e[0] == "bin" and e[1] in ("Gt", "Le", "Lt", "Ge") and any(isinstance(x, tuple) and x and x[0] == "c" and x[1] == ms for x in walk(e)) and "serialized_ints_size" in show(e) for e, _, _, _, _ in conds)
        rep.ob(rule, "%s dominated by both limit tests" % (t.get("callee") or "").rsplit("::", 1)[-1], c_items and c_size,
               "item-count test present: %s, size test present: %s" % (c_items, c_size), b.loc(t.get("ln")))


def proportional(prog, rep):
    rule = "R3-input-proportional"
    b = prog.one(S + "Delta::read_impl")
    ir = IR(b)
    pushes = [bi for bi, t in b.calls() if (t.get("callee") or "").endswith("Vec::push")]
    rep.floor(rule, len(pushes), 1, "buf.push in Delta::read_impl")
    for pb in pushes:
        t = b.blocks[pb]["term"]
        v = ir.term_operand(pb, t["args"][1])
        ok = any(isinstance(x, tuple) and x and x[0] == "call" and x[1].endswith("read_int_err") for x in walk(v))
        rep.ob(rule, "pushed value is a freshly read int", ok, "buf.push(%s)" % show(v)[:80], b.loc(t.get("ln")))
    # the error clauses
    errs = set()
    for bi in sorted(b.live):
        for st in b.blocks[bi]["st"]:
            if st["k"] == "assign" and st["r"]["k"] == "agg" and (st["r"].get("adt") or "").endswith("snap::Error"):
                errs.add(st["r"]["variant"])
    for bi, t in b.calls():
        for a in t["args"]:
            e = ir.term_operand(bi, a)
            for x in walk(e):
                if isinstance(x, tuple) and x and x[0] == "agg" and (x[2] or "").endswith("snap::Error"):
                    errs.add(x[3])
    want = {"TypeIdRange", "IdRange", "NegativeSize", "TooLongDiff"}
    rep.ob(rule, "range clauses of the delta reader", want <= errs, "error clauses present in read_impl: %s" % sorted(errs), b.loc())


def resize_guard(prog, rep):
    rule = "R4-resize-refused"
    b = prog.one(S + "RawSnap::read_with_delta")
    ir = IR(b)
    ap = [(bi, t) for bi, t in b.calls() if (t.get("callee") or "").endswith("format::apply_item_delta")]
    rep.floor(rule, len(ap), 1, "apply_item_delta call")
    for bi, t in ap:
        rs = Reasoner(ir, prog)
        facts, nes = rs.facts_at(bi)
        d = rs.len_lin(ir.term_operand(bi, t["args"][1]))
        o = rs.len_lin(ir.term_operand(bi, t["args"][2]))
        ok = d is not None and o is not None and rs.prove(d.sub(o), facts) and rs.prove(o.sub(d), facts)
        rep.ob(rule, "len(diff) == len(out) at apply_item_delta", ok,
               "the update of an existing item with a different size is refused before apply_item_delta" if ok else
               "apply_item_delta can be reached with len(diff) != len(out): its assert panics on a resizing delta", b.loc(t.get("ln")))


def limits_count_new_item(prog, rep):
    """R2b: the two limit tests of prepare_item_vacant are about the snapshot *after* the insertion: the item count tested is
    num_items + 1 and the size tested is computed from the same `offset + size` that becomes the end of the new item's range"""
    rule = "R2b-limits-count-the-new-item"
    S_ = "libtw2_snapshot::snap::"
    b = prog.one(S_ + "RawSnap::prepare_item_vacant")
    ir = IR(b)
    calls = [(bi, t) for bi, t in b.calls() if (t.get("callee") or "") == S_ + "RawSnap::serialized_ints_size"]
    rep.floor(rule, len(calls), 1, "serialized_ints_size(..) in prepare_item_vacant")
    # both limits are inclusive: a snapshot with exactly MAX_SNAPSHOT_ITEMS items / exactly MAX_SNAPSHOT_SIZE bytes is accepted
    from .common import exact_clauses, _txt
    mi = prog.constv("libtw2_snapshot::format::MAX_SNAPSHOT_ITEMS") if "libtw2_snapshot::format::MAX_SNAPSHOT_ITEMS" in prog.consts else None
    table = [
        ("the item count after insertion exceeds MAX_SNAPSHOT_ITEMS", lambda a: a[0] == "bin" and a[1] == "Add" and "num_items" in _txt(a),
         lambda y: y[0] == "c" and (len(y) > 3 and "MAX_SNAPSHOT_ITEMS" in (y[3] or "")), "Gt", 1),
        ("the serialized size after insertion exceeds MAX_SNAPSHOT_SIZE", lambda a: "serialized_ints_size" in _txt(a),
         lambda y: y[0] == "c" and (len(y) > 3 and "MAX_SNAPSHOT_SIZE" in (y[3] or "")), "Gt", 1),
    ]
    exact_clauses(rep, rule, "prepare_item_vacant", b, ir, table, floor=2)
    end = None
    for bi in sorted(b.live):
        for si, st in enumerate(b.blocks[bi]["st"]):
            if st["k"] == "assign" and st["r"]["k"] == "agg" and (st["r"].get("adt") or "").endswith("ops::Range"):
                e = ir.rvalue(st["r"], (bi, si))
                end = dict(e[4]).get("end")
    x = end
    while x is not None and x[0] == "call" and "Cast" in x[1] and x[2]:
        x = x[2][0]
    for bi, t in calls:
        e = ir.call_expr(bi, t)
        a0, a1 = strip_sites(e[2][0]), strip_sites(e[2][1])
        ok1 = x is not None and a1 == strip_sites(x)
        ok0 = a0[0] == "bin" and a0[1] == "Add" and a0[3][0] == "c" and a0[3][1] == 1
        rep.ob(rule, "size test uses the end of the new item", ok1,
               "serialized_ints_size(.., %s) and the inserted range ends at the same value" % show(a1) if ok1 else
               "the size limit is tested on `%s` but the new item ends at `%s`: the item being inserted is not counted" % (show(a1), show(strip_sites(x)) if x else "?"),
               b.loc(t.get("ln")))
        rep.ob(rule, "count test includes the new item", ok0, "serialized_ints_size(%s, ..)" % show(a0), b.loc(t.get("ln")))
