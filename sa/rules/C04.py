"""C04 -- everything the connection layer sends is well-formed; bad sends are refused."""
from .common import standard_totality
from ..facts import AnchorLost, path_matches, norm_path
from ..ir import IR, show, walk, strip_sites
from ..guards import Reasoner, Lin
from ..effects import effects, strip_not, bool_edge

LEVEL = "other"
EXPLANATION = (
    "R3 (no panic from valid calls): every panic site reachable from the public API of connection, connection7 and net "
    "follows from its dominating guards -- including, through exported preconditions, the chunk-size assert of "
    "write_chunk_impl against the TooLongData test of send (budget B1) -- or is a reviewed line (documented API "
    "preconditions: assert_online, reset/connect state asserts, NUL-free reason).  R1 (<= 1400 bytes by construction): the "
    "only callers of Callback::send in the net crate are the two packet builders, the argument is the slice returned by "
    "Packet::write into `self.buffer[..]`, and that field has type [u8; MAX_PACKETSIZE] with MAX_PACKETSIZE evaluated to 1400.  "
    "R2 (budgets over constants extracted from the code): B3 HEADER_SIZE + (MAX_PAYLOAD + vital chunk header) [+ TOKEN_SIZE] "
    "<= MAX_PACKETSIZE so that the `too short buffer` unreachable! cannot fire; B4 the same quantity + token fits the 2048-byte "
    "ArrayVec buffers; B6 connless header + the largest payload write_connless_packet's own guard accepts <= MAX_PACKETSIZE; B7 (chunk count): can_fit_chunk requires "
    "num_chunks < u8::MAX and every PacketContents::write_chunk on `packet` is dominated by can_fit_chunk() == true or by a "
    "clear/flush of that packet on the same path.  R4 (count/content pairing): num_chunks is written only together with data "
    "(write_chunk, clear/new) and flush passes packet.num_chunks with &packet.data of the same packet.  R5 (canonical output): "
    "no warning-tested header bit can be set by pack -- decided bit-exactly by C05 R1 (`warnings only on non-canonical bits`), "
    "re-evaluated here.  R6 (build then reset): OnlineState::flush modifies request_resend / packet / packet_nonvital only after "
    "PacketBuilder::send was called with them.  Not decided: chunk bytes bit-identical after a reader pass (value level)."
)
EXPLANATION += ('  Round 4: B7 is decided from admission edges (true edge of can_fit_chunk(..), of the emptiness test of the packet that is written and flushed -- not of a sibling --, or of a bool local holding such a decision): every write_chunk in resend is unreachable once they are cut; can_fit_chunk itself may answer true only in blocks dominated by a bound num_chunks < 255, in whatever form it is spelled.')
ASSUMPTIONS = [
    "std / arrayvec functions outside the precondition table do not panic; Callback/Warn implementations do not panic",
    "documented API preconditions (assert_online, reset/connect state, NUL-free reason of at most 127 bytes) are the caller's",
    "reviewed table lines confirmed by reading the code",
]
TABLES = ["net", "buffer", "common", "huffman", "looptable", "postfix"]


def run(ctx, rep):
    R, pa = standard_totality(ctx, rep, "C04", TABLES, rule="R3-no-panic")
    prog = ctx.prog
    for ver, mod, pmod in (("0.6", "libtw2_net::connection", "libtw2_net::protocol"),
                           ("0.7", "libtw2_net::connection7", "libtw2_net::protocol7")):
        size_by_construction(prog, rep, ver, mod, pmod)
        budgets(prog, rep, ver, mod, pmod)
        chunk_count(prog, rep, ver, mod)
        pairing(prog, rep, ver, mod)
        build_then_reset(prog, rep, ver, mod)
    canonical(ctx, rep)


def size_by_construction(prog, rep, ver, mod, pmod):
    rule = "R1-size-by-construction"
    # who calls Callback::send in this module
    callers = {}
    for b in prog.bodies.values():
        if b.is_test or not b.id.startswith("libtw2_net::"):
            continue
        for bi, t in b.calls():
            f = t.get("nf") or ""
            if f.endswith("::Callback::send") and (b.id.startswith(mod + "::") or b.id.startswith("<" + mod)):
                callers.setdefault(b.id, []).append((bi, t))
    rep.floor(rule, len(callers), 1, "%s: callers of Callback::send" % ver)
    for c, sites in sorted(callers.items()):
        ok = c == mod + "::PacketBuilder::send"
        rep.ob(rule, "%s | caller of Callback::send | %s" % (ver, c), ok,
               "datagrams leave only through PacketBuilder::send" if ok else "another function hands data to Callback::send", prog.bodies[c].loc())
        b = prog.bodies[c]
        ir = IR(b)
        for bi, t in sites:
            a = ir.term_operand(bi, t["args"][1])
            # the data is (the Ok value of) Packet::write(.., &mut self.buffer[..])
            okw = False
            for x in walk(a):
                if isinstance(x, tuple) and x and x[0] == "call" and x[1].endswith("::Packet::write"):
                    buf = x[2][1]
                    if "self.buffer" in show(buf):
                        okw = True
            rep.ob(rule, "%s | sent slice is Packet::write's output into self.buffer" % ver, okw,
                   "cb.send(data): data = %s" % show(a)[:120], b.loc(t.get("ln")))
    adt = prog.adt(mod + "::PacketBuilder")
    f = [x for x in adt["variants"][0]["fields"] if x["n"] == "buffer"]
    mp = prog.constv(pmod + "::MAX_PACKETSIZE")
    ok = bool(f) and f[0]["tj"].get("k") == "array" and f[0]["tj"].get("len") == mp == 1400
    rep.ob(rule, "%s | PacketBuilder.buffer is [u8; MAX_PACKETSIZE = 1400]" % ver, ok,
           "buffer type %s, MAX_PACKETSIZE = %s" % (f[0]["ty"] if f else "?", mp), "%s:%s" % (adt.get("file"), adt.get("ln")))


def budgets(prog, rep, ver, mod, pmod):
    rule = "R2-budgets"
    c = lambda n: prog.constv(pmod + "::" + n)
    MAXP, MAXPKT, HDR = c("MAX_PAYLOAD"), c("MAX_PACKETSIZE"), c("HEADER_SIZE")
    HV = c("CHUNK_HEADER_SIZE_VITAL")
    TOK = c("TOKEN_SIZE") if ver == "0.6" else 0
    # Amax: the constant compared with len(buffer) on the TooLongData edge of send
    send = prog.one(mod + "::Connection::send")
    ir = IR(send)
    rs = Reasoner(ir, prog)
    amax = None
    qcalls = [(bi, t) for bi, t in send.calls() if (t.get("callee") or "") == mod + "::Connection::queue"]
    rep.floor(rule, len(qcalls), 1, "%s: send -> queue" % ver)
    for bi, t in qcalls:
        facts, nes = rs.facts_at(bi)
        buf = ir.term_operand(bi, t["args"][2])
        ll = rs.len_lin(buf)
        # largest length consistent with the accepted path: try the named constants
        for cand in sorted(set([MAXP, 1023, 4095, 1400, 2048])):
            if rs.prove(ll.sub(Lin.const(cand)), facts):
                amax = cand
                break
    rep.ob(rule, "%s | Amax extracted" % ver, amax is not None, "largest payload accepted by send(): %s" % amax, send.loc())
    if amax is None:
        return
    bits = c("CHUNK_SIZE_BITS")
    rep.ob(rule, "%s | B1 Amax < 2^CHUNK_SIZE_BITS" % ver, amax < (1 << bits),
           ("accepted payloads (<= %d) fit the %d-bit chunk size field" if amax < (1 << bits) else
            "send() accepts payloads up to %d bytes but the chunk size field has only %d bits: write_chunk_impl asserts") % (amax, bits), send.loc())
    area = max(MAXP, amax + HV)
    rep.ob(rule, "%s | B3 header + chunk area + token <= MAX_PACKETSIZE" % ver, HDR + area + TOK <= MAXPKT,
           "%d + max(%d, %d + %d) + %d = %d <= %d" % (HDR, MAXP, amax, HV, TOK, HDR + area + TOK, MAXPKT), send.loc())
    # ArrayVec capacities of PacketContents.data, ResendChunk.data, token/compression buffers
    for adt_name, field in ((mod + "::PacketContents", "data"), (mod + "::ResendChunk", "data")):
        a = prog.adt(adt_name)
        f = [x for x in a["variants"][0]["fields"] if x["n"] == field][0]
        import re
        m = re.search(r"\[u8; (\d+)\]", f["ty"])
        cap = int(m.group(1)) if m else 0
        rep.ob(rule, "%s | B4 %s.%s capacity" % (ver, adt_name.rsplit("::", 1)[-1], field), area + TOK <= cap,
               "chunk area %d (+ token %d) fits the %d-byte ArrayVec" % (area, TOK, cap), "%s:%s" % (a.get("file"), a.get("ln")))
    # B6: the connectionless writer -- header bytes written first + the largest payload its own TooLongData guard lets
    # through must fit the 1400-byte datagram buffer (otherwise the `too short buffer` unreachable! of the builder fires)
    wc = prog.bodies.get(pmod + "::write_connless_packet::inner")
    if wc is None:
        raise AnchorLost("%s::write_connless_packet::inner not found" % pmod)
    wir = IR(wc)
    wrs = Reasoner(wir, prog)
    ws = [(bi, t) for bi, t in wc.calls() if (t.get("callee") or "") == "libtw2_buffer::BufferRef::write"]
    ws.sort(key=lambda x: len(wc.dom_chain(x[0])))
    rep.floor(rule, len(ws), 2, "%s: writes of write_connless_packet (header, payload)" % ver)
    if len(ws) >= 2:
        hdr_len = 0
        okh = True
        for bi, t in ws[:-1]:
            ll = wrs.len_lin(wir.term_operand(bi, t["args"][1]))
            if ll is not None and ll.is_const():
                hdr_len += ll.k
            else:
                okh = False
        if not okh:
            # packed header types: their size from the ADT facts
            hdr_len = None
            for bi, t in ws[:-1]:
                for x in walk(wir.term_operand(bi, t["args"][1])):
                    if isinstance(x, tuple) and x and x[0] == "call" and x[1].endswith("::pack"):
                        rt = wir.type_of(x)
                        a = prog.adts.get(rt or "")
                        if a is not None:
                            hdr_len = a.get("size")
        bi, t = ws[-1]
        facts, nes = wrs.facts_at(bi)
        ll = wrs.len_lin(wir.term_operand(bi, t["args"][1]))
        lmax = None
        for cand in sorted(set([MAXP, MAXPKT - HDR, MAXPKT, 1023, 2048, 4095])):
            if ll is not None and wrs.prove(ll.sub(Lin.const(cand)), facts):
                lmax = cand
                break
        okb = hdr_len is not None and lmax is not None and hdr_len + lmax <= MAXPKT
        rep.ob(rule, "%s | B6 connless header + largest accepted payload <= MAX_PACKETSIZE" % ver, okb,
               "header %s + payload limit %s (from the TooLongData guard of write_connless_packet) %s %d" % (hdr_len, lmax, "<=" if okb else "exceeds", MAXPKT), wc.loc())


def chunk_count(prog, rep, ver, mod):
    rule = "R2-B7-chunk-count"
    cf = prog.one(mod + "::PacketContents::can_fit_chunk")
    ir = IR(cf)
    # can_fit_chunk can answer `true` only where num_chunks < u8::MAX is known: every block that stores anything but the constant
    # `false` into the return place is dominated by a branch edge that bounds num_chunks below 255 (in whatever form it is written:
    # `n < 255 && ..`, an early `return false` on `n == 255`, `n != u8::MAX`, ...)
    from .common import holds_at, FLIP
    def _bounded(bi):
        for r in holds_at(ir, bi):
            if r[0] == "bool":
                continue
            a, o, b_ = r
            if "num_chunks" in show(b_) and a[0] == "c":
                a, o, b_ = b_, FLIP[o], a
            if "num_chunks" not in show(a) or b_[0] != "c":
                continue
            k = b_[1]
            ub = {"Lt": k - 1, "Le": k, "Ne": 254 if k == 255 else None, "Eq": k}.get(o)
            if ub is not None and ub <= 254:
                return True
        return False
    stores = []
    for bi in sorted(cf.live):
        for si, st in enumerate(cf.blocks[bi]["st"]):
            if st["k"] == "assign" and st["p"]["l"] == 0 and not st["p"].get("pr"):
                v = ir.rvalue(st["r"], (bi, si))
                if v[0] == "c" and v[1] == 0:
                    continue
                stores.append(bi)
    ok = bool(stores) and all(_bounded(bi) for bi in stores)
    rep.ob(rule, "%s | can_fit_chunk reads num_chunks" % ver, ok,
           "a packet with u8::MAX chunks is full" if ok else
           "the admission predicate ignores num_chunks: 256 small chunks overflow the u8 counter", cf.loc())
    # every write_chunk on `.packet` is dominated by can_fit_chunk()==true on that packet, or follows a flush/clear
    n = 0
    for fid in (mod + "::Connection::resend", mod + "::Connection::send"):
        b = prog.one(fid)
        bir = IR(b)
        if fid.endswith("::send"):
            # send: `if !can_fit { flush }` then queue() writes: queue's write is reached after can_fit true or flush
            q = [bi for bi, t in b.calls() if (t.get("callee") or "") == mod + "::Connection::queue"]
            fl = [bi for bi, t in b.calls() if (t.get("callee") or "").endswith("OnlineState::flush")]
            # the admission test must be made on the packet that flush sends (the field whose num_chunks/data
            # OnlineState::flush hands to the builder), not on a sibling
            sent = _sent_field(prog, mod)
            cfc = []
            for bi, t in b.calls():
                if (t.get("callee") or "").endswith("PacketContents::can_fit_chunk"):
                    recv = show(strip_sites(bir.term_operand(bi, t["args"][0])))
                    if recv.endswith("." + sent):
                        cfc.append(bi)
                    else:
                        rep.ob(rule, "%s | send: admission test on the sent packet" % ver, False,
                               "can_fit_chunk is asked of `%s`, but flush sends `.%s`: chunks queued there are not counted" % (recv, sent), b.loc(t.get("ln")))
            for qb in q:
                n += 1
                # removing flush blocks and the can_fit==true edge makes queue unreachable from entry
                removed = set()
                for cb_ in cfc:
                    sw = _switch_after(b, cb_)
                    if sw is not None:
                        e, neg = strip_not(bir.term_operand(sw, b.blocks[sw]["term"]["o"]))
                        removed.add((sw, bool_edge(b, sw, not neg)))
                reach = b.reachable_from(0, removed_edges=frozenset(removed), removed_blocks=frozenset(fl))
                okq = qb not in reach
                rep.ob(rule, "%s | send: queue after can_fit or flush" % ver, okq,
                       "the chunk is queued only after can_fit_chunk() held or the packet was flushed" if okq else
                       "send can queue a chunk into a full packet", b.loc())
        else:
            w = [(bi, t) for bi, t in b.calls() if (t.get("callee") or "").endswith("PacketContents::write_chunk")]
            for bi, t in w:
                n += 1
                # every path to the write passes an admission edge (however the decision is spelled)
                adm, defs_ok, _he = resend_admission(b, bir, mod, _sent_field(prog, mod))
                okw = bool(adm) and bi not in b.reachable_from(0, removed_edges=frozenset(adm))
                # the can_fit variable: all its definitions involve can_fit_chunk(..) (possibly OR-ed with `num_chunks == 0`)
                rep.ob(rule, "%s | resend: write_chunk under can_fit" % ver, okw,
                       "resend writes a chunk only when can_fit held" if okw else "resend writes without the admission test", b.loc(t.get("ln")))
                rep.ob(rule, "%s | resend: can_fit is can_fit_chunk() or empty-packet" % ver, defs_ok,
                       "can_fit = can_fit_chunk(..) [|| packet.num_chunks == 0]" if defs_ok else
                       "can_fit in resend is computed from something else", b.loc())
    rep.floor(rule, n, 2, "%s: write sites checked" % ver)


def _sent_field(prog, mod):
    """name of the OnlineState field whose contents flush passes to PacketBuilder::send"""
    b = prog.one(mod + "::OnlineState::flush")
    ir = IR(b)
    for bi, t in b.calls():
        if (t.get("callee") or "") == mod + "::PacketBuilder::send":
            e = ir.call_expr(bi, t)
            names = set()
            for x in walk(e[2][2]):
                if isinstance(x, tuple) and x and x[0] == "field" and x[2] == "num_chunks":
                    y = x[1]
                    while isinstance(y, tuple) and y and y[0] in ("deref", "ref"):
                        y = y[1] if y[0] == "deref" else y[2]
                    if y[0] == "field":
                        names.add(y[2])
            if len(names) == 1:
                return names.pop()
    raise AnchorLost("%s OnlineState::flush: cannot tell which packet is sent" % mod)


def _switch_after(body, bb):
    t = body.blocks[bb]["term"]
    nb = t.get("t")
    steps = 0
    while nb is not None and steps < 6:
        tt = body.blocks[nb]["term"]
        if tt["k"] == "switch":
            return nb
        if tt["k"] == "goto":
            nb = tt["t"]
        else:
            return None
        steps += 1
    return None


def _can_fit_locals(ir):
    """bool locals that hold the admission decision: the destination of a can_fit_chunk() call, a local that is set to `true`
    under the can_fit_chunk() == true edge (the lowering of `can_fit_chunk(..) || ..`), and the temporaries copied into them"""
    out = set()
    for l, ds in ir.defs.items():
        if ir.ltystr(l) != "bool":
            continue
        for (bi, si, kind, node) in ds:
            if kind != "assign":
                if "can_fit_chunk" in (node.get("callee") or ""):
                    out.add(l)
            else:
                r = node["r"]
                if r["k"] == "use" and "c" in r["o"] and r["o"]["c"].get("v") == 1:
                    for c, rel, v, edge, dty in ir.edge_conditions(bi):
                        if "can_fit_chunk" in show(c) and ((rel == "==" and v == 1) or (rel == "notin" and 0 in v)):
                            out.add(l)
    work = list(out)
    while work:
        l = work.pop()
        for (bi, si, kind, node) in ir.defs.get(l, []):
            if kind == "assign":
                e = ir.rvalue(node["r"], (bi, si))
                if e[0] == "var" and e[1] not in out:
                    out.add(e[1])
                    work.append(e[1])
    return out


def _is_empty_test(e, sent="packet"):
    """`<sent packet>.num_chunks == 0` / `.is_empty()`: the emptiness of the packet that is written and flushed, not of a sibling"""
    txt = show(strip_sites(e))
    return (e[0] == "bin" and e[1] == "Eq" and ("." + sent + ".num_chunks") in txt and e[3][0] == "c" and e[3][1] == 0) or \
           (e[0] == "call" and e[1].endswith("is_empty") and ("." + sent) in txt and ("." + sent + "_") not in txt)


def resend_admission(b, ir, mod, sent="packet"):
    """(pass edges, defs_ok, has_empty): the edges of `b` on which a chunk is admitted into the packet -- the true edge of a test
    of can_fit_chunk(..), of `num_chunks == 0`, or of a bool local that holds such a decision (whatever it is called)"""
    cfl = _can_fit_locals(ir)
    edges = set()
    has_empty = False
    var_used = False
    for bi in sorted(b.live):
        t = b.blocks[bi]["term"]
        if t["k"] != "switch" or t.get("dty") != "bool":
            continue
        e, neg = strip_not(ir.term_operand(bi, t["o"]))
        if e[0] == "call" and e[1].endswith("PacketContents::can_fit_chunk"):
            edges.add((bi, bool_edge(b, bi, not neg)))
        elif _is_empty_test(e, sent):
            has_empty = True
            edges.add((bi, bool_edge(b, bi, not neg)))
        elif e[0] == "var" and e[1] in cfl:
            edges.add((bi, bool_edge(b, bi, not neg)))
            if len(ir.defs.get(e[1], [])) > 1:
                var_used = True
    for l in cfl:
        for (bi, si, kind, node) in ir.defs.get(l, []):
            if kind == "assign" and _is_empty_test(ir.rvalue(node["r"], (bi, si)), sent):
                has_empty = True
    defs_ok = _can_fit_defs_ok(b, ir, mod, sent) if var_used else bool(edges)
    return edges, defs_ok, has_empty


def _can_fit_defs_ok(b, ir, mod, sent="packet"):
    ls = _can_fit_locals(ir)
    if not ls:
        return False
    seen_fit = False
    for l in ls:
        for (bi, si, kind, node) in ir.defs.get(l, []):
            e = ir.rvalue(node["r"], (bi, si)) if kind == "assign" else ir.call_expr(bi, node)
            txt = show(e)
            if e[0] == "var" and e[1] in ls:
                continue
            if "can_fit_chunk" in txt:
                seen_fit = True
                continue
            if _is_empty_test(e, sent):
                continue
            if e[0] == "c":
                if e[1] == 0:
                    continue
                # `true` is assigned only in the arm where can_fit_chunk() returned true
                ok = False
                for c, rel, v, edge, dty in ir.edge_conditions(bi):
                    if "can_fit_chunk" in show(c) and ((rel == "==" and v == 1) or (rel == "notin" and 0 in v)):
                        ok = True
                if ok:
                    seen_fit = True
                    continue
                return False
            return False
    return seen_fit


def pairing(prog, rep, ver, mod):
    rule = "R4-count-content-pairing"
    # writers of PacketContents.num_chunks / .data
    writers = {"num_chunks": set(), "data": set()}
    for b in prog.bodies.values():
        if b.is_test or not (b.id.startswith(mod + "::") or b.id.startswith("<" + mod)):
            continue
        ir = IR(b)
        for ef in effects(b, ir, write_roots=[("a", i) for i in range(b.argc)]):
            pass
        for bi in sorted(b.live):
            for si, st in enumerate(b.blocks[bi]["st"]):
                if st["k"] == "assign" and st["p"].get("pr"):
                    pe = ir.place(st["p"], (bi, si))
                    root, path = ir.access_path(pe)
                    if path and path[-1] == "num_chunks" and (ir.type_of(pe) == "u8"):
                        writers["num_chunks"].add(b.id)
            t = b.blocks[bi]["term"]
            if t["k"] == "call":
                for ao in t["args"]:
                    pl = ao.get("cp") or ao.get("mv")
                    if pl is None:
                        continue
                    ty = pl.get("t") or b.locals[pl["l"]]["ty"]
                    if ty.startswith("&mut") and "ArrayVec" in ty:
                        e = ir.place(pl, (bi, len(b.blocks[bi]["st"])))
                        root, path = ir.access_path(e)
                        if path and path[-1] == "data" and "PacketContents" in (b.raw.get("self_ty") or ""):
                            writers["data"].add(b.id)
    okn = writers["num_chunks"] <= {mod + "::PacketContents::write_chunk"}
    rep.ob(rule, "%s | writers of num_chunks" % ver, okn and bool(writers["num_chunks"]),
           "num_chunks is incremented only in PacketContents::write_chunk (reset only by replacing the whole struct): %s" % sorted(writers["num_chunks"]), None)
    wc = prog.one(mod + "::PacketContents::write_chunk")
    wir = IR(wc)
    has_write = any((t.get("callee") or "").endswith("::write_chunk") and (t.get("callee") or "").startswith("libtw2_net::protocol") for _, t in wc.calls())
    rep.ob(rule, "%s | write_chunk appends and counts together" % ver, has_write,
           "the same function appends the chunk to `data` and increments `num_chunks`", wc.loc())
    fl = prog.one(mod + "::OnlineState::flush")
    fir = IR(fl)
    ok = False
    for bi in sorted(fl.live):
        for si, st in enumerate(fl.blocks[bi]["st"]):
            if st["k"] == "assign" and st["r"]["k"] == "agg" and st["r"].get("variant") == "Chunks":
                e = fir.rvalue(st["r"], (bi, si))
                fl_ = dict(e[4])
                n_, d_ = fl_.get(1), fl_.get(2)
                if n_ is not None and d_ is not None:
                    rn, pn = fir.access_path(n_)
                    dd = None
                    for x in walk(d_):
                        if isinstance(x, tuple) and x and x[0] == "field" and x[2] == "data":
                            dd = x
                    if dd is not None:
                        rd, pd = fir.access_path(dd)
                        ok = pn[:-1] == pd[:-1] and pn[-1:] == ("num_chunks",) and pd[-1:] == ("data",) and rn == rd
    rep.ob(rule, "%s | flush sends count and content of the same packet" % ver, ok,
           "Chunks(request_resend, packet.num_chunks, &packet.data) takes both from one PacketContents", fl.loc())
    # flush clears both packets after sending
    clears = [show(fir.term_operand(bi, t["args"][0])) for bi, t in fl.calls() if (t.get("callee") or "").endswith("PacketContents::clear")]
    okc = any("packet_nonvital" in c for c in clears) and any(c.endswith(".packet") for c in clears)
    rep.ob(rule, "%s | flush clears packet and packet_nonvital" % ver, okc, "cleared after sending: %s" % clears, fl.loc())


def build_then_reset(prog, rep, ver, mod):
    """R6: OnlineState::flush resets its state (request_resend, packet, packet_nonvital) only after the datagram has been
    built from it: every write rooted in *self is dominated by the PacketBuilder::send call"""
    rule = "R6-build-then-reset"
    b = prog.one(mod + "::OnlineState::flush")
    ir = IR(b)
    sends = [bi for bi, t in b.calls() if (t.get("callee") or "") == mod + "::PacketBuilder::send"]
    if len(sends) != 1:
        raise AnchorLost("%s OnlineState::flush: expected one PacketBuilder::send, found %d" % (ver, len(sends)))
    effs = [e for e in effects(b, ir, write_roots=[("a", 0)]) if e.kind in ("write", "mutcall")]
    rep.floor(rule, len(effs), 3, "%s: state resets in OnlineState::flush" % ver)
    n = {}
    for e in effs:
        ok = e.bb != sends[0] and b.dominates(sends[0], e.bb)
        k = "%s | %s %s" % (ver, e.kind, e.desc.split("::")[-1] if e.kind == "mutcall" else e.desc)
        n[k] = n.get(k, 0) + 1
        rep.ob(rule, "%s | %d" % (k, n[k] - 1), ok,
               "the reset happens after the packet was built from the state" if ok else
               "`%s` is modified before (or without) the packet being built from it: the datagram no longer reflects what was queued" % e.desc,
               b.loc(e.ln))


def canonical(ctx, rep):
    rule = "R5-canonical-headers"
    from . import C05
    from ..report import Report
    sub = Report("C05", rep.tier, rep.seed)
    for mod, up, pk in C05.PAIRS:
        C05.header_pair(ctx.prog, sub, mod, up, pk)
    n = 0
    for o in sub.obs:
        if "warnings only on non-canonical bits" in o["key"] or "pack accepts every unpack output" in o["key"]:
            n += 1
            rep.ob(rule, o["key"].split(" | ", 2)[2], o["ok"], o["detail"], o["at"])
    rep.floor(rule, n, 14, "header pairs evaluated in the bit domain")
