"""C17 -- teehistorian reading is independent of stream fragmentation (structural conditions)."""
from .common import standard_totality
from ..facts import AnchorLost, path_matches
from ..ir import IR, show, walk, strip_sites
from ..effects import strip_not

LEVEL = "other"
EXPLANATION = (
    "R1 (commit only on success): in Buffer::read_kind, Buffer::read_item and Reader::new_impl every store to Buffer.offset is "
    "dominated by the success arm of the decode attempt; each attempt builds its Unpacker from buffer[self.offset..]; the "
    "`need more` arm leads to read_more and back to the loop head.  R2 (no length-sensitive operation on the incremental "
    "unpacker): the bodies that receive the outer unpacker (taint from Kind::decode / Kind::decode_rest through direct parameter "
    "passing) never call read_rest, is_empty, as_slice or finish on it -- operations whose result would depend on where the "
    "stream was cut; extension payloads are decoded from a fresh Unpacker::new(data) over a complete read_data result.  R3 "
    "(read_more): drain(0..offset) is followed by offset = 0 on the same path and the buffer grows only on the offset == 0 branch.  "
    "R4 (tick typestate, structural part): every construction of Item::TickStart is paired with a store in_tick = true and every "
    "Item::TickEnd with in_tick = false; all stores to `tick` take their value from checked_add; positions and inputs accumulate "
    "through wrapping_add.  R4b: the implicit tick test is `previous cid >= cid`, a TICK_SKIP resets the remembered client id (doc/teehistorian.md pseudo-code), and INPUT_NEW overwrites the stored input.  R4c: tick boundaries ahead of a record are emitted under the exact conditions (not TICK_SKIP, not FINISH, outside a tick; FINISH inside a tick; the implicit-advance closure).  R5: every reachable panic site is discharged or reviewed.  Not decided: equality of item sequences "
    "across splittings as such, and the tick numbers against doc/teehistorian.md (value level)."
)
ASSUMPTIONS = ["the read callback returns Some(n > 0) or None (end of stream)", "reviewed table lines confirmed by reading the code"]
TABLES = ["teehistorian", "packer", "buffer", "common", "looptable", "postfix"]
T = "libtw2_teehistorian::"
U = "libtw2_packer::Unpacker::"


def run(ctx, rep):
    standard_totality(ctx, rep, "C17", TABLES, rule="R5-no-panic")
    commit_on_success(ctx.prog, rep)
    no_length_sensitive(ctx, rep)
    read_more(ctx.prog, rep)
    typestate(ctx.prog, rep)
    implicit_tick_and_inputs(ctx.prog, rep)
    tick_boundary_conditions(ctx.prog, rep)
    from .common import check_refusal_inventory
    check_refusal_inventory(ctx.prog, rep, "R6-refusal-inventory", ("libtw2_teehistorian::format::",))


def _offset_stores(body, ir):
    out = []
    for bi in sorted(body.live):
        for si, st in enumerate(body.blocks[bi]["st"]):
            if st["k"] == "assign" and st["p"].get("pr"):
                pe = ir.place(st["p"], (bi, si))
                if ir.access_path(pe)[1][-1:] == ("offset",):
                    out.append((bi, si, ir.rvalue(st["r"], (bi, si)), st.get("ln")))
    return out


def commit_on_success(prog, rep):
    rule = "R1-commit-on-success"
    for fn, decode in ((T + "raw::Buffer::read_kind", "Kind::decode"), (T + "raw::Buffer::read_item", "Kind::decode_rest"),
                       (T + "raw::Reader::new_impl", "read_header")):
        b = prog.one(fn)
        ir = IR(b)
        st = _offset_stores(b, ir)
        rep.floor(rule, len(st), 1, "stores to Buffer.offset in " + fn)
        dec = [bi for bi, t in b.calls() if (t.get("callee") or "").endswith(decode)]
        rep.floor(rule, len(dec), 1, decode + " call in " + fn)
        for bi, si, v, ln in st:
            ok = False
            for e, rel, val, edge, dty in ir.edge_conditions(bi):
                if e[0] == "discr" and decode.split("::")[-1] in show(e[1]):
                    # Ok / Some arm
                    ty = ir.type_of(e[1]) or ""
                    if "Result<" in ty and rel == "==" and val == 0:
                        ok = True
                    if "Option<" in ty and ((rel == "==" and val == 1) or (rel == "notin" and 0 in val)):
                        ok = True
                    if "Result<" not in ty and "Option<" not in ty and rel == "==":
                        ok = True
            rep.ob(rule, "%s | offset advanced only on success" % fn.rsplit("::", 1)[-1], ok,
                   "offset += n is dominated by the success arm of %s" % decode if ok else
                   "Buffer.offset is advanced on a path where %s did not succeed: a retry after `need more` would skip bytes" % decode, b.loc(ln))
        # the unpacker is built from buffer[offset..]
        if decode != "read_header":
            news = [(bi, t) for bi, t in b.calls() if (t.get("callee") or "") == U + "new"]
            okn = False
            for bi, t in news:
                a = ir.term_operand(bi, t["args"][0])
                if "RangeFrom" in show(a) and "offset" in show(a) and "buffer" in show(a):
                    okn = True
            rep.ob(rule, "%s | attempt starts at the saved offset" % fn.rsplit("::", 1)[-1], okn,
                   "each attempt parses Unpacker::new(&buffer[self.offset..])", b.loc())
        # need-more arm: read_more call inside the loop
        rm = [bi for bi, t in b.calls() if (t.get("callee") or "").endswith("Buffer::read_more")]
        okl = bool(rm) and any(rm[0] in c and any(d in c for d in dec) for c in b.sccs())
        rep.ob(rule, "%s | need-more refills and retries" % fn.rsplit("::", 1)[-1], okl,
               "read_more is called inside the retry loop together with the decode attempt", b.loc())


SENSITIVE = ("read_rest", "is_empty", "as_slice", "finish")


def no_length_sensitive(ctx, rep):
    rule = "R2-no-length-sensitive-reads"
    prog = ctx.prog
    seeds = []
    for fid, argi in ((T + "format::item::Kind::decode", 0), (T + "format::item::Kind::decode_rest", 1)):
        if fid not in prog.bodies:
            raise AnchorLost("teehistorian: %s not found" % fid)
        seeds.append((fid, argi))
    tainted = set(seeds)
    work = list(seeds)
    while work:
        fid, ai = work.pop()
        b = prog.bodies.get(fid)
        if b is None:
            continue
        ir = IR(b)
        for bi, t in b.calls():
            g = t.get("callee") or ""
            for j, ao in enumerate(t["args"]):
                pl = ao.get("cp") or ao.get("mv")
                if pl is None:
                    continue
                e = ir.place(pl, (bi, len(b.blocks[bi]["st"])))
                if ir.access_path(e) == (("a", ai), ()):
                    if g in prog.bodies and (g, j) not in tainted and not g.startswith("libtw2_packer::"):
                        tainted.add((g, j))
                        work.append((g, j))
    n = 0
    bad = []
    for fid, ai in sorted(tainted):
        b = prog.bodies[fid]
        ir = IR(b)
        for bi, t in b.calls():
            g = t.get("callee") or ""
            if g.startswith(U) and g.rsplit("::", 1)[-1] in SENSITIVE:
                e = ir.term_operand(bi, t["args"][0])
                if ir.access_path(e) == (("a", ai), ()):
                    bad.append((fid, g, b.loc(t.get("ln"))))
        n += 1
    rep.floor(rule, n, 14, "bodies receiving the incremental unpacker (Kind::decode, decode_rest and the 12 item decoders)")
    rep.ob(rule, "no length-sensitive call on the incremental unpacker", not bad,
           "%d bodies receive the outer unpacker; none calls %s on it" % (n, "/".join(SENSITIVE)) if not bad else
           "length-sensitive reads on the incremental unpacker: %s" % bad[:4], bad[0][2] if bad else None)
    rep.extra["tainted_bodies"] = n


def read_more(prog, rep):
    rule = "R3-read-more"
    b = prog.one(T + "raw::Buffer::read_more")
    ir = IR(b)
    dr = [(bi, t) for bi, t in b.calls() if (t.get("callee") or "").endswith("Vec::drain")]
    st = _offset_stores(b, ir)
    rep.floor(rule, len(dr), 1, "buffer.drain in read_more")
    for bi, t in dr:
        rng = ir.term_operand(bi, t["args"][1])
        okr = rng[0] == "agg" and "offset" in show(dict(rng[4]).get("end")) and dict(rng[4]).get("start", ("c", 1))[1] == 0
        zero = [s for s in st if s[2][0] == "c" and s[2][1] == 0 and b.dominates(bi, s[0])]
        # every path from the drain to a return passes offset = 0
        okz = bool(zero) and not any(rb in b.reachable_from(bi, removed_blocks=frozenset(z[0] for z in zero) - {bi}) for rb in b.return_blocks())
        rep.ob(rule, "drain(0..offset) then offset = 0", okr and okz,
               "compaction drops exactly the consumed prefix and resets the offset", b.loc(t.get("ln")))
    rs = [(bi, t) for bi, t in b.calls() if (t.get("callee") or "").endswith("Vec::reserve")]
    for bi, t in rs:
        ok = False
        for e, rel, v, edge, dty in ir.edge_conditions(bi):
            e2, neg = strip_not(e)
            if e2[0] == "bin" and e2[1] in ("Ne", "Eq") and "offset" in show(e2[2]) and e2[3][0] == "c" and e2[3][1] == 0:
                truth = ((rel == "==" and v == 1) or (rel == "notin" and 0 in v)) != neg
                if (e2[1] == "Eq") == truth:
                    ok = True
        rep.ob(rule, "buffer grows only when nothing can be compacted", ok, "reserve() is on the `offset == 0` branch", b.loc(t.get("ln")))


def typestate(prog, rep):
    rule = "R4-tick-typestate"
    b = prog.one(T + "raw::Reader::read")
    ir = IR(b)
    in_tick = []
    tick = []
    for bi in sorted(b.live):
        for si, st in enumerate(b.blocks[bi]["st"]):
            if st["k"] == "assign" and st["p"].get("pr"):
                pe = ir.place(st["p"], (bi, si))
                path = ir.access_path(pe)[1]
                if path == ("in_tick",):
                    in_tick.append((bi, ir.rvalue(st["r"], (bi, si))))
                if path == ("tick",):
                    tick.append((bi, ir.rvalue(st["r"], (bi, si)), st.get("ln")))
    rep.floor(rule, len(in_tick), 4, "stores to in_tick")
    rep.floor(rule, len(tick), 2, "stores to tick")
    n = 0
    for bi in sorted(b.live):
        for si, st in enumerate(b.blocks[bi]["st"]):
            if st["k"] == "assign" and st["r"]["k"] == "agg" and st["r"].get("variant") in ("TickStart", "TickEnd") and \
               (st["r"].get("adt") or "").endswith("raw::Item"):
                n += 1
                want = 1 if st["r"]["variant"] == "TickStart" else 0
                ok = any(v[0] == "c" and v[1] == want and (sb == bi or b.dominates(sb, bi)) and
                         not any(v2[0] == "c" and v2[1] != want and b.dominates(sb, sb2) and (sb2 == bi or b.dominates(sb2, bi)) and sb2 != sb
                                 for sb2, v2 in in_tick)
                         for sb, v in in_tick)
                rep.ob(rule, "%s | %d | paired with in_tick = %s" % (st["r"]["variant"], n, bool(want)), ok,
                       "Item::%s is returned on a path that stores in_tick = %s" % (st["r"]["variant"], bool(want)), b.loc(st.get("ln")))
    rep.floor(rule, n, 5, "TickStart/TickEnd constructions")
    for bi, v, ln in tick:
        ok = "checked_add" in show(v) and not any(isinstance(x, tuple) and x and x[0] == "bin" and x[1] in ("Add", "AddWithOverflow") for x in walk(v))
        rep.ob(rule, "tick advances through checked_add", ok, "self.tick = %s" % show(v)[:100], b.loc(ln))
    wa = [t for bi, t in b.calls() if (t.get("callee") or "").endswith("wrapping_add")]
    rep.ob(rule, "positions and inputs accumulate with wrapping_add", len(wa) >= 2,
           "%d wrapping_add accumulations (PlayerDiff, InputDiff)" % len(wa), b.loc())
    plain = []
    for bi in sorted(b.live):
        t = b.blocks[bi]["term"]
        if t["k"] == "assert" and t["msg"].startswith("Overflow:Add"):
            plain.append(t.get("ln"))
    rep.ob(rule, "no panicking + in Reader::read", not plain, "no checked `+` in read()" if not plain else "checked additions at lines %s" % plain, b.loc())


def implicit_tick_and_inputs(prog, rep):
    """R4b: (a) the implicit tick boundary of doc/teehistorian.md: a player record whose client id is not greater than the
    previous one's starts a new tick -- the closure passed to prev_player_cid.map() computes `p >= cid` (normal forms
    `cid <= p`, `!(p < cid)` accepted).  (b) An INPUT_NEW record replaces the stored input of that client id
    (inputs.insert(cid, new)); later INPUT_DIFFs are applied to what was stored."""
    from ..bits import BitEval, Unsupported
    rule = "R4b-implicit-tick-and-input-store"
    RD = "libtw2_teehistorian::raw::Reader::read"
    b = prog.one(RD)
    ir = IR(b)
    maps = []
    for bi, t in b.calls():
        if (t.get("callee") or "") == "std::option::Option::map":
            e = ir.call_expr(bi, t)
            if "prev_player_cid" in show(strip_sites(e[2][0])):
                cl = e[2][1]
                while cl[0] in ("ref", "deref"):
                    cl = cl[2] if cl[0] == "ref" else cl[1]
                if cl[0] == "agg" and cl[1] == "closure":
                    maps.append((bi, cl[2], t.get("ln")))
    rep.floor(rule, len(maps), 1, "prev_player_cid.map(closure) in Reader::read")
    be = BitEval(prog)
    for bi, cid, ln in maps:
        try:
            e, rb = be.ret_expr(cid)
        except Unsupported as ex:
            rep.ob(rule, "implicit tick comparison", False, "cannot read the closure: %s" % ex, b.loc(ln))
            continue
        neg = False
        while e[0] == "un" and e[1] == "Not":
            e, neg = e[2], not neg
        rel = None
        if e[0] == "bin" and e[1] in ("Ge", "Gt", "Le", "Lt"):
            op = e[1]
            if neg:
                op = {"Ge": "Lt", "Gt": "Le", "Le": "Gt", "Lt": "Ge"}[op]
            a_is_p = e[2][0] == "arg" and e[2][1] == 1
            b_is_p = e[3][0] == "arg" and e[3][1] == 1
            if b_is_p and not a_is_p:
                op = {"Ge": "Le", "Gt": "Lt", "Le": "Ge", "Lt": "Gt"}[op]
            if a_is_p != b_is_p:
                rel = op
        rep.ob(rule, "implicit tick comparison", rel == "Ge",
               "a new tick starts when previous cid >= this cid" if rel == "Ge" else
               "the implicit tick test is `previous cid %s this cid`: %s" % (
                   {"Gt": ">", "Le": "<=", "Lt": "<"}.get(rel, "?"),
                   "a lone player's consecutive ticks merge into one" if rel == "Gt" else "tick boundaries differ from doc/teehistorian.md"),
               b.loc(ln))
    # (c) doc/teehistorian.md: `if message.kind == TICK_SKIP: tick += dt + 1; implicit_cid = None` -- an explicit tick
    # advance forgets the previous player's client id, so the player records that follow belong to the tick it announced
    skip_stores = []
    none_after_skip = False
    for bi in sorted(b.live):
        for si, st in enumerate(b.blocks[bi]["st"]):
            if st["k"] == "assign" and st["p"].get("pr"):
                pe = ir.place(st["p"], (bi, si))
                if ir.access_path(pe)[1] == ("tick",):
                    v = ir.rvalue(st["r"], (bi, si))
                    if "TickSkip" in show(strip_sites(v)):
                        skip_stores.append(bi)
    if not skip_stores:
        raise AnchorLost("Reader::read: the TICK_SKIP store to self.tick was not found")
    for sb in skip_stores:
        reach = b.reachable_from(sb)
        for bi in sorted(b.live):
            for si, st in enumerate(b.blocks[bi]["st"]):
                if st["k"] == "assign" and st["p"].get("pr") and (bi in reach):
                    pe = ir.place(st["p"], (bi, si))
                    if ir.access_path(pe)[1] == ("prev_player_cid",):
                        v = ir.rvalue(st["r"], (bi, si))
                        if v[0] == "agg" and v[3] == "None" and (b.dominates(sb, bi)):
                            none_after_skip = True
    rep.ob(rule, "TICK_SKIP resets the implicit client id", none_after_skip,
           "the TICK_SKIP arm stores prev_player_cid = None" if none_after_skip else
           "the TICK_SKIP arm leaves prev_player_cid set: a player record after an explicit tick advance whose cid is <= the last one "
           "seen before it triggers a second, implicit advance (doc/teehistorian.md resets implicit_cid on TICK_SKIP)", b.loc())
    # (d) every player record (PLAYER_DIFF, PLAYER_NEW, PLAYER_OLD) becomes the remembered client id
    stored = set()
    for bi in sorted(b.live):
        for si, st in enumerate(b.blocks[bi]["st"]):
            if st["k"] == "assign" and st["p"].get("pr"):
                pe = ir.place(st["p"], (bi, si))
                if ir.access_path(pe)[1] == ("prev_player_cid",):
                    v = ir.rvalue(st["r"], (bi, si))
                    if v[0] == "agg" and v[3] == "Some":
                        txt = show(strip_sites(v))
                        for kind in ("PlayerDiff", "PlayerNew", "PlayerOld"):
                            if ("as %s)" % kind) in txt and txt.rstrip("}").endswith(".cid"):
                                stored.add(kind)
    want_kinds = {"PlayerDiff", "PlayerNew", "PlayerOld"}
    rep.ob(rule, "every player record kind updates the remembered client id", stored == want_kinds,
           "prev_player_cid = Some(cid) in the PLAYER_DIFF, PLAYER_NEW and PLAYER_OLD arms" if stored == want_kinds else
           "prev_player_cid is not updated for %s: the next player record's implicit tick test compares with a stale id" % sorted(want_kinds - stored), b.loc())
    ins = []
    for bi, t in b.calls():
        if (t.get("callee") or "").endswith("::insert"):
            e = ir.call_expr(bi, t)
            if "self.inputs" in show(strip_sites(e[2][0])):
                ins.append((bi, e, t.get("ln")))
    ok = any("InputNew" in show(strip_sites(e[2][2])) and show(strip_sites(e[2][2])).endswith(".new") for bi, e, ln in ins)
    rep.ob(rule, "INPUT_NEW overwrites the stored input", ok,
           "inputs.insert(cid, record.new)" if ok else
           "no unconditional inputs.insert(cid, new) for INPUT_NEW: a re-used client id keeps the previous player's input and later diffs accumulate on it",
           b.loc())


def tick_boundary_conditions(prog, rep):
    """R4c: the exact conditions under which Reader::read emits tick boundaries ahead of a record: a TickStart when a record
    other than TICK_SKIP / FINISH arrives outside a tick; a TickEnd when FINISH arrives inside one; a TickEnd for the implicit
    advance when the closure (R4b) says so for a player record"""
    from .common import holds_at, want_relations
    rule = "R4c-tick-boundary-conditions"
    b = prog.one("libtw2_teehistorian::raw::Reader::read")
    ir = IR(b)
    kind = prog.adt("libtw2_teehistorian::format::item::Kind")
    disc = {v["name"]: int(v["discr"]) for v in kind["variants"]}
    def kb(name):
        return "bytes:" + disc[name].to_bytes(kind["size"], "little").hex()
    n = 0
    for bi in sorted(b.live):
        for si, st in enumerate(b.blocks[bi]["st"]):
            if st["k"] != "assign" or st["r"]["k"] != "agg" or st["r"].get("variant") not in ("TickStart", "TickEnd"):
                continue
            rels = holds_at(ir, bi)
            at = b.loc(st.get("ln"))
            txts = " ; ".join(show(strip_sites(r[1] if r[0] == "bool" else r[0])) for r in rels)
            if "read_item" in txts:
                continue            # the explicit TICK_SKIP arm: decided by the typestate rule R4
            n += 1
            if st["r"].get("variant") == "TickStart":
                want_relations(rep, rule, "TickStart ahead of a record", rels,
                               [("in_tick", "bool", False), ("item_kind", "Ne", kb("TickSkip")), ("item_kind", "Ne", kb("Finish"))], at,
                               "a tick is opened for a record that is neither TICK_SKIP nor FINISH, outside a tick")
            elif "player_cid" in txts and "prev_player_cid" in txts:
                want_relations(rep, rule, "TickEnd for the implicit advance", rels,
                               [("prev_player_cid", "bool", True), ("player_cid", "bool", True)], at,
                               "the implicit advance closes the tick when the record has a client id and the comparison closure says so")
            else:
                want_relations(rep, rule, "TickEnd ahead of FINISH", rels,
                               [("in_tick", "bool", True), ("item_kind", "Eq", kb("Finish"))], at,
                               "an open tick is closed before FINISH is reported")
    rep.floor(rule, n, 3, "tick boundaries emitted ahead of a record in Reader::read")
