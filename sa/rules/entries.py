"""Entry points (body-id prefixes / suffixes) per property for the totality and loop rules."""


DERIVED = {"fmt", "clone", "eq", "ne", "hash", "cmp", "partial_cmp", "assert_fields_are_eq", "assert_receiver_is_total_eq"}


def pub_fns(prog, prefixes, only_pub=True, exclude=(), names=None):
    out = []
    for b in prog.bodies.values():
        if b.is_test or b.kind not in ("Fn", "AssocFn"):
            continue
        last = b.id.rsplit("::", 1)[-1]
        if last in DERIVED:
            continue
        if names is not None and not any(last.startswith(n) for n in names):
            continue
        if only_pub and not b.raw.get("pub"):
            # trait impl methods have no visibility of their own: include them
            if "self_ty" not in b.raw or "trait" not in b.raw:
                continue
        # only code of the anchored crates: an extension trait a tool implements for an anchored type
        # (`<snapshot::Builder as libtw2_server::SnapBuilderExt>::add`) is the tool's code
        if any((b.id.startswith(p) or b.id.startswith("<" + p)) and b.crate.replace("-", "_") == p.split("::")[0] for p in prefixes):
            if not any(x in b.id for x in exclude):
                out.append(b.id)
    return sorted(out)


ENTRY_PREFIXES = {
    "C04": ["libtw2_net::connection::", "libtw2_net::connection7::", "libtw2_net::net::"],
    "C08": ["libtw2_packer::"],
    "C11": ["libtw2_snapshot::snap::", "libtw2_snapshot::format::"],
    "C13": ["libtw2_snapshot::storage::", "libtw2_snapshot::manager::", "libtw2_snapshot::receiver::"],
    "C14": ["libtw2_gamenet_common::", "libtw2_gamenet_snap::", "libtw2_gamenet_ddnet::", "libtw2_gamenet_teeworlds_0_5::",
            "libtw2_gamenet_teeworlds_0_6::", "libtw2_gamenet_teeworlds_0_7::"],
    "C15": ["libtw2_demo::"],
    "C16": ["libtw2_datafile::raw::", "libtw2_datafile::format::", "libtw2_datafile::file::", "libtw2_datafile::bitmagic::",
            "libtw2_map::reader::", "libtw2_map::format::", "libtw2_zlib_minimal::"],
    "C17": ["libtw2_teehistorian::"],
    "C19": ["libtw2_buffer::"],
}

ENTRY_NAMES = {
    # C14 R4 speaks of decoding arbitrary bytes only; encoders assert documented API preconditions
    "C14": ["decode", "from_i32"],
}


def entries_for(prog, pid):
    return pub_fns(prog, ENTRY_PREFIXES[pid], names=ENTRY_NAMES.get(pid))
