"""C03 -- datagrams without the agreed token are inert (complete static non-interference argument)."""
from ..facts import AnchorLost, path_matches
from ..ir import IR, show, walk, strip_sites
from ..effects import (effects, cmp_call, strip_not, mentions_call, var_def_exprs, bool_edge,
                       typestate_reach)

LEVEL = "proof"
EXPLANATION = (
    "Non-interference argument on the CFG of Connection::feed_impl (0.6 and 0.7).  O1 gate: every effect site "
    "(write rooted in *self, call receiving a &mut rooted in *self, any use of the callback, construction of a "
    "non-`none` ReceivePacket) is unreachable from the entry once the pass edges of the token gate are removed "
    "(0.6: `state.token()` is None / `token != expected` is false; 0.7: `token != expected_token` is false, and for "
    "connectionless packets both own/their token comparisons).  O1b: each token comparison is decisive on its own -- on its mismatch edge only the warning and `return none` follow (so an inverted first comparison is not masked by a later one).  O2: State::token / own_token / their_token return "
    "Some exactly for the variants whose payload carries that field.  O3: the 0.7 assignment `expected_token = "
    "TOKEN_NONE` is dominated by `type_ is Control(Token)`, `state is PendingConnect`, `token == TOKEN_NONE`, and "
    "under these variant facts the only effect reachable is send_control_with_token.  O4: the reader's token hint "
    "is computed from the same state.  O5: Token::random returns only values different from the reserved ones and "
    "acceptors store only tokens from Token::random or None.  O6: Connection's fields contain no interior "
    "mutability or raw pointers, so code before the gate (which only holds shared borrows of *self) cannot write it."
)
ASSUMPTIONS = [
    "warnings (Warn::warn) are not application events; the caller's scratch buffer is not endpoint state",
    "0.6 connectionless datagrams are outside the statement (it speaks of connection-oriented datagrams)",
    "std types Duration/VecDeque/ArrayVec contain no interior mutability observable through &",
]


def run(ctx, rep):
    prog = ctx.prog
    for ver, mod, pmod in (("0.6", "libtw2_net::connection", "libtw2_net::protocol"),
                           ("0.7", "libtw2_net::connection7", "libtw2_net::protocol7")):
        gate(prog, rep, ver, mod, pmod)
        token_accessors(prog, rep, ver, mod)
        token_random(prog, rep, ver, mod, pmod)
        no_interior_mut(prog, rep, ver, mod)
    hint(prog, rep)
    exception7(prog, rep)


def _state_token_fn(mod):
    return lambda f: f.startswith(mod + "::State::") and f.rsplit("::", 1)[-1] in ("token", "own_token", "their_token")


def find_gates(body, ir, mod):
    """[(bb, pass_target, kind, text)] -- switches comparing a token against one derived from the state"""
    is_tok = _state_token_fn(mod)
    gates = []
    for bi in sorted(body.live):
        t = body.blocks[bi]["term"]
        if t["k"] != "switch":
            continue
        e = ir.term_operand(bi, t["o"])
        if e[0] == "discr" and e[1][0] == "call" and is_tok(e[1][1]):
            # `if let Some(expected) = self.state.token()`: the None edge passes
            tgt = None
            for v, tb in t["targets"]:
                if v == 0:
                    tgt = tb
            if tgt is None:
                tgt = t["otherwise"]
            gates.append((bi, tgt, "no-token-state", show(e)))
            continue
        e2, neg = strip_not(e)
        c = cmp_call(e2)
        if c is None:
            continue
        is_eq, a, b = c
        dep = False
        for x in (a, b):
            if mentions_call(x, is_tok):
                dep = True
            for y in walk(x):
                if isinstance(y, tuple) and y and y[0] == "var":
                    for _, _, de in var_def_exprs(ir, y[1]):
                        if mentions_call(de, is_tok):
                            dep = True
        if not dep:
            continue
        # pass edge: tokens equal
        equal_truth = is_eq != neg
        tgt = bool_edge(body, bi, equal_truth)
        gates.append((bi, tgt, "token-compare", show(e)[:160]))
    return gates


def feed_effects(body, ir, mod):
    self_i = 0
    cb_i = 1
    rp = mod + "::ReceivePacket::"

    def ctor(f):
        return f.startswith(rp) and f.rsplit("::", 1)[-1] not in ("none",)

    return effects(body, ir, write_roots=[("a", self_i)], use_roots=[("a", cb_i)], ctor_pred=ctor)


def gate(prog, rep, ver, mod, pmod):
    rule = "O1-gate"
    body = prog.one(mod + "::Connection::feed_impl")
    ir = IR(body)
    if body.locals[1].get("name") != "self" or body.locals[2].get("name") != "cb":
        raise AnchorLost("feed_impl(%s): expected (self, cb, ...) parameters" % ver)
    gates = find_gates(body, ir, mod)
    rep.floor(rule, len(gates), 2 if ver == "0.6" else 3, "token gates in %s feed_impl" % ver)
    removed = set((g[0], g[1]) for g in gates)
    reach = body.reachable_from(0, removed_edges=frozenset(removed))
    effs = feed_effects(body, ir, mod)
    rep.floor(rule, len(effs), 10, "effect sites in %s feed_impl" % ver)
    counts = {}
    for ef in effs:
        # 0.6: the connectionless return is outside the statement
        if ver == "0.6" and ef.kind == "ctor" and ef.desc.endswith("::connless"):
            rep.exempt("C03 | O1-gate | %s | ctor connless" % ver, "0.6 connectionless datagrams carry no token; the statement speaks of connection-oriented datagrams")
            continue
        k = (ef.kind, ef.desc.split("(")[0])
        o = counts.get(k, 0)
        counts[k] = o + 1
        ok = ef.bb not in reach
        rep.ob(rule, "%s | %s | %s | %d" % (ver, ef.kind, ef.desc.split("(")[0][:90], o), ok,
               ("effect `%s` is behind the token gate" if ok else
                "effect `%s` is reachable WITHOUT passing the token comparison") % ef.desc[:120],
               body.loc(ef.ln))
    rep.extra.setdefault("gates", {})[ver] = [{"bb": g[0], "pass_to": g[1], "kind": g[2], "cond": g[3]} for g in gates]
    # O1b: every token comparison is itself decisive: on its mismatch edge nothing but the warning and `return none` follows.
    # (O1 alone is satisfied when a *later* comparison still shields the effects, e.g. if the first of the two 0.7
    # connectionless comparisons were inverted.)
    eff_blocks = {}
    for ef in effs:
        if ver == "0.6" and ef.kind == "ctor" and ef.desc.endswith("::connless"):
            continue
        if ef.kind == "use" and ef.desc.split("(")[0].endswith("::warn"):
            continue
        eff_blocks.setdefault(ef.bb, ef)
    for i, g in enumerate([g for g in gates if g[2] == "token-compare"]):
        fails = [s_ for s_ in body.succ[g[0]] if s_ != g[1]]
        hit = None
        for f in fails:
            for b2 in body.reachable_from(f):
                if b2 in eff_blocks:
                    hit = eff_blocks[b2]
                    break
        rep.ob(rule, "%s | mismatch edge of comparison #%d is inert" % (ver, i), hit is None,
               "on a mismatch only the warning and `return none` follow: %s" % g[3][:90] if hit is None else
               "after the comparison `%s` FAILS, the effect `%s` is still reachable: the comparison is not decisive (inverted or bypassed)" % (g[3][:90], hit.desc[:80]),
               body.loc(body.blocks[g[0]]["term"].get("ln")))


def token_accessors(prog, rep, ver, mod):
    rule = "O2-token-accessors"
    adt = prog.adt(mod + "::State")
    names = ["token"] if ver == "0.6" else ["own_token", "their_token"]
    for nm in names:
        body = prog.one(mod + "::State::" + nm)
        ir = IR(body)
        # variant -> has a payload struct with field nm?
        has = {}
        for vi, v in enumerate(adt["variants"]):
            h = False
            for f in v["fields"]:
                if f["n"] == nm:
                    h = True
                tj = f.get("tj") or {}
                if tj.get("k") == "adt":
                    sub = prog.adts.get(tj["p"])
                    if sub and any(ff["n"] == nm for vv in sub["variants"] for ff in vv["fields"]):
                        h = True
            has[vi] = h
        # switch on discr(*self) -> per edge the returned variant
        found = {}
        for bi in sorted(body.live):
            t = body.blocks[bi]["term"]
            if t["k"] != "switch":
                continue
            e = ir.term_operand(bi, t["o"])
            if e[0] != "discr":
                continue
            for v, tb in t["targets"]:
                found[v] = _returned_variant(body, tb)
            rest = [vi for vi in has if vi not in found]
            ov = _returned_variant(body, t["otherwise"])
            for vi in rest:
                found[vi] = ov
        if not found:
            raise AnchorLost("State::%s (%s): no discriminant switch" % (nm, ver))
        for vi, v in enumerate(adt["variants"]):
            got = found.get(vi)
            want = "Some" if has[vi] else "None"
            rep.ob(rule, "%s | State::%s | %s" % (ver, nm, v["name"]), got == want,
                   "State::%s returns %s for variant %s (which %s a `%s` field)" % (
                       nm, got, v["name"], "has" if has[vi] else "has no", nm), body.loc())


def _returned_variant(body, bb):
    """variant name of the Option assigned to _0 in the straight-line code starting at bb"""
    seen = set()
    while bb is not None and bb not in seen:
        seen.add(bb)
        blk = body.blocks[bb]
        for st in blk["st"]:
            if st["k"] == "assign" and st["p"]["l"] == 0 and not st["p"].get("pr"):
                r = st["r"]
                if r["k"] == "agg":
                    return r.get("variant")
                return "?"
        t = blk["term"]
        if t["k"] == "call" and t["dest"]["l"] == 0 and not t["dest"].get("pr"):
            f = t.get("callee") or ""
            # Some(x) through Option::Some as fn / map on a field: treat unknown
            return "?"
        if t["k"] == "goto":
            bb = t["t"]
        elif t["k"] in ("drop",):
            bb = t["t"]
        else:
            return None
    return None


def token_random(prog, rep, ver, mod, pmod):
    rule = "O5-handed-out-tokens"
    body = prog.one(pmod + "::Token::random")
    ir = IR(body)
    reserved = [pmod + "::TOKEN_NONE"] + ([pmod + "::TOKEN_RESERVED"] if ver == "0.6" else [])
    # every return is dominated, for each reserved constant, by a comparison with it on the `differs` edge
    rets = body.return_blocks()
    rep.floor(rule, len(rets), 1, "returns of Token::random")
    for rb in rets:
        conds = ir.edge_conditions(rb)
        for rc in reserved:
            cname = rc.rsplit("::", 1)[-1]
            ok = False
            for e, rel, v, edge, dty in conds:
                e2, neg = strip_not(e)
                c = cmp_call(e2)
                if c is None:
                    continue
                is_eq, a, b = c
                if not any(_is_const(prog, x, rc) for x in (a, b)):
                    continue
                truth = None
                if rel == "==" and v in (0, 1):
                    truth = bool(v)
                elif rel == "notin" and len(v) == 1 and v[0] in (0, 1):
                    truth = not bool(v[0])
                if truth is None:
                    continue
                equal = (is_eq == truth) != neg
                if not equal:
                    ok = True
            rep.ob(rule, "%s | Token::random | differs from %s" % (ver, cname), ok,
                   "Token::random returns only on the edge where the candidate differs from %s" % cname
                   if ok else "Token::random can return %s" % cname, body.loc())
    # the value of the reserved constants
    for rc in reserved:
        c = prog.const(rc)
        want = "ffffffff" if rc.endswith("TOKEN_NONE") else "00000000"
        rep.ob(rule, "%s | %s value" % (ver, rc.rsplit("::", 1)[-1]), c.get("bytes") == want,
               "%s evaluates to %s" % (rc, c.get("bytes")), "%s:%s" % (c.get("file"), c.get("ln")))
    # acceptor-side stores: Pending/PendingConnect states are built with Token::random(..) or None
    fb = prog.one(mod + "::Connection::feed_impl")
    fir = IR(fb)
    ctor_names = ["PendingState::new"] if ver == "0.6" else ["PendingConnectState::new"]
    n = 0
    for bi, t in fb.calls():
        f = t.get("callee") or ""
        if not any(f == mod + "::" + c for c in ctor_names):
            continue
        n += 1
        a0 = fir.term_operand(bi, t["args"][0])
        ok = _token_from_random(fir, a0, pmod)
        rep.ob(rule, "%s | feed_impl | %s token arg | %d" % (ver, ctor_names[0], n - 1), ok,
               "the token stored by the acceptor flows from Token::random (or is None): %s" % show(a0)[:120],
               fb.loc(t.get("ln")))
    rep.floor(rule, n, 1, "acceptor state constructions in %s feed_impl" % ver)


def _token_from_random(ir, e, pmod):
    if e[0] == "call" and e[1] == pmod + "::Token::random":
        return True
    if e[0] == "agg" and e[3] == "None":
        return True
    if e[0] == "agg" and e[3] == "Some":
        return all(_token_from_random(ir, v, pmod) for _, v in e[4])
    if e[0] == "var":
        ds = var_def_exprs(ir, e[1])
        return bool(ds) and all(_token_from_random(ir, d[2], pmod) for d in ds)
    return False


INTERIOR = ("std::cell::", "std::sync::atomic", "std::sync::Mutex", "std::sync::RwLock", "std::rc::Rc", "std::sync::Arc",
            "Cell<", "RefCell<", "UnsafeCell", "*mut ", "*const ", "AtomicU", "AtomicI", "AtomicBool", "Mutex<", "OnceCell")


def no_interior_mut(prog, rep, ver, mod):
    rule = "O6-no-interior-mutability"
    seen = set()
    work = [mod + "::Connection"]
    bad = []
    n = 0
    while work:
        p = work.pop()
        if p in seen:
            continue
        seen.add(p)
        a = prog.adts.get(p)
        if a is None:
            continue
        for v in a["variants"]:
            for f in v["fields"]:
                n += 1
                ty = f["ty"]
                if any(x in ty for x in INTERIOR) or ty.startswith("&"):
                    bad.append("%s.%s: %s" % (p, f["n"], ty))
                _collect_adts(f.get("tj"), work)
    rep.ob(rule, "%s | Connection type tree" % ver, not bad,
           "no Cell/RefCell/atomic/raw pointer/reference in the %d fields of the %d types reachable from Connection" % (n, len(seen))
           if not bad else "interior mutability / references in Connection state: %s" % bad, None)
    # Packet::read has no parameter through which *self is reachable: its arguments in feed_impl are
    # warn, data, (hint), buffer -- checked as: no argument expression is rooted in `self` with &mut
    fb = prog.one(mod + "::Connection::feed_impl")
    ir = IR(fb)
    for bi, t in fb.calls():
        f = t.get("callee") or ""
        if f.endswith("::Packet::read"):
            ok = True
            for ao in t["args"]:
                pl = ao.get("cp") or ao.get("mv")
                if pl is None:
                    continue
                ty = pl.get("t") or fb.locals[pl["l"]]["ty"]
                e = ir.place(pl, (bi, len(fb.blocks[bi]["st"])))
                if "&mut" in ty and ir.access_path(e)[0] == ("a", 0):
                    ok = False
            rep.ob(rule, "%s | Packet::read receives no &mut self" % ver, ok,
                   "the reader is called without mutable access to the connection", fb.loc(t.get("ln")))


def _collect_adts(tj, work):
    if not isinstance(tj, dict):
        return
    if tj.get("k") == "adt":
        work.append(tj["p"])
        for a in tj.get("a", []):
            _collect_adts(a, work)
    for key in ("to", "of"):
        if isinstance(tj.get(key), dict):
            _collect_adts(tj[key], work)
    for e in tj.get("e", []) if isinstance(tj.get("e"), list) else []:
        _collect_adts(e, work)


def hint(prog, rep):
    rule = "O4-token-hint"
    mod = "libtw2_net::connection"
    fb = prog.one(mod + "::Connection::feed_impl")
    ir = IR(fb)
    n = 0
    for bi, t in fb.calls():
        f = t.get("callee") or ""
        if f == "libtw2_net::protocol::Packet::read":
            n += 1
            h = ir.term_operand(bi, t["args"][2])
            # Option::map(State::token(&self.state), |t| t.is_some())
            ok = (h[0] == "call" and h[1].endswith("Option::map") and h[2] and h[2][0][0] == "call"
                  and h[2][0][1] == mod + "::State::token"
                  and ir.access_path(h[2][0][2][0])[0] == ("a", 0))
            clos = h[2][1] if ok and len(h[2]) > 1 else None
            if ok and clos is not None and clos[0] == "agg" and clos[1] == "closure":
                cb = prog.bodies.get(clos[2])
                if cb is not None:
                    ok = any((tt.get("callee") or "").endswith("Option::is_some") for _, tt in cb.calls())
            rep.ob(rule, "0.6 | feed_impl | token_hint", ok,
                   "the reader's token hint is `state.token().map(is_some)` of the same state: %s" % show(h)[:140],
                   fb.loc(t.get("ln")))
    rep.floor(rule, n, 1, "Packet::read call in 0.6 feed_impl")


def exception7(prog, rep):
    rule = "O3-token-request-exception"
    mod = "libtw2_net::connection7"
    pmod = "libtw2_net::protocol7"
    body = prog.one(mod + "::Connection::feed_impl")
    ir = IR(body)
    # the variable compared at the gate
    gates = [g for g in find_gates(body, ir, mod) if g[2] == "token-compare"]
    var = None
    for bi, tgt, kind, txt in gates:
        e = ir.term_operand(bi, body.blocks[bi]["term"]["o"])
        e2, _ = strip_not(e)
        c = cmp_call(e2)
        for x in (c[1], c[2]):
            if x[0] == "var" and len(ir.defs.get(x[1], [])) >= 2:
                var = x[1]
    if var is None:
        raise AnchorLost("0.7 feed_impl: no `expected_token` variable with an exceptional assignment")
    exc = []
    for (bi, si, kind, node) in ir.defs.get(var, []):
        if kind == "assign":
            v = ir.rvalue(node["r"], (bi, si))
            if _is_const(prog, v, pmod + "::TOKEN_NONE"):
                exc.append((bi, si))
    rep.floor(rule, len(exc), 1, "`expected_token = TOKEN_NONE` assignment")
    adt_state = prog.adt(mod + "::State")
    pc_idx = [i for i, v in enumerate(adt_state["variants"]) if v["name"] == "PendingConnect"]
    for bi, si in exc:
        conds = ir.edge_conditions(bi)
        got = {"type_control": False, "type_token": False, "state_pending_connect": False, "token_none": False}
        known = {}
        for e, rel, v, edge, dty in conds:
            if e[0] == "discr" and rel == "==":
                txt = show(e[1])
                ty = ir.type_of(e[1]) or ""
                if "ConnectedPacketType" in ty or txt.endswith(".type_"):
                    vn = _variant_name(prog, pmod + "::ConnectedPacketType", v)
                    if vn == "Control":
                        got["type_control"] = True
                        known[strip_sites(e[1])] = v
                elif "ControlPacket" in ty or "as Control).0" in txt:
                    vn = _variant_name(prog, pmod + "::ControlPacket", v)
                    if vn == "Token":
                        got["type_token"] = True
                        known[strip_sites(e[1])] = v
                elif ir.access_path(e[1]) == (("a", 0), ("state",)):
                    if pc_idx and v == pc_idx[0]:
                        got["state_pending_connect"] = True
                        known[strip_sites(e[1])] = v
            else:
                e2, neg = strip_not(e)
                c = cmp_call(e2)
                if c is not None:
                    is_eq, a, b = c
                    if any(_is_const(prog, x, pmod + "::TOKEN_NONE") for x in (a, b)):
                        truth = (rel == "==" and v == 1) or (rel == "notin" and 0 in v)
                        if (is_eq == truth) != neg:
                            got["token_none"] = True
        for k, ok in sorted(got.items()):
            rep.ob(rule, "0.7 | exception dominated by | %s" % k, ok,
                   "the unauthenticated-token-request exception is %sguarded by `%s`" % ("" if ok else "NOT ", k),
                   body.loc(body.blocks[bi]["st"][si].get("ln")))
        # effects reachable from the exception under the established variant facts
        kills = ir._kills if ir._kills is not None else {}
        ir._ensure()
        kills = ir._kills

        def kill_pred(key, bb, idx):
            # facts about self.state die at any write to it; facts about the packet never die
            r = None
            e = key
            while isinstance(e, tuple) and e and e[0] in ("deref", "field", "variant", "unwrapped", "ref"):
                e = e[1] if e[0] != "ref" else e[2]
            if not (isinstance(e, tuple) and e and e[0] == "arg" and e[1] == 0):
                return False
            return ir._kills_loc((bb, idx), (("a", 0), ("state",)))

        reach = typestate_reach(body, ir, bi, known, kill_pred)
        effs = [ef for ef in feed_effects(body, ir, mod) if ef.bb in reach]
        names = sorted(set(ef.desc.split("(")[0] for ef in effs))
        allowed = lambda d: d.endswith("::send_control_with_token") or d.endswith("::send_control_with_token")
        bad = [ef for ef in effs if not (ef.kind in ("mutcall", "use") and allowed(ef.desc.split("(")[0]))]
        rep.ob(rule, "0.7 | exception | only effect is the token reply", not bad and bool(effs),
               "under (Control(Token), PendingConnect) the reachable effects are %s" % names
               if not bad else "the exception path reaches other effects: %s" % sorted(set(e.desc[:80] for e in bad)),
               body.loc())


def _is_const(prog, x, cpath):
    """expression x denotes the named constant cpath (by name, or by its evaluated bytes)"""
    for y in walk(x):
        if isinstance(y, tuple) and y and y[0] == "k":
            nm = y[2] or ""
            if nm == cpath:
                return True
            if nm.startswith("bytes:"):
                c = prog.consts.get(cpath)
                if c is not None and c.get("bytes") == nm[6:] and (c.get("ty") or "") == y[1]:
                    return True
    return False


def _variant_name(prog, adt_path, idx):
    a = prog.adts.get(adt_path)
    if not a or idx >= len(a["variants"]):
        return None
    return a["variants"][idx]["name"]
