"""Reviewed panic sites in crates shared by several properties (buffer, common, huffman).

Each line names one site by (function | kind | operator/callee | ordinal) and says why it cannot
fire.  Lines marked INV rest on the object invariant `*initialized_ <= buffer.len()` of
`BufferRef`, which C19's rule R3 decides inductively (construction sites + every writer)."""

INV = "BufferRef invariant `*initialized_ <= buffer.len()` (decided by C19 R3-invariant)"

BUFFER = {
    'libtw2_buffer::BufferRef::advance | overflow | Add | 0':
        "unsafe fn, contract: callers pass the number of bytes they wrote into uninitialized_mut() "
        "(decided per call site by C19 R4-caller-protocol); usize + usize of in-memory lengths",
    'libtw2_buffer::BufferRef::advance | panic-call | assert! | 0':
        "the defensive assert of the unsafe commit: fires only if a caller breaks the protocol checked by C19 R4",
    'libtw2_buffer::BufferRef::extend | slice-index | RangeFrom | 0': INV,
    'libtw2_buffer::BufferRef::extend | overflow | Add | 0':
        "incremented once per slot yielded by the iterator over buffer[initialized..]: bounded by buffer.len()",
    'libtw2_buffer::BufferRef::initialized | slice-index | RangeTo | 0': INV,
    'libtw2_buffer::BufferRef::new | panic-call | assert! | 0':
        "debug_assert!(*initialized == 0): every intermediate passes a freshly zeroed counter (C19 R3 construction sites)",
    'libtw2_buffer::BufferRef::remaining | overflow | Sub | 0': INV,
    'libtw2_buffer::BufferRef::uninitialized_mut | slice-index | RangeFrom | 0': INV,
    'libtw2_buffer::impls::arrayvec::ArrayVecBuffer::buffer | overflow | Sub | 0':
        "ArrayVec guarantees len() <= capacity()",
    'libtw2_buffer::impls::buffer_ref::BufferRefBuffer::buffer | slice-index | RangeFrom | 0': INV,
    'libtw2_buffer::impls::vec::VecBuffer::buffer | overflow | Sub | 0':
        "Vec guarantees len() <= capacity()",
}

HUFFMAN_DECOMPRESS = {
    'libtw2_huffman::Huffman::decompress_unsafe | unwrap | unwrap<-Huffman::get_node | 0':
        "get_node(ROOT_IDX) is Ok iff the root is an inner node: a property of the constant table, validated by C07 R1",
    'libtw2_huffman::Huffman::decompress_unsafe | precondition | libtw2_huffman::Huffman::get_node | 1':
        "children of inner nodes are < NUM_NODES: property of the constant table, validated by C07 R1",
    'libtw2_huffman::Huffman::decompress_unsafe | assert-cast | assert_u8 | 0':
        "reached only for leaf indices != EOF (256) and leaves are < 257: table shape validated by C07 R1",
    'libtw2_huffman::Huffman::decompress_unsafe | overflow | Add | 0':
        "len counts slots taken from the output slice iterator: bounded by the slice length",
}

HUFFMAN_DECOMPRESS_LOOPS = {
    'libtw2_huffman::Huffman::decompress_unsafe | loop | 0':
        "outer loop consumes one input byte per iteration (slice iterator, leaves on None); the inner bit loop "
        "runs 8 times; every leaf either exits (EOF) or consumes one output slot (C07 R3)",
}

# common::slice::{transmute, relative_size_of_mult} are generic over <T, U>; their sites are keyed in the
# generic body, the reasons name the instantiations reachable from each property's entry points
# (serverbrowse: <u8, Addr5Packed|Addr6Packed> after `len - len % size_of`; gamenet: <Obj, i32> on repr(C)
# all-i32 structs).  The datafile instantiations are decided separately by C16 (type-instantiated precondition).
COMMON_SLICE = {
    'libtw2_common::slice::relative_size_of_mult | overflow | Mul | 0':
        "mult is the length of an existing &[T]: len * size_of::<T>() is the byte size of an allocation (<= isize::MAX)",
    'libtw2_common::slice::relative_size_of_mult | overflow | Mul | 1':
        "same product as the line above",
    'libtw2_common::slice::transmute | divzero | rem | 0':
        "align_of::<U>() is never 0",
    'libtw2_common::slice::transmute | panic-call | assert! | 0':
        "alignment compatibility is a compile-time property of the instantiation: targets used are align-1 packed "
        "byte structs or i32 from i32-aligned sources",
    'libtw2_common::slice::transmute | precondition | libtw2_common::slice::relative_size_of_mult | 0':
        "callers pass slices whose byte length is a multiple of size_of::<U>() (len - len % size, or whole repr(C) structs)",
}

PACKER_READ = {
    'libtw2_packer::read_string | slice-index | RangeTo | 0':
        "i is the enumerate index of an element yielded by the iterator whose as_slice() was taken before the loop: i < slice.len()",
    'libtw2_packer::read_int | overflow | Add | 0':
        "len counts the bytes of one varint: at most 5 (the loop runs at most 4 times)",
}
