"""Reviewed panic-site tables, one module per crate (written by reading the code; see each file).

`SUSPECT` entries of a crate table are NOT trusted: they are reported as violations unless
`triage.py` re-classifies them with a reason (documented / argument-only API precondition, or
outside the property's quantifier), they are repaired in /repo, or they are listed in
/verif/known_findings.json."""
import importlib


def load(*names):
    out = {}
    for n in names:
        m = importlib.import_module("sa.rules.tables." + n)
        out.update(m.REVIEWED)
    from . import triage
    out.update(triage.TRIAGED)
    return out


def loops(*names):
    out = {}
    for n in names:
        m = importlib.import_module("sa.rules.tables." + n)
        out.update(getattr(m, "LOOPS", {}))
    return out
