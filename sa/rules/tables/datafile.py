"""Reviewed panic sites of libtw2_datafile (read against the source on 2026-09-24)."""
REVIEWED = {
    # ---- bitmagic::swap_endian (module `bitmagic` is private; only instantiated with T = i32) ----
    'libtw2_datafile::bitmagic::swap_endian | overflow | Mul | 0':
        "`mod bitmagic` is private (lib.rs) and swap_endian is only reached through from_/to_little_endian, whose three "
        "callers (read_le_i32s, read_exact_le_i32s, Header::read) all pass as_mut_i32_slice(..) i.e. T = i32; i < len "
        "and len*4 is the byte size of an in-memory slice (<= isize::MAX), so i*4 cannot overflow. (Also dead on "
        "little-endian targets: guarded by cfg!(target_endian = \"big\").)",
    'libtw2_datafile::bitmagic::swap_endian | overflow | Add | 0':
        "T = i32 only (private module, callers pass as_mut_i32_slice): start + 4 = (i+1)*4 <= len*4 = byte length of "
        "the slice <= isize::MAX.",
    'libtw2_datafile::bitmagic::swap_endian | overflow | Sub | 0':
        "T = i32 only (private module, all callers go through as_mut_i32_slice), so size_of::<T>() = 4 and "
        "start + 4 - 1 >= 3; the ZST case (0 + 0 - 1) is not instantiable from outside the crate.",
    'libtw2_datafile::bitmagic::swap_endian | api | std::slice::swap | 0':
        "buffer_bytes = transmute_mut_slice::<i32, u8>(buffer) has len*4 bytes; inside the while loop "
        "start < end <= i*4 + 3 < len*4 because i < len, so both swap indices are in bounds.",
    'libtw2_datafile::bitmagic::swap_endian | overflow | Add | 1':
        "Executed only under the loop guard `start < end`, so start + 1 <= end <= usize::MAX.",
    'libtw2_datafile::bitmagic::swap_endian | overflow | Sub | 1':
        "Executed only under the loop guard `start < end`, so end >= 1 and end - 1 cannot underflow.",
    "<&'a mut (dyn libtw2_datafile::raw::CallbackNew + 'a) as libtw2_datafile::bitmagic::CallbackNewExt>::read_le_i32s | slice-index | RangeTo | 0":
        "as_mut_i32_slice(buffer) has byte_len/4 elements and read/4 <= byte_len/4 as long as CallbackNew::read "
        "returns at most buffer.len() (the io::Read-style contract of the callback); the crate's only implementation, "
        "file::CallbackDataNew::read, returns ReadExt::read_retry's count which is bounded by `while read != buffer.len()` "
        "over `&mut buffer[read..]`. File contents cannot influence this; only a foreign CallbackNew impl that "
        "over-reports its read count (implementor bug) could trip it.",

    # ---- file.rs ----
    '<std::result::Result as libtw2_datafile::file::ResultExt>::retrieve::{closure#0} | unwrap | unwrap<-Option::take | 0':
        "raw::Error::Callback is only produced from a CallbackError (From<CallbackError> / CallbackReadError::on_eof), and "
        "every path in file.rs that returns CallbackError (CallbackDataNew::read, ::ensure_filesize, CallbackData::seek_read) "
        "does `self.error = Some(e)` in the same map_err closure; raw.rs propagates the error with `?` immediately, so "
        "the slot passed to retrieve (the same callback object's `error`) is Some.",
    'libtw2_datafile::file::Reader::new_impl | unwrap | unwrap<-var | 0':
        "Reached only after raw::Reader::new returned Ok (the `?` on line 89); raw::Reader::new executes "
        "`cb.set_seek_base()?` before any Ok return and CallbackDataNew::set_seek_base sets seek_base = Some(..).",
    'libtw2_datafile::file::Reader::read_data | unwrap | unwrap<-Option::take | 0':
        "Reached only after raw::Reader::read_data returned Ok; both of its branches call `cb.alloc_data_buffer(data_len)?` "
        "before returning Ok, and CallbackData::alloc_data_buffer always sets buffer = Some(vec).",
    '<libtw2_datafile::file::CallbackData as libtw2_datafile::raw::CallbackReadData>::data_buffer | unwrap | unwrap<-arg | 0':
        "CallbackData is a private struct; data_buffer is only called by raw::Reader::read_data right after "
        "`cb.alloc_data_buffer(..)?` (sets buffer = Some) and by raw::Reader::debug_dump right after `self.read_data(cb, i)?` "
        "succeeded on the same cb (which allocated the buffer); file::Reader::read_data's take() is always followed by a "
        "fresh alloc before the next data_buffer call.",

    # ---- format.rs ----
    'libtw2_datafile::format::Header::read | slice-index | RangeTo | 0':
        "slice = as_mut_i32_slice(slice::from_mut(&mut result)) over one Header = 36 bytes = 9 i32s, so `..1` is in bounds.",
    'libtw2_datafile::format::Header::check_size_and_swaplen | precondition | libtw2_datafile::format::Header::calculate_size_field | 0':
        "total_size is the Ok value of calculate_total_size: a u64 sum whose first term is size_of::<Header>() = 36 and "
        "which passed try_i32, so 36 <= total_size <= i32::MAX and total_size - 16 cannot overflow.",
    'libtw2_datafile::format::Header::check_size_and_swaplen | precondition | libtw2_datafile::format::Header::calculate_size_field | 1':
        "Same argument: expected_total_size comes from calculate_total_size()? and is in [36, i32::MAX]; total_size - 16 >= 20.",
    'libtw2_datafile::format::Header::check_size_and_swaplen | precondition | libtw2_datafile::format::Header::calculate_swaplen_field | 0':
        "calculate_swaplen_field only forwards total_size to calculate_size_field; total_size in [36, i32::MAX] "
        "(calculate_total_size starts its u64 sum with 36 and ends with try_i32), so total_size - 16 is fine.",
    'libtw2_datafile::format::Header::check_size_and_swaplen | precondition | libtw2_datafile::format::Header::calculate_swaplen_field | 1':
        "Same: total_size in [36, i32::MAX] from calculate_total_size()?; total_size - 16 >= 20.",
    'libtw2_datafile::format::Header::check_size_and_swaplen | assert-cast | assert_u32 | 0':
        "expected_total_size is an i32 >= 36 (u64 sum starting at size_of::<Header>() = 36, then try_i32), hence non-negative "
        "and representable as u32.",
    'libtw2_datafile::format::Header::calculate_size_field | overflow | Mul | 1':
        "Only called from check_size_and_swaplen after calculate_total_size()? returned Ok: num_data >= 0 (else "
        "u(num_data).assert_u64 would already have panicked / HeaderRest::check rejected it) and the total "
        "36 + ... + 4*num_data + ... passed try_i32, so 4*num_data <= i32::MAX.",
    'libtw2_datafile::format::Header::calculate_size_field | overflow | Sub | 1':
        "result = total_size - 16 and total_size >= 36 + 4*num_data (the data_offsets term of calculate_total_size, all "
        "other terms >= 0), so result - 4*num_data >= 20; both operands are non-negative i32 so no overflow either way.",
    'libtw2_datafile::format::Header::calculate_swaplen_field | overflow | Sub | 0':
        "calculate_size_field(..) >= 20 + size_data in both variants (total_size >= 36 + 4*num_data + size_data with all "
        "terms >= 0) and size_data >= 0, so the difference is in [20, i32::MAX]; non-negative minus non-negative i32 never overflows.",
    'libtw2_datafile::format::Header::calculate_total_size | overflow | Add | 0':
        "u64 arithmetic: s() <= 36 and every u(x) comes from an i32 so is < 2^31; the whole sum is < 36 + (12+4+4+4+1+1)*2^31 < 2^36.",
    'libtw2_datafile::format::Header::calculate_total_size | overflow | Add | 1':
        "u64 arithmetic on terms < 36*2^31; total < 2^36, no u64 overflow.",
    'libtw2_datafile::format::Header::calculate_total_size | overflow | Add | 2':
        "u64 arithmetic on terms < 36*2^31; total < 2^36, no u64 overflow.",
    'libtw2_datafile::format::Header::calculate_total_size | overflow | Add | 3':
        "u64 arithmetic on terms < 36*2^31; total < 2^36, no u64 overflow.",
    'libtw2_datafile::format::Header::calculate_total_size | overflow | Add | 4':
        "u64 arithmetic on terms < 36*2^31; total < 2^36, no u64 overflow.",
    'libtw2_datafile::format::Header::calculate_total_size | overflow | Add | 5':
        "u64 arithmetic on terms < 36*2^31; total < 2^36, no u64 overflow.",
    'libtw2_datafile::format::Header::calculate_total_size | overflow | Mul | 0':
        "s::<ItemType>() = 12 times u(i32) < 2^31, computed in u64: < 2^35.",
    'libtw2_datafile::format::Header::calculate_total_size | overflow | Mul | 1':
        "s::<i32>() = 4 times u(i32) < 2^31, computed in u64: < 2^33.",
    'libtw2_datafile::format::Header::calculate_total_size | overflow | Mul | 2':
        "s::<i32>() = 4 times u(i32) < 2^31, computed in u64: < 2^33.",
    'libtw2_datafile::format::Header::calculate_total_size | overflow | Mul | 3':
        "s::<i32>() = 4 times u(i32) < 2^31, computed in u64: < 2^33.",
    'libtw2_datafile::format::Header::calculate_total_size | precondition | libtw2_datafile::format::Header::calculate_total_size::u | 3':
        "Line 173 converts the same field (self.hr.num_data) that line 172 already converted with u(); operands are "
        "evaluated left to right, so if num_data were negative the panic would be at line 172 and this site is never the "
        "one that fires (and via Header::read, HeaderRest::check's `self.num_data < 0` clause rejects it anyway).",

    # ---- raw.rs: Reader::new / Reader::check ----
    'libtw2_datafile::raw::Reader::new | panic-call | unreachable_2021! | 0':
        "header comes from format::Header::read, which runs `result.hv.check()?`; HeaderVersion::check returns "
        "UnsupportedVersion when `self.version != VERSION3 && self.version != VERSION4`, so version is 3 or 4 here.",
    'libtw2_datafile::raw::Reader::check | api | <std::vec::Vec as std::ops::Index>::index | 0':
        "`self.item_types[..i]` with i produced by self.item_types.iter().enumerate(), so i < item_types.len().",
    'libtw2_datafile::raw::Reader::check | overflow | Sub | 1':
        "num_item_types >= 0 by HeaderRest::check (`self.num_item_types < 0` -> MalformedHeader, run in Header::read), so "
        "num_item_types - 1 >= -1 (log-message argument only).",
    'libtw2_datafile::raw::Reader::check | api | <std::vec::Vec as std::ops::Index>::index | 1':
        "i < num_items as usize and item_offsets was built in Reader::new by read_i32s(cb, header.hr.num_items as usize) "
        "(read_exact_le_i32s_owned returns a Vec of exactly `count` elements); Reader has no other constructor and the fields "
        "are private/immutable, num_items >= 0 by HeaderRest::check.",
    'libtw2_datafile::raw::Reader::check | api | <std::vec::Vec as std::ops::Index>::index | 2':
        "Same index i as line 199: i < num_items as usize == item_offsets.len() (Reader::new, read_i32s(cb, num_items as usize)).",
    'libtw2_datafile::raw::Reader::check | api | <std::vec::Vec as std::ops::Index>::index | 3':
        "Same index i as line 199: i < num_items as usize == item_offsets.len() (Reader::new, read_i32s(cb, num_items as usize)).",
    'libtw2_datafile::raw::Reader::check | api | <std::vec::Vec as std::ops::Index>::index | 4':
        "Same index i as line 199: i < num_items as usize == item_offsets.len() (Reader::new, read_i32s(cb, num_items as usize)).",
    'libtw2_datafile::raw::Reader::check | overflow | Add | 1':
        "Loop invariant: offset starts at 0 and every iteration that continues has passed `offset > size_items as usize` -> Err "
        "(line 230), so offset <= size_items <= i32::MAX at the top of the loop; + 8 fits even a 32-bit usize.",
    'libtw2_datafile::raw::Reader::check | overflow | Add | 2':
        "item_header.size >= 0 (line 222 returns Malformed otherwise) so the cast is <= 2^31-1, and offset <= size_items <= "
        "2^31-1 after the line 214 check; the sum is <= 2^32-2 and fits usize on 32- and 64-bit targets.",
    'libtw2_datafile::raw::Reader::check | overflow | Sub | 2':
        "num_items >= 0 by HeaderRest::check (`self.num_items < 0` -> MalformedHeader), so num_items - 1 >= -1 "
        "(log-message argument only).",
    'libtw2_datafile::raw::Reader::check | api | <std::vec::Vec as std::ops::Index>::index | 5':
        "i < num_data as usize and, when uncomp_data_sizes is Some, it was built in Reader::new by "
        "read_i32s(cb, header.hr.num_data as usize), so uds.len() == num_data.",
    'libtw2_datafile::raw::Reader::check | api | <std::vec::Vec as std::ops::Index>::index | 6':
        "Same index as line 252 (log-message argument): i < num_data as usize == uds.len().",
    'libtw2_datafile::raw::Reader::check | api | <std::vec::Vec as std::ops::Index>::index | 7':
        "i < num_data as usize and data_offsets was built in Reader::new by read_i32s(cb, header.hr.num_data as usize), "
        "so data_offsets.len() == num_data.",
    'libtw2_datafile::raw::Reader::check | overflow | Sub | 3':
        "`i - 1` is only evaluated when `previous > offset`; line 261 already rejected offset < 0 and previous is 0 in the "
        "first iteration, so the branch is impossible for i == 0 and i >= 1 here.",
    'libtw2_datafile::raw::Reader::check | overflow | Add | 3':
        "The fourth block runs only after the first block accepted every item type: `t.start != expected_start` -> Err makes "
        "start equal the running sum (>= 0) and `0 <= t.num && t.num <= num_items - t.start` gives start + num <= num_items <= i32::MAX.",

    # ---- raw.rs: item_header (called from check lines 221/276 and from item) ----
    'libtw2_datafile::raw::Reader::item_header | assert-cast | assert_usize | 0':
        "From check line 221: line 199 (`self.item_offsets[i] < 0` -> Malformed) ran just before. From check line 276 / "
        "Reader::item: the second block of Reader::check validated every item_offsets[i] >= 0 and Reader::new only returns a "
        "Reader after check() succeeded.",
    'libtw2_datafile::raw::Reader::item_header | slice-index | RangeTo | 0':
        "Reader::check lines 206-214 establish item_offsets[i] == offset and offset + size_of::<ItemHeader>() (8) <= size_items, "
        "and items_raw.len() == size_items/4 (Reader::new line 128-131), so after skipping offset/4 ints at least 2 remain; "
        "relative_size_of::<ItemHeader, i32>() = 8/4 = 2 (8 % 4 == 0, assertion holds).",
    'libtw2_datafile::raw::Reader::item_header | bounds | index | 0':
        "The slice has exactly 2 i32s; transmute_slice::<i32, ItemHeader> yields relative_size_of_mult::<i32, ItemHeader>(2) = "
        "8/8 = 1 element (align 4 % 4 == 0, 8 % 8 == 0), so [0] is in bounds.",

    # ---- raw.rs: data accessors ----
    'libtw2_datafile::raw::Reader::data_size_file | overflow | Sub | 0':
        "Evaluated after `self.data_offsets[index]` on line 297 succeeded, so data_offsets.len() >= 1.",
    'libtw2_datafile::raw::Reader::data_size_file | api | <std::vec::Vec as std::ops::Index>::index | 1':
        "Guarded by `index < self.data_offsets.len() - 1`, so index + 1 <= len - 1.",
    'libtw2_datafile::raw::Reader::data_size_file | panic-call | assert! | 0':
        "Third block of Reader::check: `offset < 0 || offset > self.header.hr.size_data` -> Malformed and `previous > offset` -> "
        "Malformed make data_offsets non-negative, non-decreasing and <= size_data, so start <= next offset and start <= size_data "
        "(non-negative i32s keep their order under `as usize`).",
    'libtw2_datafile::raw::Reader::read_data | api | <std::vec::Vec as std::ops::Index>::index | 0':
        "Line 314 `self.data_size_file(index)` already indexed data_offsets[index] successfully, so index < data_offsets.len().",
    'libtw2_datafile::raw::Reader::read_data | api | <std::vec::Vec as std::ops::Index>::index | 1':
        "index < data_offsets.len() (line 314 succeeded) and uncomp_data_sizes/data_offsets are both built in Reader::new with "
        "read_i32s(cb, header.hr.num_data as usize), so uds.len() == data_offsets.len().",

    # ---- raw.rs: item ----
    'libtw2_datafile::raw::Reader::item | api | <std::vec::Vec as std::ops::Index>::index | 0':
        "Line 347 `self.item_header(index)` already indexed item_offsets[index] successfully.",
    'libtw2_datafile::raw::Reader::item | assert-cast | assert_usize | 0':
        "Reader::check second block: `if self.item_offsets[i] < 0 { return Err(Malformed) }` for every i < num_items; a Reader "
        "only exists after check() returned Ok (Reader::new).",
    'libtw2_datafile::raw::Reader::item | api | <std::vec::Vec as std::ops::Index>::index | 1':
        "Identical expression to item_header line 288, which line 347 evaluated successfully just before (same immutable "
        "self): offset % 4 == 0 and offset/4 <= items_raw.len() (check: `offset != item_offsets[i]` / `offset > size_items` clauses).",
    'libtw2_datafile::raw::Reader::item | slice-index | RangeFrom | 0':
        "Reader::check line 213-214: offset + 8 <= size_items == 4*items_raw.len(), so the tail starting at offset/4 has >= 2 "
        "ints (item_header(index) on line 347 already took `[..2]` of the same tail).",
    'libtw2_datafile::raw::Reader::item | assert-cast | assert_usize | 1':
        "Reader::check line 222: `if item_header.size < 0 { return Err(Malformed) }` for every item.",
    'libtw2_datafile::raw::Reader::item | slice-index | RangeTo | 0':
        "Bounds: check line 229-230 (`offset += size; if offset > size_items` -> Malformed) gives off + 8 + size <= size_items "
        "= 4*items_raw.len(). Divisibility for relative_size_of_mult::<u8, i32>(size): check required item_offsets[i+1] == "
        "item_offsets[i] + 8 + size_i and its item_header(i) call asserted every item_offsets[i] % 4 == 0 (a violating file "
        "panics inside check and never yields a Reader), and for the last item offset == size_items with "
        "size_items % 4 == 0 (HeaderRest::check), hence every size % 4 == 0.",

    # ---- raw.rs: counters / item types ----
    'libtw2_datafile::raw::Reader::num_items | assert-cast | assert_usize | 0':
        "HeaderRest::check (called by Header::read): `self.num_items < 0` -> MalformedHeader.",
    'libtw2_datafile::raw::Reader::num_data | assert-cast | assert_usize | 0':
        "HeaderRest::check (called by Header::read): `self.num_data < 0` -> MalformedHeader.",
    'libtw2_datafile::raw::Reader::num_item_types | assert-cast | assert_usize | 0':
        "HeaderRest::check (called by Header::read): `self.num_item_types < 0` -> MalformedHeader.",
    'libtw2_datafile::raw::Reader::item_type_indices | assert-cast | assert_usize | 0':
        "Reader::check first block: `t.start != expected_start` -> Malformed, where expected_start is 0 plus the sum of "
        "previously accepted nums (each >= 0), so every t.start >= 0.",
    'libtw2_datafile::raw::Reader::item_type_indices | assert-cast | assert_usize | 1':
        "Reader::check first block: `!(0 <= t.num && ...)` -> Malformed, so t.num >= 0.",
    'libtw2_datafile::raw::Reader::item_type_indices | overflow | Add | 0':
        "Reader::check first block: `t.num <= self.header.hr.num_items - t.start` gives start + num <= num_items <= i32::MAX, "
        "far below usize::MAX.",
    'libtw2_datafile::raw::Reader::item_type | assert-cast | assert_u16 | 0':
        "Reader::check first block: `!(0 <= t.type_id && t.type_id < format::ITEMTYPE_ID_RANGE)` (0x10000) -> Malformed for "
        "every item type.",
}
SUSPECT = {
    # ---- triggerable by file contents (both confirmed with a scratch test, debug profile) ----
    'libtw2_datafile::raw::Reader::check | overflow | Sub | 0':
        "File-triggerable (confirmed): `t.num <= self.header.hr.num_items - t.start` is evaluated before t.start is compared "
        "with expected_start, and t.start is a raw i32 from the file. Reader::open on the 48-byte file "
        "\"DATA\", version=4, size=32, swaplen=32, num_item_types=1, num_items=0, num_data=0, size_items=0, size_data=0, "
        "item_type{type_id=0, start=i32::MIN, num=0} passes Header::read and check_size_and_swaplen, then "
        "0 - i32::MIN panics 'attempt to subtract with overflow' at raw.rs:171 (any start <= num_items - 2^31 works).",
    'libtw2_datafile::raw::Reader::item_header | api | <std::vec::Vec as std::ops::Index>::index | 1':
        "File-triggerable (confirmed): the range start is relative_size_of_mult::<u8, i32>(item_offsets[index]) which "
        "asserts offset % 4 == 0, but Reader::check (line 221) calls item_header(i) after only checking "
        "item_offsets[i] == running offset, and the running offset includes the previous item's size which is never checked "
        "for divisibility by 4. File: v4 header size=60 swaplen=60 num_item_types=1 num_items=2 num_data=0 size_items=20 "
        "size_data=0, item_type{0,0,2}, item_offsets=[0,10], items=[0, 2, 0,0,0] (item 0 has size 2) -> check iteration i=1 "
        "calls relative_size_of_mult(10) -> 'assertion failed: mult * size_of::<T>() % size_of::<U>() == 0' "
        "(common/src/slice.rs:6). The bounds part of the index itself is fine (offset + 8 <= size_items = 4*items_raw.len()).",

    # ---- environment-only ----
    '<libtw2_datafile::file::CallbackDataNew as libtw2_datafile::raw::CallbackNew>::ensure_filesize::inner | unwrap | unwrap<-num::checked_sub | 0':
        "Environment-only, not triggerable by file contents: file::Reader::new(file) records datafile_start = current seek "
        "position, later `metadata()?.len().checked_sub(datafile_start).unwrap()`. For a regular unmodified file the earlier "
        "successful header reads imply len >= datafile_start + 36, and Reader::open uses datafile_start = 0 (always Some). But "
        "nothing in the code guarantees len >= datafile_start: a File positioned at offset > 0 whose st_size is 0 (block "
        "device / procfs-like file) or a file truncated by another process between the reads and metadata() gives None -> "
        "unwrap panic instead of an io::Error.",

    # ---- caller-misuse only (undocumented preconditions of pub functions) ----
    'libtw2_datafile::raw::Reader::item_header | api | <std::vec::Vec as std::ops::Index>::index | 0':
        "Caller-misuse only, not reachable from file data: pub fn Reader::item(index) (raw and file) has no doc comment and "
        "forwards an arbitrary index to item_header -> self.item_offsets[index]; reader.item(reader.num_items()) panics with "
        "index out of bounds, like slice indexing. Safe from Reader::check (i < num_items == item_offsets.len(); "
        "k in start..start+num <= num_items) and from items()/item_type_items()/find_item (ranges within 0..num_items).",
    'libtw2_datafile::raw::Reader::data_size_file | api | <std::vec::Vec as std::ops::Index>::index | 0':
        "Caller-misuse only, not reachable from file data: pub fn Reader::read_data(index) (raw::Reader::read_data and "
        "file::Reader::read_data) has no doc comment and passes an arbitrary index to data_size_file -> "
        "self.data_offsets[index]; read_data(num_data()) panics with index out of bounds. Safe from debug_dump and "
        "data_iter (0..num_data(), data_offsets.len() == num_data by Reader::new).",
    'libtw2_datafile::raw::Reader::item_type | api | <std::vec::Vec as std::ops::Index>::index | 0':
        "Caller-misuse only, not reachable from file data: pub fn Reader::item_type(index) has no doc comment; "
        "item_type(num_item_types()) panics with index out of bounds on self.item_types[index]. Safe from item_types() "
        "(0..num_item_types(), item_types.len() == num_item_types by Reader::new).",
    'libtw2_datafile::format::Header::calculate_total_size | precondition | libtw2_datafile::format::Header::calculate_total_size::u | 0':
        "Direct-call only: `pub mod format` exposes Header/HeaderRest with pub fields and pub fn check_size_and_swaplen (no doc "
        "comment); Header{hr: HeaderRest{num_item_types: -1, ..}, ..}.check_size_and_swaplen() -> u(-1).assert_u64() panics. "
        "Via raw::Reader::new the header comes from Header::read, which runs HeaderRest::check "
        "(`self.num_item_types < 0` -> MalformedHeader) first, so no file can trigger it.",
    'libtw2_datafile::format::Header::calculate_total_size | precondition | libtw2_datafile::format::Header::calculate_total_size::u | 1':
        "Direct-call only: hand-built format::Header with hr.num_items = -1 (num_item_types >= 0) passed to pub "
        "check_size_and_swaplen -> assert_u64 panic. Via Header::read, HeaderRest::check's `self.num_items < 0` clause rejects it.",
    'libtw2_datafile::format::Header::calculate_total_size | precondition | libtw2_datafile::format::Header::calculate_total_size::u | 2':
        "Direct-call only: hand-built format::Header with hr.num_data = -1 (earlier fields >= 0) passed to pub "
        "check_size_and_swaplen -> assert_u64 panic. Via Header::read, HeaderRest::check's `self.num_data < 0` clause rejects it.",
    'libtw2_datafile::format::Header::calculate_total_size | precondition | libtw2_datafile::format::Header::calculate_total_size::u | 4':
        "Direct-call only: hand-built format::Header with hr.size_items = -1 (earlier fields >= 0) passed to pub "
        "check_size_and_swaplen -> assert_u64 panic. Via Header::read, HeaderRest::check's `self.size_items < 0` clause rejects it.",
    'libtw2_datafile::format::Header::calculate_total_size | precondition | libtw2_datafile::format::Header::calculate_total_size::u | 5':
        "Direct-call only: hand-built format::Header with hr.size_data = -1 (earlier fields >= 0) passed to pub "
        "check_size_and_swaplen -> assert_u64 panic. Via Header::read, HeaderRest::check's `self.size_data < 0` clause rejects it.",
}
