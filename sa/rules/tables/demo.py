"""Reviewed panic sites of libtw2_demo (read against the source on 2026-09-24).

Summary of the writer-side contract questions:
* Header strings longer than their field (net_version/map_name >= 64 bytes, timestamp >= 20 bytes) and a map
  larger than i32::MAX are NEITHER errors NOR documented preconditions: `Writer::new`/`DemoWriter::new` return
  `Result<_, WriteError>` but panic through `assert!(raw.len() < N)` / `assert_i32()`; no doc comment says so.
* Payloads longer than the format allows (Huffman output > 65535 bytes, re-packed message > 65536 bytes) are
  NEITHER errors NOR documented preconditions: they hit `expect("too long compression")`,
  `expect("overlong message")` or `assert_u16()`.  `ddnet::DemoWriter` only turns overflow of its *own*
  64 KiB buffer into `TooLargeSnap`/`TooLongNetMsg`; the inner `Writer` panics are still reachable through it.
* `DemoWriter::write_snap` checks `tick < last_tick` (not `<=`), so writing the same tick twice reaches the
  `assert!(tick > p)` of `format::TickMarker::new` and panics instead of returning `TooLowTickNumber`.
"""
REVIEWED = {
    '<libtw2_demo::format::HeaderStart as binrw::BinRead>::read_options::{closure#0} | unwrap | unwrap<-ptr_try_from_impls::try_from | 0':
        "binrw's `count = header.map_size` expands to usize::try_from(i32).unwrap(); `Header::map_size` carries "
        "`#[br(assert(map_size >= 0))]`, which binrw_derive 0.11.1 emits as `ASSERT(..)?` directly after the field "
        "is read (struct_field.rs append_assertions), so Header::read_options returns Err(AssertFail) for negative "
        "sizes before HeaderStart reads `map`; a non-negative i32 always fits usize on 32/64-bit targets.",
    'libtw2_demo::format::CappedString::raw | slice-index | RangeTo | 0':
        "CappedString::length() is `position(..).unwrap_or(N)` over `bytes: [u8; N]`, hence <= N == bytes.len().",
    'libtw2_demo::format::CappedString::from_raw | slice-index | RangeTo | 0':
        "Dominated by `assert!(raw.len() < N)` two lines above in from_raw, so `bytes[..raw.len()]` is in range of "
        "the [u8; N] array and copy_from_slice sees equal lengths (the assert itself is listed separately).",
    'libtw2_demo::format::CappedString::check_padding_warn | slice-index | RangeFrom | 0':
        "CappedString::length() <= N (position in a [u8; N] or N), so `bytes[length..]` is at worst the empty tail.",
    'libtw2_demo::format::TimelineMarkers::markers | assert-cast | assert_usize | 0':
        "Invariant 0 <= amount <= 64: TimelineMarkers is only created by BinRead (field asserts "
        "`amount >= 0`, `amount <= 64` return Err), by Default (amount 0, used for `#[br(if(version >= V4))]`) and by "
        "the literal `amount: 0` in Writer::new; no code in the crate assigns `.amount` afterwards (struct is pub(crate)).",
    'libtw2_demo::format::TimelineMarkers::markers | slice-index | RangeTo | 0':
        "Same invariant amount <= 64 (binrw field assert / Default / Writer::new literal) and `markers: [i32; 64]`.",
    'libtw2_demo::format::TimelineMarkers::check | assert-cast | assert_usize | 0':
        "amount >= 0 by the binrw field assert on read or Default; check() is only called from Reader::new on the "
        "freshly parsed HeaderStart.",
    'libtw2_demo::format::TimelineMarkers::check | slice-index | Range | 0':
        "amount <= 64 by the binrw field assert / Default, so `markers[amount..64]` has start <= end == len.",
    'libtw2_demo::format::TimelineMarkers::check | api | std::slice::windows | 0':
        "windows() only panics for size 0; the size is the literal 2.",
    'libtw2_demo::format::TimelineMarkers::check::{closure#1} | bounds | index | 0':
        "`m` is an element of `windows(2)`, every window has exactly 2 elements.",
    'libtw2_demo::format::TimelineMarkers::check::{closure#1} | bounds | index | 1':
        "`m` is an element of `windows(2)`, every window has exactly 2 elements.",
    'libtw2_demo::format::ChunkHeader::read | panic-call | unreachable_2021! | 0':
        "The scrutinee is `flags & CHUNKMASK_TYPE` with mask 0b0110_0000, whose only values 0x00/0x20/0x40/0x60 are "
        "exactly the four CHUNKTYPE_* arms.",
    'libtw2_demo::format::ChunkHeader::write | panic-call | assert! | 0':
        "ChunkHeader is pub(crate); its only callers Writer::write_tick and Writer::write_chunk_impl pass the constant "
        "WRITER_VERSION == Version::V5, so `version >= V5` holds.",
    'libtw2_demo::format::ChunkHeader::write | panic-call | assert! | 1':
        "On the write side TickMarker::Delta is only produced by TickMarker::new(.., WRITER_VERSION), which returns "
        "Delta(d) only when d <= WRITER_VERSION.max_tick_delta(); Writer::write_tick passes the same WRITER_VERSION to "
        "ChunkHeader::write.",
    'libtw2_demo::format::ChunkHeader::write | panic-call | assert! | 2':
        "TickMarker::new returns Delta only under `!keyframe`, and Writer::write_tick stores the very same `keyframe` "
        "argument in the ChunkHeader::Tick it writes.",
    'libtw2_demo::reader::Reader::map_size | assert-cast | assert_u32 | 0':
        "Reader is only built by Reader::new from HeaderStart::read, where Header::map_size has "
        "`#[br(assert(map_size >= 0))]` (Err on violation); the field is never written afterwards.",
    'libtw2_demo::reader::Reader::read_chunk | copy_from_slice | copy_from_slice | 0':
        "`buffer = self.raw.chunks_mut(4)` over `raw: [u8; 65536]`; 65536 % 4 == 0 so every chunk has length 4, equal "
        "to `i32::to_le_bytes().len()`.",
    'libtw2_demo::reader::Reader::read_chunk | overflow | Add | 0':
        "`len += 4` runs once per chunk obtained from `buffer.next()`; chunks_mut(4) of a 65536-byte array yields at most "
        "16384 chunks before `ok_or(MessageVarIntTooLong)?` returns, so len <= 65536.",
    'libtw2_demo::reader::Reader::read_chunk | slice-index | RangeTo | 1':
        "len is 4 * (number of chunks taken from raw.chunks_mut(4)) <= 65536 == self.raw.len().",
    'libtw2_demo::writer::Writer::write_message::{closure#0} | api | std::slice::chunks | 0':
        "chunks() only panics for chunk size 0; the size is the literal 4.",
}
SUSPECT = {
    'libtw2_demo::format::TickMarker::new | panic-call | assert! | 0':
        "`assert!(tick > p)` fires for tick <= prev_tick.  High level: DemoWriter::write_snap only rejects "
        "`tick < self.last_tick`, so `w.write_snap(5, ..)?; w.write_snap(5, ..)` (same tick twice) passes the check, "
        "computes is_keyframe = (5 - 5 > 250) = false and calls inner.write_tick(false, 5) -> "
        "TickMarker::new(5, Some(5), ..) -> panic instead of Err(TooLowTickNumber).  Also: if a write_snap(t) fails after "
        "inner.write_tick succeeded (e.g. TooLargeSnap or an io error), Writer::prev_tick == t but last_tick is stale, so "
        "retrying any tick in last_tick..=t panics.  Low level: `Writer::write_tick(false, 5); write_tick(false, 5)` (or "
        "any decreasing tick) panics; write_tick has no doc comment stating the precondition.",
    'libtw2_demo::writer::Writer::write_tick | precondition | libtw2_demo::format::TickMarker::new | 0':
        "Writer::write_tick (pub, undocumented) forwards caller-chosen `tick` with self.prev_tick to TickMarker::new "
        "without checking tick > prev_tick: `write_tick(k, 7)` then `write_tick(k, 7)` or `write_tick(k, 3)` panics.  "
        "Reached from ddnet::DemoWriter::write_snap when the same tick is written twice (its guard is `<`, not `<=`).",
    'libtw2_demo::ddnet::writer::DemoWriter::write_snap | overflow | Sub | 0':
        "tick == -1 is accepted on a fresh writer (`-1 < last_tick(-1)` is false) and becomes last_keyframe = Some(-1); "
        "a following `write_snap(i32::MAX, ..)` evaluates `i32::MAX - (-1)` -> overflow panic with overflow checks "
        "(release wraps to i32::MIN and silently writes a non-keyframe).  The error text says negative ticks are "
        "refused but -1 is not.",
    'libtw2_demo::format::CappedString::from_raw | panic-call | assert! | 0':
        "`assert!(raw.len() < N)` is reached with caller-controlled slices from Writer::new: e.g. "
        "`Writer::new(file, &[b'a'; 64], b\"map\", None, 0, DemoKind::Server, 0, b\"ts\", &[])` (net_version/map_name of "
        ">= 64 bytes, timestamp of >= 20 bytes) panics although the function returns Result; not documented as a "
        "precondition anywhere.",
    'libtw2_demo::writer::Writer::new | precondition | libtw2_demo::format::CappedString::from_raw | 0':
        "net_version: &[u8] is passed unchecked to CappedString::<64>::from_raw; Writer::new(.., net_version = 64+ "
        "bytes, ..) panics (undocumented, not an Err).",
    'libtw2_demo::writer::Writer::new | precondition | libtw2_demo::format::CappedString::from_raw | 1':
        "map_name: &[u8] is passed unchecked to CappedString::<64>::from_raw; a map name of 64+ bytes panics "
        "(undocumented, not an Err).",
    'libtw2_demo::writer::Writer::new | precondition | libtw2_demo::format::CappedString::from_raw | 2':
        "timestamp: &[u8] is passed unchecked to CappedString::<20>::from_raw; a timestamp of 20+ bytes (e.g. an "
        "RFC 3339 string with offset, 25 bytes) panics (undocumented, not an Err).",
    'libtw2_demo::writer::Writer::new | assert-cast | assert_i32 | 0':
        "`map.len().assert_i32()` panics for a map slice longer than i32::MAX bytes (possible on 64-bit, e.g. a "
        "memory-mapped 2 GiB file); no check, no doc comment, function returns Result.",
    'libtw2_demo::ddnet::writer::DemoWriter::new | precondition | libtw2_demo::writer::Writer::new | 0':
        "DemoWriter::new forwards net_version/map_name/timestamp/map unchanged to Writer::new, so "
        "`DemoWriter::<P>::new(file, &[b'a'; 64], ..)` (or timestamp >= 20 bytes, or map > i32::MAX bytes) panics instead "
        "of returning a WriteError; undocumented.",
    'libtw2_demo::writer::Writer::write_chunk | panic-call | panic_2021! | 0':
        "`Writer::write_chunk(RawChunk::Unknown)` hits `panic!()`.  RawChunk is a public enum and Reader::read_chunk "
        "returns RawChunk::Unknown for any attacker file containing a data chunk with type bits 00 (flag byte 0x00..0x1f), "
        "so a read_chunk -> write_chunk copy loop panics on attacker input; undocumented.",
    'libtw2_demo::writer::Writer::write_chunk_impl | unwrap | expect<-Huffman::compress | 0':
        "HUFFMAN.compress into the 65536-byte ArrayVec returns Err(CapacityError) when the output does not fit, and "
        "the Teeworlds code has symbols of up to 15 bits (byte 0x77; most bytes >= 0x80 take 9-11 bits): "
        "`Writer::write_snapshot(&[0x77; 40000])` (or write_snapshot_delta, or any slice > 64 KiB of non-zero bytes) "
        "panics with \"too long compression\".  Also reachable via DemoWriter::write_snap: its own buffer may hold up to "
        "65536 bytes of varints (mostly bytes >= 0x80 for large ints, ~9 bits each) which then expand past 65536.",
    'libtw2_demo::writer::Writer::write_chunk_impl | assert-cast | assert_u16 | 0':
        "self.huffman has capacity 65536, so compress may succeed with len == 65536 which does not fit u16: e.g. "
        "write_snapshot of 34951 bytes 0x77 (15 bits each) followed by 8 bytes 0x00 (1 bit each) gives "
        "15*34951 + 8 + 15 (EOF) = 524288 bits = exactly 65536 bytes -> assert_u16 panics.  The chunk format caps "
        "the size at 65535; this is neither checked nor documented.",
    'libtw2_demo::writer::Writer::write_message | unwrap | expect<-libtw2_packer::with_packer | 0':
        "Each 4 input bytes are re-packed as a varint of up to 5 bytes into buffer2 (capacity 65536): "
        "`Writer::write_message(&[0x61; 60000])` needs 15000 * 5 = 75000 bytes -> CapacityError -> "
        "expect(\"overlong message\") panics.  Reachable through DemoWriter::write_msg, whose own check (TooLongNetMsg) "
        "only limits the un-expanded encoding to 65536 bytes, e.g. a game message carrying a ~60000-byte string.",
}
