"""Reviewed panic sites of libtw2_teehistorian (read against the source on 2026-09-24).

Public surface: only `file::Reader` (new/open/read/player_pos/input/cids), `Buffer` (new/clear) and the `format`
module are exported; `raw::Reader` is reached only through `file::Reader` with a `File` callback.
Buffer invariant used below: `offset <= buffer.len()` -- Buffer::new/clear set both to 0, read_kind/read_item add
`num_bytes_read()` of an Unpacker over `buffer[offset..]`, read_more either appends bytes or drains `0..offset` and
resets offset to 0.  The one place that breaks it is raw::Reader::new_impl when handed a used, un-cleared Buffer
(it parses from index 0 but adds to the old offset) -- see SUSPECT.
"""
REVIEWED = {
    'libtw2_teehistorian::format::item::TickSkip::decode | assert-cast | assert_u32 | 0':
        "The value comes from libtw2_packer::positive(v), which returns Err for v < 0 (mapped to Error::NegativeDt and "
        "propagated with `?`), so assert_u32 only sees a non-negative i32.",
    'libtw2_teehistorian::raw::Reader::new_impl | overflow | Add | 0':
        "`read` is Unpacker::num_bytes_read() over `buffer.buffer`, so read <= buffer.len() <= isize::MAX; "
        "buffer.offset <= buffer.len() <= isize::MAX by the Buffer invariant (0 for a fresh/cleared Buffer), so the sum "
        "is < usize::MAX.  (With a re-used un-cleared Buffer the sum can exceed buffer.len() -- that is the index "
        "finding below, not an arithmetic overflow.)",
    'libtw2_teehistorian::raw::Buffer::read_more | api | std::vec::Vec::drain | 0':
        "drain(0..offset) needs offset <= len.  read_more is only reached from read_kind/read_item right after they "
        "sliced `buffer[offset..]` successfully (so offset <= len) or from new_impl before it touches offset; a Buffer "
        "whose offset was pushed past len by new_impl (see SUSPECT) cannot get here, because read_header on the unchanged "
        "contents succeeds again and read_kind/read_item panic on the slice first.",
    'libtw2_teehistorian::raw::Buffer::read_kind | overflow | Add | 0':
        "num_bytes_read() of an Unpacker over `buffer[offset..]` is <= buffer.len() - offset, so "
        "offset + num_bytes_read <= buffer.len() <= isize::MAX.",
    'libtw2_teehistorian::raw::Buffer::read_item | overflow | Add | 0':
        "p.num_bytes_read() of an Unpacker over `buffer[offset..]` is <= buffer.len() - offset, so the sum is "
        "<= buffer.len() <= isize::MAX.",
}
SUSPECT = {
    'libtw2_teehistorian::raw::Reader::player_pos | assert-cast | assert_usize | 0':
        "`cid.assert_usize()` on a caller-supplied i32: `file::Reader::player_pos(-1)` panics instead of returning "
        "None.  No doc comment states cid >= 0; only cids taken from `cids()` are guaranteed non-negative.",
    'libtw2_teehistorian::raw::Reader::input | assert-cast | assert_usize | 0':
        "`cid.assert_usize()` on a caller-supplied i32: `file::Reader::input(-1)` panics instead of returning None; "
        "undocumented.",
    'libtw2_teehistorian::file::Reader::player_pos | precondition | libtw2_teehistorian::raw::Reader::player_pos | 0':
        "Public `Reader::player_pos(cid: i32)` forwards cid unchecked to raw::Reader::player_pos; any negative cid "
        "(e.g. -1) panics in assert_usize.  Undocumented, return type Option suggests None.",
    'libtw2_teehistorian::file::Reader::input | precondition | libtw2_teehistorian::raw::Reader::input | 0':
        "Public `Reader::input(cid: i32)` forwards cid unchecked to raw::Reader::input; any negative cid panics in "
        "assert_usize.  Undocumented.",
    'libtw2_teehistorian::raw::Reader::cids | overflow | Add | 0':
        "max_cid = max(max_cid, item.cid()) takes the cid of Join/Drop/Message/InputNew/... items straight from "
        "Unpacker::read_int with no range check.  A file containing a JOIN item with cid i32::MAX (varint bytes "
        "BF FF FF FF 0F) makes read() return Ok(Item::Join) and sets max_cid = i32::MAX; a following `reader.cids()` "
        "computes i32::MAX + 1 -> overflow panic with overflow checks (release: wraps to an empty range 0..i32::MIN).",
    'libtw2_teehistorian::raw::Buffer::read_kind | api | <std::vec::Vec as std::ops::Index>::index | 0':
        "new_impl calls read_header(&buffer.buffer) from index 0 but does `buffer.offset += read`, so a Buffer that is "
        "re-used without Buffer::clear() ends with offset > len: open a small (< 8 KiB, never drained) file with `buf`, "
        "read it to the end (offset == len), then `Reader::open(any_path, &mut buf)` again -- the old header still at the "
        "start of buf parses, offset becomes len + header_len -- and the next `reader.read(&mut buf)` panics in "
        "`self.buffer[self.offset..]` (range start out of bounds).  Nothing documents that the Buffer must be cleared.",
    'libtw2_teehistorian::raw::Buffer::read_item | api | <std::vec::Vec as std::ops::Index>::index | 0':
        "Same root cause as read_kind (new_impl adds to a stale offset of an un-cleared Buffer).  Normally read_item "
        "runs after read_kind left offset <= len, but `read` takes the Buffer per call: a Reader holding a pending "
        "next_item_kind (after it returned TickStart) that is then given a Buffer whose offset was pushed past len by a "
        "second Reader::new/open on it goes straight to read_item and panics in `buffer[self.offset..]`.",
}
