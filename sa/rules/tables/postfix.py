"""Reviewed sites whose keys or reasons changed with the `fix:` commits in /repo (written by
reading the repaired code).  Each names the structural rule that decides the mechanism it rests on,
so that the table line is not the only thing standing between a regression and the verdict."""
REVIEWED = {
    # ---- net (after D1, D2, D3, D16)
    'libtw2_net::connection::PacketContents::write_chunk | overflow | Add | 0':
        "num_chunks < 255 before every write_chunk: callers either saw can_fit_chunk() == true (which now requires "
        "num_chunks < u8::MAX) or just flushed/cleared the packet -- decided by C04 rule B7-chunk-count",
    'libtw2_net::connection7::PacketContents::write_chunk | overflow | Add | 0':
        "same as 0.6: decided by C04 rule B7-chunk-count",
    'libtw2_net::connection::Connection::resend | precondition | libtw2_net::connection::PacketContents::write_chunk | 0':
        "chunks in the resend queue were accepted by send(), whose TooLongData test bounds their length below 2^CHUNK_SIZE_BITS "
        "(C04 rule B1 decides the bound at the queueing site)",
    'libtw2_net::connection7::Connection::resend | precondition | libtw2_net::connection7::PacketContents::write_chunk | 0':
        "chunks in the resend queue were accepted by send() (len <= MAX_PAYLOAD < 2^12)",
    # ---- snapshot (after D6, D12, D13)
    'libtw2_snapshot::snap::Snap::recycle | unwrap | unwrap<-RawSnap::add_item | 0':
        "after the D6 repair extended_types maps each uuid to the id of its own registry item; ids of distinct items are "
        "distinct keys (0, id), at most 1024 items of 4 ints each were accepted before, so add_item cannot report "
        "DuplicateKey/TooManyItems/TooLongSnap (C10 rule R1 decides the registry agreement)",
    'libtw2_snapshot::snap::Builder::add_item | panic-call | panic_2021! | 0':
        "assert!(OFFSET_EXTENDED_TYPE_ID <= next_type_id): next_type_id starts at OFFSET_EXTENDED_TYPE_ID (Default) and Snap::recycle "
        "only sets it to id + 1 for ids >= OFFSET_EXTENDED_TYPE_ID (repair f280909); add_item only increments it",
    # ---- demo (after D8)
    'libtw2_demo::format::TickMarker::new | panic-call | assert! | 0':
        "assert!(tick > prev): the high-level writer refuses tick <= last_tick before calling write_tick (decided by C15 rule "
        "R2-guard-assert-strictness); direct callers of the low-level Writer::write_tick must pass increasing ticks",
    'libtw2_demo::writer::Writer::write_tick | precondition | libtw2_demo::format::TickMarker::new | 0':
        "low-level writer API: increasing ticks are the caller's obligation; DemoWriter::write_snap establishes it (C15 R2)",
    'libtw2_demo::ddnet::writer::DemoWriter::write_snap | overflow | Sub | 0':
        "tick > last_tick >= -1 on this path and last_keyframe is a previously written tick >= 0, so tick - last_keyframe "
        "is a difference of two non-negative i32",
    'libtw2_demo::ddnet::reader::DemoReader::next_chunk | precondition | libtw2_packer::Unpacker::new_from_demo | 0':
        "new_from_demo requires a length divisible by 4: Reader::read_chunk builds RawChunk::Message from whole 4-byte groups "
        "(`len += 4` per decoded int, slice &self.raw[..len])",
    # ---- datafile (after D9, D10)
    'libtw2_datafile::raw::Reader::check | overflow | Sub | 0':
        "num_items - t.start with t.start == expected_start (tested just above, C16 rule R2-validate-before-arithmetic) and "
        "0 <= expected_start <= num_items by the loop invariant (each step adds 0 <= t.num <= num_items - start)",
    'libtw2_datafile::raw::Reader::check | overflow | Add | 0':
        "expected_start + t.num <= num_items by the clause `t.num <= num_items - t.start` just above",
    'libtw2_datafile::raw::Reader::item_header | api | <std::vec::Vec as std::ops::Index>::index | 1':
        "item_offsets[index] is a multiple of 4 inside items_raw: check() validates offsets contiguous from 0, each header "
        "inside size_items, and (D9 repair) every item size divisible by 4 BEFORE the next item's header is read "
        "(C16 rule R2-validation-clauses requires these clauses)",
}
REVIEWED.update({
    # relative_size_of_mult::<u8, i32>(x) asserts x % 4 == 0 (precondition instantiated per call site)
    'libtw2_datafile::raw::Reader::new | precondition | libtw2_common::slice::relative_size_of_mult | 0':
        "x = header.hr.size_items: HeaderRest::check rejects `size_items % 4 != 0` (clause required by C16 R2a) before the items are read",
    'libtw2_datafile::raw::Reader::item_header | precondition | libtw2_common::slice::relative_size_of_mult | 0':
        "x = item_offsets[index]: Reader::check makes offsets start at 0 and advance by 8 + size with every size divisible by 4 "
        "(the D9 repair; clause `item size divisible by 4` required by C16 R2a), and check() itself reads item i+1's header only "
        "after item i's size passed that test",
    'libtw2_datafile::raw::Reader::item | precondition | libtw2_common::slice::relative_size_of_mult | 0':
        "x = item_offsets[index] (same as item_header)",
    'libtw2_datafile::raw::Reader::item | precondition | libtw2_common::slice::relative_size_of_mult | 1':
        "x = item_header.size of a reader that passed check(): divisible by 4 by the clause `item size divisible by 4`",
    'libtw2_common::slice::relative_size_of | precondition | libtw2_common::slice::relative_size_of_mult | 0':
        "generic helper relative_size_of::<T, U>() = relative_size_of_mult(1): only instantiated with size_of::<T>() a multiple of "
        "size_of::<U>() (map item structs over i32)",
})
SUSPECT = {}
