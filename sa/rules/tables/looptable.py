"""Reviewed CFG cycles (loops whose progress argument is not one of the recognised forms:
finite std iterator / finite wrapper / consuming reader).  Key: `fn | loop | ordinal`."""
REVIEWED = {}
LOOPS = {
    'libtw2_huffman::Huffman::decompress_unsafe | loop | 0':
        "outer loop consumes one input byte per iteration (slice iterator, leaves on None); the inner bit loop runs 8 times; "
        "every leaf either exits (EOF) or consumes one output slot of a bounded slice iterator (C07 R3)",
    'libtw2_net::connection::Connection::resend | loop | 1':
        "`while i < len`: i advances on the can_fit branch; the other branch flushes, after which the packet is empty and the chunk "
        "fits -- decided by the budget obligation of C02 R2 (Amax + Hv <= B), not by reading",
    'libtw2_net::connection7::Connection::resend | loop | 1':
        "same as 0.6: decided by the budget obligation of C02 R2",
    'libtw2_net::net::Peers::new_peer | loop | 0':
        "probes successive peer ids until a vacant one: at most peers.len() + 1 probes because occupied ids are finitely many "
        "and get_and_increment never repeats within 2^32 steps",
    'libtw2_net::net::ReceivePacket::connected | loop | 0':
        "iterates a clone of connection::ReceivePacket, whose variants are iter::Once or ReceiveChunks over a ChunksIter (finite: C06 R2)",
    'libtw2_net::protocol::Token::random | loop | 0':
        "rejection sampling over the caller's RNG: rejects 2 of 2^32 values",
    'libtw2_net::protocol7::Token::random | loop | 0':
        "rejection sampling over the caller's RNG: rejects 1 of 2^32 values",
    'libtw2_packer::write_int | loop | 0':
        "`while int != 0 { int >>= 7 }` on a u32: at most 4 iterations after the initial `>>= 6`",
    'libtw2_snapshot::snap::RawSnap::read_from_ints | loop | 0':
        "`loop` over offsets.next(): `finished = offset.is_none()` breaks at the end of the iteration in which the slice iterator returned None",
    'libtw2_demo::ddnet::reader::Snapshot::build | loop | 0':
        "for over snap.items(): Items::next wraps RawItems (BTreeMap iterator) and skips at most the remaining raw items",
    '<libtw2_snapshot::snap::Items as std::iter::Iterator>::next | loop | 0':
        "each iteration consumes one element of the inner RawItems (BTreeMap iterator) and returns None when it does",
    '<std::fs::File as libtw2_common::io::FileExt>::read_offset_retry | loop | 0':
        "`while read != buffer.len()`: read grows by r > 0, `Ok(0)` breaks, errors other than Interrupted return; EINTR retries are the OS's",
    'libtw2_common::io::ReadExt::read_retry | loop | 0':
        "same retry loop: progress r > 0, EOF breaks, non-EINTR errors return",
    'libtw2_datafile::raw::Reader::find_item | loop | 0':
        "for over item_type_items(type_id): a map over a Range of item indices (finite)",
    'libtw2_datafile::raw::Reader::debug_dump | loop | 0':
        "nested for loops over item_types() / item_type_items() / slices: all Range- or slice-driven",
    'libtw2_teehistorian::raw::Buffer::read_kind | loop | 0':
        "retries the parse after read_more(cb)?: read_more either appends at least one byte from the callback or returns "
        "UnexpectedEnd (callback returned None); a parse needs finitely many bytes (C17 R1)",
    'libtw2_teehistorian::raw::Buffer::read_item | loop | 0':
        "same retry structure as read_kind",
    'libtw2_teehistorian::raw::Reader::new_impl | loop | 0':
        "same retry structure: read_header needs more bytes -> read_more(cb)? -> retry; ends with the header or UnexpectedEnd",
    '<libtw2_teehistorian::format::_::deserialize::__Visitor as libtw2_teehistorian::format::_::_serde::de::Visitor>::visit_map | loop | 0':
        "serde-derived visitor: one iteration per key of the JSON header map (finite input)",
}
SUSPECT = {}
