"""Reviewed panic sites of libtw2_snapshot (read against the source on 2026-09-24).

Conventions used in the reasons below:
* "RawSnap invariant": every range in `RawSnap.offsets` is `start..end` with `start <= end <= buf.len()`, the
  ranges are disjoint and cover `buf`, `offsets.len() <= 1024` and `4 * (2 + 2*offsets.len() + buf.len()) <= 65536`
  (hence `buf.len() <= 16382`).  It holds at all times (also after a reader returned `Err`), because the only code
  that inserts into `offsets` or grows `buf` is `RawSnap::prepare_item_vacant` (limit checks first, then
  `buf.extend`, then `entry.insert(start..end)`), and `RawSnap::clear` empties both together.
* "Delta invariant": every range in `Delta.updated_items` lies inside `Delta.buf`; established by
  `Delta::read_impl` (range inserted only after all `size` pushes succeeded), `Delta::prepare_update_item`
  (extend, then insert) and `Delta::clear`.
* "[size assumption]": nothing in the code prevents the site, it is unreachable only because the required input
  does not fit any realistic memory (numbers given).
* "[accepted snapshots only]": holds for every `Snap` whose last `read*` returned `Ok` and for every `Builder`
  product, NOT for a `Snap` object that is used again after its `read*` returned `Err`.
* Several SUSPECT scenarios were confirmed with a throw-away test in a scratch copy (marked "confirmed").
"""
REVIEWED = {
    # ---------------------------------------------------------------- format.rs
    'libtw2_snapshot::format::uuid_to_item_data | api | std::slice::chunks | 0':
        "chunks() only panics for chunk_size == 0; the argument is the literal 4.",
    'libtw2_snapshot::format::uuid_to_item_data | unwrap | unwrap<-TryInto::try_into | 0':
        "Uuid::as_bytes() is a [u8; 16]; chunks(4) of 16 bytes yields only full 4-byte chunks, so try_into::<[u8; 4]>() succeeds.",
    'libtw2_snapshot::format::item_data_to_uuid | copy_from_slice | copy_from_slice | 0':
        "`result` is [u8; 16], chunks_mut(4) yields exactly 4-byte chunks and i32::to_be_bytes() is [u8; 4]: lengths are equal.",
    'libtw2_snapshot::format::apply_item_delta | panic-call | assert! | 0':
        "Documented API precondition of the public function (doc comment '# Panics: Panics if delta.len() != out.len()'). "
        "The one in-crate caller that violates it is reported separately (RawSnap::read_with_delta precondition, SUSPECT).",
    'libtw2_snapshot::format::create_item_delta | panic-call | assert! | 0':
        "Documented API precondition of the public function (doc comment '# Panics'); the only in-crate caller "
        "Delta::create_raw passes out = prepare_update_item(.., data.len()) which has exactly to.len() elements.",
    # ---------------------------------------------------------------- manager.rs / receiver.rs
    'libtw2_snapshot::manager::Manager::snap | precondition | libtw2_snapshot::receiver::DeltaReceiver::snap | 0':
        "The callee's assert!(parts.insert(part, ..).is_none()) is discharged inside DeltaReceiver::snap itself: "
        "`if self.parts.contains_key(part) { return Err(DuplicatePart) }` precedes it; it does not depend on the caller.",
    'libtw2_snapshot::receiver::DeltaReceiver::snap | unwrap | unwrap<-arg | 0':
        "Directly preceded by `if let None = self.current { ...; self.current = Some(CurrentDelta{..}) }`, so self.current is Some.",
    'libtw2_snapshot::receiver::DeltaReceiver::snap | assert-cast | assert_u32 | 0':
        "receive_buf.len() is 0 after init_delta() or equals the `end` of the previous part, which already passed "
        "assert_u32 on line 178 before the extend; receive_buf is only grown on line 179.",
    'libtw2_snapshot::receiver::DeltaReceiver::snap | panic-call | assert! | 0':
        "Guarded by `if self.parts.contains_key(part) { return Err(Error::DuplicatePart) }` a few lines above; nothing mutates parts in between.",
    'libtw2_snapshot::receiver::DeltaReceiver::snap | assert-cast | assert_i32 | 0':
        "Keys of `parts` are `snap.part` values that passed `0 <= part < num_parts <= 32` and are distinct, parts is "
        "cleared by init_delta() for every new CurrentDelta: parts.len() <= 32.",
    'libtw2_snapshot::receiver::DeltaReceiver::snap | api | <std::vec::Vec as std::ops::Index>::index | 0':
        "Each range in `parts` is start..end with start = receive_buf.len() before and end = receive_buf.len() after the "
        "extend on line 179; receive_buf only grows afterwards and init_delta() clears parts and receive_buf together.",
    # ---------------------------------------------------------------- snap.rs: RawSnap
    'libtw2_snapshot::snap::RawSnap::item_from_offset | api | <std::vec::Vec as std::ops::Index>::index | 0':
        "RawSnap invariant (prepare_item_vacant / clear): callers RawItems::next and Snap::build_from_raw pass ranges "
        "taken from self.offsets, which lie inside self.buf with start <= end.",
    'libtw2_snapshot::snap::RawSnap::item::{closure#0} | api | <std::vec::Vec as std::ops::Index>::index | 0':
        "RawSnap invariant (prepare_item_vacant / clear): the range comes from self.offsets.get(..) of the same RawSnap.",
    'libtw2_snapshot::snap::RawSnap::prepare_item_vacant | overflow | Add | 2':
        "buf.len() <= 16382 (RawSnap invariant) and `size` is always the len() of an in-memory &[i32] (add_item: data.len(); "
        "read_with_delta: item.data.len(), diff.len()), i.e. <= isize::MAX/4; the sum cannot overflow usize.",
    'libtw2_snapshot::snap::RawSnap::prepare_item_vacant | precondition | libtw2_snapshot::snap::RawSnap::serialized_ints_size | 0':
        "num_items + 1 <= 1024 by the TooManyItems test on the line before; offset + size <= 16382 + isize::MAX/4 (see Add|2), so "
        "2 + 2*1024 + offset + size < 2^61 + 2^15 on 64-bit (2^29 + 2^15 on 32-bit) and the multiplication by 4 stays below usize::MAX.",
    'libtw2_snapshot::snap::RawSnap::prepare_item_vacant | assert-cast | assert_u32 | 0':
        "offset = buf.len() <= 16382 by the RawSnap invariant (every earlier growth passed the MAX_SNAPSHOT_SIZE test).",
    'libtw2_snapshot::snap::RawSnap::prepare_item_vacant | overflow | Add | 3':
        "Same operands as on line 152, and here additionally dominated by serialized_ints_size(.., offset + size) <= 65536, i.e. offset + size <= 16382.",
    'libtw2_snapshot::snap::RawSnap::prepare_item_vacant | assert-cast | assert_u32 | 1':
        "Dominated by the TooLongSnap test: 4 * (2 + 2n + offset + size) <= MAX_SNAPSHOT_SIZE = 65536 implies offset + size <= 16382.",
    'libtw2_snapshot::snap::RawSnap::add_item_uninitialized | api | <std::vec::Vec as std::ops::IndexMut>::index_mut | 0':
        "Only the Vacant arm reaches the index; prepare_item_vacant returned start..end = old_len..old_len+size after extending buf by `size`.",
    'libtw2_snapshot::snap::RawSnap::add_item | copy_from_slice | copy_from_slice | 0':
        "add_item_uninitialized returns Err for an occupied key, otherwise the fresh range of exactly `size` = data.len() elements.",
    'libtw2_snapshot::snap::RawSnap::prepare_item | api | <std::vec::Vec as std::ops::IndexMut>::index_mut | 0':
        "Occupied arm: existing range, inside buf by the RawSnap invariant; Vacant arm: range just created by prepare_item_vacant after extending buf.",
    'libtw2_snapshot::snap::RawSnap::read_from_ints | assert-cast | assert_usize | 0':
        "SnapHeader::decode_obj passes num_items through libtw2_packer::positive (Err if < 0), a non-negative i32 fits usize.",
    'libtw2_snapshot::snap::RawSnap::read_from_ints | overflow | Rem | 0':
        "i32 % 4 with the constant divisor 4 (neither 0 nor -1) cannot overflow.",
    'libtw2_snapshot::snap::RawSnap::read_from_ints | overflow | Div | 0':
        "i32 / 4 with the constant divisor 4 cannot overflow.",
    'libtw2_snapshot::snap::RawSnap::read_from_ints | assert-cast | assert_usize | 1':
        "data_size went through libtw2_packer::positive in SnapHeader::decode_obj, so data_size / 4 >= 0.",
    'libtw2_snapshot::snap::RawSnap::read_from_ints | overflow | Add | 0':
        "offsets_len <= data.len() (checked on line 231, and a &[i32] has len <= isize::MAX/4) and items_len <= i32::MAX/4 < 2^29: the sum fits usize on 32- and 64-bit.",
    'libtw2_snapshot::snap::RawSnap::read_from_ints | slice-index | RangeTo | 0':
        "`offsets_len + items_len > data.len()` returns Err(ItemsUnpacking) on line 241, so after split_at(offsets_len) "
        "(guarded by line 231) the tail has >= items_len elements.",
    'libtw2_snapshot::snap::RawSnap::read_from_ints | overflow | Rem | 1':
        "i32 % 4 with the constant divisor 4 cannot overflow.",
    'libtw2_snapshot::snap::RawSnap::read_from_ints::{closure#0} | assert-cast | assert_usize | 0':
        "The closure only runs for Some(offset), and `if offset < 0 { return Err(InvalidOffset) }` (line 252) was executed for that value just before.",
    'libtw2_snapshot::snap::RawSnap::read_with_delta | copy_from_slice | copy_from_slice | 0':
        "self was cleared at function entry and `from.items()` yields each BTreeMap key once (self and from cannot alias: &mut vs &), so "
        "prepare_item always takes the Vacant arm here and returns exactly item.data.len() elements.",
    'libtw2_snapshot::snap::RawSnap::read_with_delta | overflow | Add | 0':
        "usize counter incremented at most once per item of `from`, and from.offsets.len() <= 1024 (RawSnap invariant).",
    'libtw2_snapshot::snap::RawSnap::read_with_delta | api | <std::vec::Vec as std::ops::Index>::index | 0':
        "Delta invariant: ranges of delta.updated_items lie inside delta.buf (read_impl inserts start..start+size only after pushing `size` ints; "
        "prepare_update_item extends then inserts; clear() empties both).",
    'libtw2_snapshot::snap::RawSnap::write_impl | panic-call | assert! | 0':
        "RawSnap invariant: prepare_item_vacant refuses with TooManyItems when offsets.len() + 1 > MAX_SNAPSHOT_ITEMS, it is the only inserter.",
    'libtw2_snapshot::snap::RawSnap::write_impl::{closure#0} | overflow | Add | 0':
        "`written` grows by 4 per emitted int; at most 2 + 2*offsets.len() + buf.len() ints are emitted, i.e. written <= 65536 (RawSnap invariant).",
    'libtw2_snapshot::snap::RawSnap::write_impl | unwrap | expect<-num::checked_mul | 0':
        "buf.len() <= 16382 and offsets.len() <= 1024 (RawSnap invariant): (sum) * 4 <= 69624.",
    'libtw2_snapshot::snap::RawSnap::write_impl | assert-cast | assert_i32 | 0':
        "Same bound: data_size <= 4 * (16382 + 1024) fits i32.",
    'libtw2_snapshot::snap::RawSnap::write_impl | assert-cast | assert_i32 | 1':
        "offsets.len() <= 1024 (RawSnap invariant, asserted again on line 325).",
    'libtw2_snapshot::snap::RawSnap::write_impl | api | <std::collections::BTreeMap as std::ops::Index>::index | 0':
        "`keys` was filled from self.offsets.keys() a few lines above and &self is not mutated: every key is present.",
    'libtw2_snapshot::snap::RawSnap::write_impl | unwrap | expect<-num::checked_add | 1':
        "offset accumulates 4 * (len_i + 1) over the items; the ranges are disjoint pieces of buf, so the total is <= 4 * (16382 + 1024), far below i32::MAX.",
    'libtw2_snapshot::snap::RawSnap::write_impl | overflow | Sub | 0':
        "Ranges are created only as offset..offset+size in prepare_item_vacant, so end >= start.",
    'libtw2_snapshot::snap::RawSnap::write_impl | overflow | Add | 0':
        "end - start <= buf.len() <= 16382 (RawSnap invariant), + 1 cannot overflow u32.",
    'libtw2_snapshot::snap::RawSnap::write_impl | unwrap | expect<-num::checked_mul | 1':
        "(end - start + 1) <= 16383, times 4 <= 65532.",
    'libtw2_snapshot::snap::RawSnap::write_impl | assert-cast | assert_i32 | 2':
        "Value <= 65532 (see checked_mul | 1).",
    'libtw2_snapshot::snap::RawSnap::write_impl | api | <std::collections::BTreeMap as std::ops::Index>::index | 1':
        "Keys copied from self.offsets.keys() in the same call; present.",
    'libtw2_snapshot::snap::RawSnap::write_impl | api | <std::vec::Vec as std::ops::Index>::index | 0':
        "RawSnap invariant: ranges in self.offsets lie inside self.buf.",
    'libtw2_snapshot::snap::RawSnap::write_impl | panic-call | assert! | 1':
        "written = 4 * (2 + n + n + sum of item lengths) = serialized_ints_size(offsets.len(), buf.len()) because the ranges tile buf; the last "
        "prepare_item_vacant call checked exactly this quantity <= MAX_SNAPSHOT_SIZE (empty snapshot: 8).  Early Err returns skip the assert.",
    'libtw2_snapshot::snap::RawSnap::write_to_ints | overflow | Sub | 0':
        "`iter` is result.iter_mut(); its remaining length never exceeds result.len().",
    # ---------------------------------------------------------------- snap.rs: Snap
    'libtw2_snapshot::snap::Snap::type_id | unwrap | unwrap<-RawSnap::item | 0':
        "[accepted snapshots only] Reached only for raw_type_id >= 0x4000.  Snap::build_from_raw (run by read, read_from_ints, read_with_delta) returns "
        "Err(MissingUuidType) unless key(TYPE_ID_EX, raw_type_id) is in raw.offsets for every such item; Builder::add_item inserts the (TYPE_ID_EX, raw_type_id) "
        "item before using a type id >= 0x4000 (ordinals are asserted < 0x4000) and Snap::recycle re-adds the registry items.  CAVEAT (confirmed): a Snap used "
        "after read_from_ints returned Err(MissingUuidType) keeps the rejected items and `items()` on it panics here; Storage::add_delta and the demo reader never do that.",
    'libtw2_snapshot::snap::Snap::items | overflow | Sub | 0':
        "[accepted snapshots only] build_from_raw inserts one extended_types entry per raw item of type TYPE_ID_EX (a duplicate uuid is Err(DuplicateUuidType)), "
        "Builder::add_item inserts into extended_types only after the matching raw registry item was added, recycle re-adds one raw item per entry: "
        "extended_types.len() <= raw item count.  CAVEAT (confirmed): when RawSnap::read* fails, extended_types keeps the previous snapshot's entries while raw was "
        "cleared, so `items()` on a Snap reused after an Err underflows here.",
    '<libtw2_snapshot::snap::Items as std::iter::Iterator>::next | overflow | Sub | 0':
        "[accepted snapshots only] remaining = raw items - extended_types.len(); type_id() returns None for every item of type TYPE_ID_EX and these are at "
        "least extended_types.len() many (exactly, after build_from_raw), so at most `remaining` items are yielded.  Same error-state caveat as Snap::items.",
    'libtw2_snapshot::snap::Snap::recycle | overflow | Add | 1':
        "`id + 1` runs only if `id < next_type_id + 256` was evaluated without overflow (line 581 panics first otherwise), hence id < 65535.  "
        "Depends on the overflow check of line 581 (SUSPECT): if that is repaired with wrapping arithmetic this site becomes reachable, with saturating_add it stays safe.",
    # ---------------------------------------------------------------- snap.rs: Delta
    'libtw2_snapshot::snap::Delta::prepare_update_item | assert-cast | assert_u32 | 0':
        "Only called from create_raw after self.clear(); buf grows by the lengths of `to`'s items, which sum to to.buf.len() <= 16382 (RawSnap invariant).",
    'libtw2_snapshot::snap::Delta::prepare_update_item | overflow | Add | 0':
        "offset <= 16382 and size = data.len() <= 16382 (item of a RawSnap).",
    'libtw2_snapshot::snap::Delta::prepare_update_item | assert-cast | assert_u32 | 1':
        "offset + size <= to.buf.len() <= 16382.",
    'libtw2_snapshot::snap::Delta::prepare_update_item | panic-call | assert! | 0':
        "create_raw clears updated_items and then calls this once per item of to.items(), whose keys are distinct BTreeMap keys.",
    'libtw2_snapshot::snap::Delta::prepare_update_item | api | <std::vec::Vec as std::ops::IndexMut>::index_mut | 0':
        "start..end = old_len..old_len+size and buf was extended by `size` on the line before.",
    'libtw2_snapshot::snap::Delta::create_raw | panic-call | assert! | 0':
        "deleted_items was cleared at entry and from.items() yields every key once, so BTreeSet::insert returns true.",
    'libtw2_snapshot::snap::Delta::create_raw | precondition | libtw2_snapshot::format::create_item_delta | 0':
        "out_delta = prepare_update_item(raw_type_id, id, data.len()) has exactly data.len() elements, which is the asserted to.len() == out.len().",
    'libtw2_snapshot::snap::Delta::write_impl | assert-cast | assert_i32 | 0':
        "deleted_items is filled by read_impl's `for _ in 0..header.num_deleted_items` (an i32, so <= i32::MAX inserts) or by create_raw (<= 1024 keys of `from`).",
    'libtw2_snapshot::snap::Delta::write_impl | assert-cast | assert_i32 | 1':
        "[size assumption] create_raw: <= 1024 entries.  read_impl: one entry per distinct key parsed; exceeding i32::MAX needs 2^31 distinct keys, i.e. an input "
        "slice >= 4 GiB and a BTreeMap of ~28 GiB.  No explicit limit in the code.",
    'libtw2_snapshot::snap::Delta::write_impl | api | <std::vec::Vec as std::ops::Index>::index | 0':
        "Delta invariant (read_impl / prepare_update_item / clear): ranges of updated_items lie inside buf.",
    'libtw2_snapshot::snap::Delta::write_impl | assert-cast | assert_i32 | 2':
        "[size assumption] Item length is <= 16382 from create_raw; from read_impl it is the wire size (`s.try_u32()` of an i32, so <= i32::MAX) or the caller's "
        "object_size() value, and all `size` ints must actually be present in the input; > i32::MAX needs a callback returning > 2^31 plus > 2^31 input ints (8 GiB buf).",
    'libtw2_snapshot::snap::Delta::write_to_ints | overflow | Sub | 0':
        "`iter` is result.iter_mut(); its remaining length never exceeds result.len().",
    'libtw2_snapshot::snap::Delta::read_impl | assert-cast | assert_usize | 0':
        "DeltaHeader::decode_impl passes num_deleted_items through libtw2_packer::positive, so it is >= 0.",
    # ---------------------------------------------------------------- snap.rs: Builder / DeltaChunks
    'libtw2_snapshot::snap::Builder::add_item | panic-call | assert! | 0':
        "Caller-argument misuse assert: TypeId::Ordinal must be a non-reserved ordinal (0 = TYPE_ID_EX and >= 0x4000 are reserved for the UUID registry); "
        "treated as API precondition per the crate brief (note: the source has no doc comment saying so).  Does not depend on snapshot contents.",
    'libtw2_snapshot::snap::delta_chunks | assert-cast | assert_i32 | 0':
        "[size assumption] ceil(data.len() / 900) > i32::MAX needs a byte slice longer than 900 * 2^31 (1.9 TB); impossible on 32-bit (len <= 2^31).",
    '<libtw2_snapshot::snap::DeltaChunks as std::iter::Iterator>::next | assert-cast | assert_usize | 0':
        "This arm needs num_parts >= 2, so data was non-empty and delta_chunks set cur_part = 0; it only increments and next() returns None at cur_part == num_parts first (fields are private).",
    '<libtw2_snapshot::snap::DeltaChunks as std::iter::Iterator>::next | overflow | Mul | 0':
        "index < num_parts = ceil(len / 900), so 900 * index < len + 900 <= isize::MAX + 900.",
    '<libtw2_snapshot::snap::DeltaChunks as std::iter::Iterator>::next | overflow | Add | 0':
        "index is a former non-negative i32, + 1 fits usize.",
    '<libtw2_snapshot::snap::DeltaChunks as std::iter::Iterator>::next | overflow | Mul | 1':
        "index + 1 <= num_parts, and 900 * ceil(len / 900) < len + 900 <= isize::MAX + 900 < usize::MAX.",
    '<libtw2_snapshot::snap::DeltaChunks as std::iter::Iterator>::next | slice-index | Range | 0':
        "start = 900 * index <= 900 * (num_parts - 1) < data.len() by the definition of num_parts; end = min(900 * (index + 1), data.len()) is >= start and <= len.",
    '<libtw2_snapshot::snap::DeltaChunks as std::iter::Iterator>::next | overflow | Add | 1':
        "cur_part < num_parts <= i32::MAX here (equality returned None at the top), so + 1 cannot overflow.",
    # ---------------------------------------------------------------- storage.rs
    'libtw2_snapshot::storage::Storage::reset | api | std::collections::VecDeque::drain | 0':
        "drain(..) with RangeFull cannot be out of range.",
    'libtw2_snapshot::storage::Storage::add_delta | api | std::collections::VecDeque::drain | 0':
        "i comes from self.snaps.iter().position(..) on the same deque, so i < len; drain(i..) is in range.",
    'libtw2_snapshot::storage::Storage::add_delta | unwrap | unwrap<-slice::last_mut | 0':
        "Preceded by `if self.free.is_empty() { self.free.push(Snap::empty()) }`.",
    'libtw2_snapshot::storage::Storage::add_delta | unwrap | unwrap<-Vec::pop | 0':
        "free was made non-empty on lines 121-123 and nothing pops it before line 135 (error paths return earlier).",
    'libtw2_snapshot::storage::Storage::add_delta | unwrap | unwrap<-VecDeque::pop_back | 0':
        "Dominated by `self.snaps.len() > MAX_STORED_SNAPSHOT` (100).",
    'libtw2_snapshot::storage::Storage::add_delta | unwrap | unwrap<-VecDeque::front | 0':
        "push_front ran on line 133 and at most one of >= 101 elements was popped.",
    'libtw2_snapshot::storage::Storage::set_delta_tick | api | std::collections::VecDeque::drain | 0':
        "i comes from position() on the same deque, i < len.",
    'libtw2_snapshot::storage::Storage::add_snap | unwrap | unwrap<-VecDeque::back | 0':
        "self.snaps.push_front(..) is the first statement of the function; the deque is non-empty.",
    'libtw2_snapshot::storage::Storage::add_snap | unwrap | unwrap<-VecDeque::front | 0':
        "Same: push_front at function entry.",
}
SUSPECT = {
    'libtw2_snapshot::receiver::DeltaReceiver::snap | assert-cast | assert_u32 | 1':
        "[large input only] Nothing bounds snap.data.len() (msg::Snap is a public struct; Snap::decode allows up to i32::MAX bytes) or the accumulated receive_buf.  "
        "DeltaReceiver::snap with num_parts = 3, part 0 and then part 1, both carrying the same 2 GiB slice: end = 2^31 + 2^31 fails assert_u32.  Not reachable with "
        "packet-sized parts (32 parts * ~1.4 kB); a `data.len() > MAX_SNAPSHOT_PACKSIZE` rejection would discharge it.",
    'libtw2_snapshot::snap::RawSnap::read_with_delta | precondition | libtw2_snapshot::format::apply_item_delta | 0':
        "Confirmed.  For a key that exists in `from` and is not deleted, prepare_item takes the Occupied arm and returns the OLD item slice, whose length need not equal "
        "diff.len(); apply_item_delta then hits assert!(delta.len() == out.len()) before its DeltaDifferingSizes test.  Input: `from` accepted by Snap::read_from_ints with item "
        "(type 100, id 0, 3 ints); delta ints [0,1,0, 100,0,5, 1,2,3,4,5] read with object_size = |_| None; Snap::read_with_delta panics at format.rs:189 "
        "(same via Storage::add_delta / Manager::snap* from a remote server: send the item with size 3, then an update of it with size 5).",
    'libtw2_snapshot::snap::Snap::raw_type_id | panic-call | assert! | 0':
        "Confirmed.  Snap::item(TypeId::Ordinal(0), 0) -- or any ordinal >= 0x4000 -- on any snapshot (even Snap::empty()) panics instead of returning None; Snap::item has no doc "
        "comment declaring this a precondition.  Argument-only (independent of snapshot contents), same condition as the Builder::add_item misuse assert: reclassify if "
        "reserved ordinals are accepted as an API precondition for lookups too.",
    'libtw2_snapshot::snap::Snap::recycle | overflow | Add | 0':
        "build_from_raw does not restrict the ids of registry (type TYPE_ID_EX) items.  A snapshot accepted by Snap::read_from_ints whose type-0 items (each with 4 ints of "
        "distinct uuid data) have ids climbing from 0x4000 in steps < 256 up to >= 65280, plus one more type-0 item, makes `next_type_id + 256` overflow u16 in recycle "
        "(DESIGN D12).  Also reachable through Storage::new_builder, which recycles snapshots received from the network.",
    'libtw2_snapshot::snap::Snap::recycle | unwrap | unwrap<-RawSnap::add_item | 0':
        "Confirmed.  build_from_raw executes `extended_types.insert(uuid, raw_type_id)` in the branch where raw_type_id == TYPE_ID_EX == 0, so every uuid maps to 0.  Any accepted "
        "snapshot with two registry items, e.g. (0, 0x4000, [1,2,3,4]) and (0, 0x4001, [5,6,7,8]), makes recycle add key (0,0) twice -> Err(DuplicateKey) -> unwrap panics "
        "(DESIGN D6).  The comment 'It fit last time' only covers TooManyItems/TooLongSnap.",
    'libtw2_snapshot::snap::Delta::create_raw::{closure#0} | panic-call | panic_2021! | 0':
        "Confirmed.  Delta::create(&a, &b) where both snapshots contain the same key with different lengths, e.g. both accepted by Snap::read_from_ints with item (1,0,[1,2,3]) "
        "resp. (1,0,[1,2,3,4,5]) -- or both made with Builder::add_item -- : create_item_delta returns DeltaDifferingSizes and the unwrap_or_else panics "
        "('item sizes can't be mismatched for self-created snapshots'; the source comment admits network snapshots can differ).  Also via Storage::add_snap.",
    'libtw2_snapshot::snap::Delta::write_impl | panic-call | assert! | 0':
        "Confirmed.  The caller-supplied object_size callback is asserted against the stored item length, and nothing validates item lengths against it earlier "
        "(Snap::read*/Builder take no object_size).  Builder::add_item(Ordinal(5), 0, &[1,2,3]); Delta::create(&Snap::empty(), &snap); delta.write_to_ints(|_| Some(4), ..) "
        "panics; likewise for a `to` snapshot received from the network whose item of a known type has a non-standard length (re-encoding proxy / demo tool).",
    'libtw2_snapshot::snap::Delta::read_impl | overflow | Add | 0':
        "[large input only] num_updates is an i32 (compared with header.num_updated_items) incremented once per parsed update; an update costs as little as 2 input ints "
        "(object_size -> Some(0)) or 3 (wire size 0) and duplicate keys are accepted, so no memory grows.  Delta::read on >= 4 GiB (6 GiB) of zero bytes overflows the "
        "counter in the debug profile.  Not reachable through Manager (input <= 32 packet-sized parts).",
    'libtw2_snapshot::snap::Builder::add_item | panic-call | panic_2021! | 0':
        "Confirmed.  assert!(OFFSET_EXTENDED_TYPE_ID <= next_type_id) is about internal state, not a caller argument.  Snap::recycle sets next_type_id = id + 1 for the first "
        "registry item with id < 0x4000 + 256 without requiring id >= 0x4000.  Snapshot accepted by Snap::read_from_ints with the single item (type 0, id 5, [1,2,3,4]); "
        "snap.recycle() gives next_type_id = 6; builder.add_item(TypeId::Uuid(any new uuid), 1, &[1]) panics 'invalid type ID' (also via Storage::new_builder on a client-side Storage).",
    'libtw2_snapshot::snap::Builder::add_item | panic-call | panic_2021! | 1':
        "Confirmed.  assert!(next_type_id < 0x8000) is about internal state.  Builder-only flows keep next_type_id < 0x4000 + 2048, and for an ACCEPTED network snapshot "
        "recycle panics earlier (lines 581/588) as soon as it has >= 2 registry items, which today masks this site.  But Storage keeps a Snap whose read_with_delta FAILED in "
        "`free` and Storage::new_builder recycles it: delta with 66 type-0 items, ids 0x4000 + 255*k, 4 data ints each, the first two with equal uuid data; "
        "Storage::add_delta(.., None, -1, 1, &delta) returns Err(DuplicateUuidType) (raw keeps 66 items, extended_types one entry); Storage::new_builder() -> recycle climbs "
        "next_type_id to 0x80c0; builder.add_item(TypeId::Uuid(new), 1, &[1]) panics 'invalid type ID'.  Once build_from_raw (D6) is repaired the same happens for accepted snapshots.",
    'libtw2_snapshot::snap::delta_chunks | overflow | Sub | 0':
        "Confirmed.  Public function, unchecked `tick - delta_tick` on caller-supplied i32s: delta_chunks(i32::MAX, -1, b\"\", 0) (or (0, i32::MIN, ..)) panics with "
        "'attempt to subtract with overflow' in the debug profile; no doc comment states a range precondition (the receiver side uses wrapping_sub).",
}
