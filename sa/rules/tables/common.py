"""Reviewed panic sites of libtw2_common (read against the source on 2026-09-24)."""
REVIEWED = {
    'libtw2_common::io::ReadExt::read_retry | slice-index | RangeFrom | 0':
        "Loop invariant `read <= buffer.len()`: `read` starts at 0 and grows only by `r = self.read(&mut buffer[read..])`, for which the `std::io::Read` contract guarantees `r <= buffer.len() - read`; the loop exits when `read == buffer.len()`. (Relies on the `Read` impl honouring that contract; the workspace caller datafile `file.rs` uses `std::fs::File`.)",
    'libtw2_common::io::ReadExt::read_retry | overflow | Add | 0':
        "`r <= buffer.len() - read` by the `Read::read` contract, so `read + r <= buffer.len() <= isize::MAX`.",
    '<std::fs::File as libtw2_common::io::FileExt>::read_offset_retry | slice-index | RangeFrom | 0':
        "Loop invariant `read <= buffer.len()`: `read` grows only by the count returned by `file_offset::FileExt::read_offset(self, &mut buffer[read..], ..)` (pread/ReadFile on a `File`, returns `<=` the slice length); loop exits at `read == buffer.len()`.",
    '<std::fs::File as libtw2_common::io::FileExt>::read_offset_retry | overflow | Add | 0':
        "`offset.checked_add(buffer.len().u64())` succeeded at function entry (else `seek_overflow` error is returned) and `read <= buffer.len()`, so `offset + read` cannot overflow u64.",
    '<std::fs::File as libtw2_common::io::FileExt>::read_offset_retry | overflow | Add | 1':
        "`r <= buffer.len() - read` (positional read into `buffer[read..]`), so `read + r <= buffer.len() <= isize::MAX`.",
    'libtw2_common::slice::relative_size_of_mult | overflow | Mul | 1':
        "Same product `mult * size_of::<T>()` as on the previous line (inside the `assert!`), which already evaluated without overflow; operands are unchanged.",
    'libtw2_common::slice::transmute | divzero | rem | 0':
        "`mem::align_of::<U>()` is a power of two `>= 1` for every type, never 0.",
    'libtw2_common::slice::transmute | panic-call | assert! | 0':
        "Depends only on the type parameters (`align_of::<T>() % align_of::<U>() == 0`), not on any runtime input: a deliberate misuse check of an `unsafe fn`. Workspace instantiations all satisfy it: `<T: OnlyI32, i32>` and `<T, u8>` (datafile bitmagic), `<repr(C) snap object of i32 fields, i32>` (gamenet snap_obj), `<u8, Addr5Packed/Addr6Packed>` (both `repr(C, packed)`, align 1, serverbrowse).",
    'libtw2_common::slice::transmute | precondition | libtw2_common::slice::relative_size_of_mult | 0':
        "Deliberate error check of this `unsafe fn` (byte length of `x` must be a multiple of `size_of::<U>()`, U not zero-sized; `transmute_mut` calls it 'for the error checking'). `mult = x.len()` of an existing `&[T]`, so `x.len() * size_of::<T>() <= isize::MAX` (no overflow). Workspace callers establish divisibility: serverbrowse `parse_list5/6` cut `data` to `len - len % size_of::<AddrNPacked>()` first; gamenet passes `from_ref(self)` of structs made only of i32 to `i32`; datafile converts to `u8` (size 1) or `OnlyI32` types to `i32`.",
    'libtw2_common::slice::transmute_mut | precondition | libtw2_common::slice::relative_size_of_mult | 0':
        "The identical call `relative_size_of_mult::<T, U>(x.len())` was already executed successfully inside `transmute::<T, U>(x)` on the preceding line (same type parameters, same `x.len()`), so it cannot fail here.",
    'libtw2_common::vec::transmute | overflow | Mul | 0':
        "`Vec<T>` guarantees `capacity * size_of::<T>() <= isize::MAX` for non-zero-sized T; for zero-sized T the factor `size_of::<T>()` is 0.",
    'libtw2_common::vec::transmute | precondition | libtw2_common::slice::relative_size_of_mult | 0':
        "`slice::transmute::<T, U>(&vec)` on the first line already ran `relative_size_of_mult::<T, U>(vec.len())` with the same `len` ('Error checking done there'), so the second evaluation cannot fail; `vec::transmute` has no caller in the workspace.",
}
SUSPECT = {
    'libtw2_common::slice::relative_size_of_mult | overflow | Mul | 0':
        "Public safe fn taking an arbitrary `mult: usize`: a direct call such as `relative_size_of_mult::<u32, u8>(usize::MAX)` overflows `mult * size_of::<T>()` (debug: 'attempt to multiply with overflow'; release: wraps and returns a wrong size). Not reachable through the workspace callers: `slice::transmute`/`transmute_mut`/`vec::transmute` pass the length of an existing `[T]` (`len * size_of::<T>() <= isize::MAX`), `relative_size_of` passes 1, datafile `raw.rs` only instantiates `T = u8` (`size_of == 1`). The `assert!`/division by `size_of::<U>()` of the same function are the documented ('Panics if size_of::<U>() is 0') behaviour.",
}
