"""Reviewed panic sites of libtw2_buffer (read against the source on 2026-09-24)."""

# Struct invariant used below (INV): for every `BufferRef`, `*initialized_ <= buffer.len()`.
# Established by: `BufferRef::new` (debug_assert `*initialized == 0`; every in-crate caller passes a
# field that its intermediate's `new` just set to 0), `cap_at` (asserts `*initialized_ == 0` before
# shrinking the slice), `advance` (asserts `*initialized_ + n <= buffer.len()` before adding),
# `extend` (adds 1 only after `buf_iter.next()` over `buffer[*initialized_..]` returned `Some`).
# Both fields are private, there is no other writer.
REVIEWED = {
    'libtw2_buffer::impls::arrayvec::ArrayVecBuffer::buffer | overflow | Sub | 0':
        "`ArrayVec::len() <= ArrayVec::capacity()` is an invariant of arrayvec's `ArrayVec`, so `capacity() - len` cannot underflow.",
    '<libtw2_buffer::impls::arrayvec::ArrayVecBuffer as std::ops::Drop>::drop | overflow | Add | 0':
        "`self.initialized` is the counter of the `BufferRef` made in `ArrayVecBuffer::buffer` over a slice of `capacity - len` bytes, so by INV `initialized <= capacity - len` and `len + initialized <= capacity` (a const array size); if `buffer` was never called it is still 0.",
    'libtw2_buffer::impls::buffer_ref::BufferRefBuffer::buffer | slice-index | RangeFrom | 0':
        "`len = *self.buffer.initialized_` of the wrapped `BufferRef`, and INV gives `len <= self.buffer.buffer.len()`, so `buffer[len..]` is in range.",
    '<libtw2_buffer::impls::buffer_ref::BufferRefBuffer as std::ops::Drop>::drop | overflow | Add | 0':
        "`self.initialized` counts bytes of the inner `BufferRef` created over `outer.buffer[outer_init..]` (INV: `<= outer.buffer.len() - outer_init`), so the sum is `<= outer.buffer.len() <= isize::MAX`; this also re-establishes INV for the outer `BufferRef`.",
    '<libtw2_buffer::impls::slice_ref::SliceRefBuffer as std::ops::Drop>::drop | slice-index | RangeTo | 0':
        "`self.initialized` is the counter of the `BufferRef` that `SliceRefBuffer::buffer` created over the whole `*self.slice` (INV: `<= slice.len()`), or 0 if `buffer` was never called; `mem::replace` returns that same slice.",
    'libtw2_buffer::impls::vec::VecBuffer::buffer | overflow | Sub | 0':
        "`Vec::len() <= Vec::capacity()` is a std invariant of `Vec`.",
    '<libtw2_buffer::impls::vec::VecBuffer as std::ops::Drop>::drop | overflow | Add | 0':
        "`self.initialized <= capacity - len` by INV on the `BufferRef` created in `VecBuffer::buffer` over `capacity - len` spare bytes (the `Vec` is mutably borrowed meanwhile, its len cannot change), so `len + initialized <= capacity <= isize::MAX`.",
    'libtw2_buffer::BufferRef::new | panic-call | assert! | 0':
        "Documented precondition (`Important: initialized must initially be zero`, checked by `debug_assert!`). All in-crate callers (`SliceBuffer/SliceRefBuffer/VecBuffer/ArrayVecBuffer/BufferRefBuffer::buffer`) pass `&mut self.initialized`, set to 0 by the intermediate's `new`, and `with_buffer` calls `to_buffer_ref` exactly once per intermediate. (Calling the internal `ToBufferRef::to_buffer_ref` a second time by hand after writing is outside the documented use and would trip this check.)",
    'libtw2_buffer::BufferRef::advance | overflow | Add | 0':
        "`unsafe fn` whose contract is that the caller has written `num_bytes` bytes into `uninitialized_mut()`, hence `num_bytes <= buffer.len() - *initialized_` and the sum is `<= buffer.len()`. In-crate caller `traits::read_buffer_ref` passes the return value of `Read::read(buf.uninitialized_mut())`, which std guarantees `<= buf.len()`; it is only reachable safely for the std readers marked `unsafe impl ReadBufferMarker`.",
    'libtw2_buffer::BufferRef::advance | panic-call | assert! | 0':
        "Deliberate safety check of the `unsafe fn` contract (see the Add site): it can only fire if the caller violates the contract `num_bytes <= remaining()`; `read_buffer_ref` passes `Read::read`'s count which is `<= uninitialized_mut().len()`; huffman's `compress_impl`/`decompress_impl` pass a count of successful `next()` on an iterator over `uninitialized_mut()`.",
    'libtw2_buffer::BufferRef::extend | slice-index | RangeFrom | 0':
        "INV: `*self.initialized_ <= self.buffer.len()`.",
    'libtw2_buffer::BufferRef::extend | overflow | Add | 0':
        "Executed only after `buf_iter.next()` returned `Some` for the iterator over `buffer[*initialized_..]` taken at entry, so the number of increments is `<=` the number of remaining bytes and `*initialized_ < buffer.len() <= isize::MAX` before each `+= 1`.",
    'libtw2_buffer::BufferRef::uninitialized_mut | slice-index | RangeFrom | 0':
        "INV: `*self.initialized_ <= self.buffer.len()`.",
    'libtw2_buffer::BufferRef::initialized | slice-index | RangeTo | 0':
        "INV: `*self.initialized_ <= self.buffer.len()`.",
    'libtw2_buffer::BufferRef::remaining | overflow | Sub | 0':
        "INV: `*self.initialized_ <= self.buffer.len()`.",
    'libtw2_buffer::BufferRef::cap_at | panic-call | assert! | 0':
        "Private fn, only caller is `CapAtBuffer::buffer`, which applies it to the fresh `BufferRef` returned by `self.intermediate.to_buffer_ref()`; every `to_buffer_ref` impl builds it with `BufferRef::new(.., &mut self.initialized)` where `initialized` was set to 0 in the intermediate's `new` (nested `CapAtBuffer` forwards the same zero counter), and `with_buffer` calls it once.",
}
SUSPECT = {
    'libtw2_buffer::impls::cap_at::CapAtBuffer::buffer | precondition | libtw2_buffer::BufferRef::cap_at | 0':
        "`Buffer::cap_at(len)` stores `len` unchecked and `CapAtBuffer::buffer` passes it to `BufferRef::cap_at`, which does `&mut self.buffer[..index]`: for `len` greater than the underlying capacity this panics (slice end index out of range) instead of capping. E.g. `let mut a = [0u8; 4]; with_buffer((&mut a[..]).cap_at(10), |b| b.remaining())` or `Vec::with_capacity(4)` + `cap_at(5)`. Fix: `index.min(self.buffer.len())`.",
}
