"""Reviewed panic sites of libtw2_net (+ the one libtw2_warn site) (read against the source on 2026-09-24).

Conventions used in the texts below:
* "HIGH-LEVEL" = reachable through Connection / connection7::Connection / Net / Packet::read with valid calls.
* "[low-level API only]" = cannot fire through Connection/Net (reason given), but a direct call of a `pub fn`
  of the `pub mod protocol`/`protocol7`/`time` with an undocumented-range argument fires it.
* The scenarios marked "(run)" were executed against /repo/net in a throw-away scratch crate (deleted) and
  panicked at the quoted line.
Side finding (hang, not a panic, so not a key here): connection7::Connection::resend loops forever when the
resend queue holds a vital chunk of 1388..=1390 bytes (can_fit_chunk on the empty packet is false because
3+1388 > MAX_PAYLOAD, OnlineState::flush returns early because num_chunks == 0, `i` never advances) --
`send(1388 bytes, vital=true); flush(); tick()` one second later never returns (run).
"""
REVIEWED = {
    # ---------------------------------------------------------------- collections
    'libtw2_net::collections::peer_map::PeerMap::remove::{closure#0} | panic-call | panic_2021! | 0':
        "Explicit misuse panic \"invalid pid\" (same contract as the Index impls): the pid must be a live key. "
        "In-crate callers: Peers::remove_peer from Net::disconnect/Net::reject (after `self.peers[pid]` succeeded), "
        "net::ReceivePacket::connected (pid comes from pid_from_addr and a connection::ReceivePacket yields at most one "
        "Disconnect chunk, so it is removed once), Net::ignore(pid) (caller-supplied handle: API precondition).",

    # ---------------------------------------------------------------- connection (0.6)
    'libtw2_net::connection::Error::unwrap_callback | panic-call | panic_2021! | 0':
        "Panics by name/contract (unwrap_*) on Error::TooLongData. In-crate callers (OnlineState::flush, "
        "Connection::send_control) only map errors of PacketBuilder::send(Packet::Connected(..)); "
        "ConnectedPacket::write_impl/ControlPacket::write only produce Error::Capacity (TooLongData is produced solely by "
        "write_connless_packet), so TooLongData never reaches them.",
    'libtw2_net::connection::State::assert_online | panic-call | panic_2021! | 0':
        "Documented API precondition (name assert_online): flush/send/send_connless require an online connection. "
        "Internal caller resend() is only invoked from tick() when `State::Online(ref online)` matched and from "
        "feed_impl inside `if let State::Online(_) = self.state`; queue() only from send() after its own assert_online.",
    'libtw2_net::connection::ResendChunk::new | panic-call | panic_2021! | 0':
        "Only caller is Connection::queue <- Connection::send, which returns Err(TooLongData) when "
        "buffer.len() > MAX_PAYLOAD (1390) before queue(); 1390 <= 2048 = ArrayVec capacity, so collect() keeps every byte.",
    'libtw2_net::connection::ReceivePacket::connected | precondition | libtw2_net::connection::Sequence::from_u16 | 0':
        "sequence comes from ChunkHeaderVitalPacked::unpack_warn: ((sequence_size & 0xf0) as u16) << 2 | sequence as u16 "
        "<= 0x3c0 | 0xff = 1023 < SEQUENCE_MODULUS (1024).",
    '<libtw2_net::connection::ReceiveChunks as std::iter::Iterator>::next::{closure#0} | precondition | libtw2_net::connection::Sequence::from_u16 | 0':
        "Same value range as above: the vital sequence produced by ChunksIter/read_chunk_header/"
        "ChunkHeaderVitalPacked::unpack_warn is at most 0x3ff < 1024.",
    'libtw2_net::connection::PacketContents::write_chunk | unwrap | unwrap<-protocol::write_chunk | 0':
        "The unwrap only sees CapacityError of the 2048-byte ArrayVec. Every write_chunk happens either after "
        "can_fit_chunk (data.len()+header+len <= 1390) or onto a packet emptied by OnlineState::flush (flush's early "
        "return needs num_chunks == 0, i.e. empty data; packet_nonvital is a subset of packet) with len <= 1390 from "
        "the check in Connection::send, so at most 1393 bytes are ever held. (The length assert inside write_chunk_impl "
        "is a different key and IS reachable, see SUSPECT.)",
    'libtw2_net::connection::PacketContents::can_fit_chunk | overflow | Add | 1':
        "self.data.len() <= 2048 (ArrayVec capacity), chunk_header_size <= 3, data.len() <= isize::MAX: sum < usize::MAX.",
    'libtw2_net::connection::Sequence::next | overflow | Add | 0':
        "Struct invariant seq < 1024: Sequence::new gives 0, from_u16 asserts < SEQUENCE_MODULUS, next() reduces "
        "modulo 1024; 1023 + 1 fits in u16.",
    'libtw2_net::connection::Sequence::update | precondition | libtw2_net::connection::Sequence::compare | 0':
        "compare() subtracts only inside the matching arm of `self.seq.cmp(&other.seq)`: Less => other.seq - self.seq, "
        "Greater => self.seq - other.seq; neither can underflow.",
    'libtw2_net::connection::PacketBuilder::send | panic-call | panic_2021! | 0':
        "Buffer is 1400 bytes. Chunks: packet.data <= 1390 (can_fit_chunk) or one chunk <= 1023+3 on an emptied packet, "
        "+4 token +3 header <= 1397. Connless: write_connless_packet refuses > 1390, 6+1390 = 1396. Control: <= 3+1+4+4 "
        "except Close = 3+1+reason+1+4, which fits under the documented precondition reason <= 127 bytes "
        "(note: Connection::disconnect does not check the length itself; a NUL-free reason >= 1392 bytes would land here).",
    'libtw2_net::connection::Connection::reset | panic-call | assert! | 0':
        "Documented API precondition: reset() is only valid on a Disconnected connection (explicit state assert).",
    'libtw2_net::connection::Connection::connect | panic-call | assert! | 0':
        "Documented API precondition: connect() is only valid on an Unconnected connection (explicit state assert).",
    'libtw2_net::connection::Connection::disconnect | panic-call | panic_2021! | 0':
        "Documented API precondition with message \"Can't call disconnect on an already disconnected connection\". "
        "Inside Net no Disconnected connection survives: Net::disconnect/reject and net::ReceivePacket::connected remove "
        "the peer in the same call that makes it Disconnected.",
    'libtw2_net::connection::Connection::disconnect | panic-call | panic_2021! | 1':
        "Documented API precondition: the disconnect reason must be NUL-free (\"reason must not contain NULs\").",
    'libtw2_net::connection::Connection::resend | overflow | Sub | 0':
        "Loop condition `while i < online.resend_queue.len()`; the queue is not modified inside the loop "
        "(OnlineState::flush does not touch resend_queue), so len - i >= 1.",
    'libtw2_net::connection::Connection::resend | overflow | Sub | 1':
        "Same guard: i < len, hence len - i - 1 >= 0.",
    'libtw2_net::connection::Connection::resend | api | <std::collections::VecDeque as std::ops::Index>::index | 0':
        "Index len - i - 1 with 0 <= i < len lies in 0..len.",
    'libtw2_net::connection::Connection::resend | overflow | Add | 0':
        "i < resend_queue.len() <= isize::MAX, so i + 1 cannot overflow.",
    'libtw2_net::connection::Connection::send_control | panic-call | unreachable_2021! | 0':
        "State::Disconnected arm (line 624): callers are disconnect() (asserts state != Disconnected first, documented "
        "precondition), tick_action() (only for Connecting/Pending/Online) and feed_impl's ConnectAccept arm (state was "
        "just set to Online).",
    'libtw2_net::connection::Connection::feed_impl | precondition | libtw2_net::connection::Sequence::from_u16 | 0':
        "ack comes from PacketHeaderPacked::unpack_warn: ((flags_padding_ack & 0b11) as u16) << 8 | ack as u16 <= 1023.",
    'libtw2_net::connection::Connection::feed_impl | panic-call | unreachable_2021! | 0':
        "A few lines earlier `if let State::Pending(..) = self.state { self.state = State::Online(..) }`; resend() does not "
        "change the state, so Pending is impossible at the match.",

    # ---------------------------------------------------------------- connection7 (0.7)
    'libtw2_net::connection7::Error::unwrap_callback | panic-call | panic_2021! | 0':
        "Same as 0.6: panics by name on TooLongData; in-crate callers (OnlineState::flush, send_control_with_token) only "
        "see errors of Packet::Connected writes, which never yield TooLongData (only write_connless_packet does).",
    'libtw2_net::connection7::State::assert_online | panic-call | panic_2021! | 0':
        "Documented API precondition (assert_online). resend() is only called from tick() under `State::Online(ref online)` "
        "and from feed_impl under `if let State::Online(_)`; queue() only after send()'s own assert_online.",
    'libtw2_net::connection7::ResendChunk::new | panic-call | panic_2021! | 0':
        "Only reached via Connection::send -> queue after `buffer.len() > MAX_PAYLOAD (1390)` returned TooLongData; "
        "1390 <= 2048 ArrayVec capacity.",
    'libtw2_net::connection7::ReceivePacket::connected | precondition | libtw2_net::connection7::Sequence::from_u16 | 0':
        "protocol7::ChunkHeaderVitalPacked::unpack_warn: ((sequence_size & 0xc0) as u16) << 2 | sequence as u16 "
        "<= 0x300 | 0xff = 1023 < 1024.",
    '<libtw2_net::connection7::ReceiveChunks as std::iter::Iterator>::next::{closure#0} | precondition | libtw2_net::connection7::Sequence::from_u16 | 0':
        "Same range: vital sequence from protocol7::ChunksIter is <= 0x3ff.",
    'libtw2_net::connection7::PacketContents::write_chunk | unwrap | unwrap<-protocol7::write_chunk | 0':
        "Only CapacityError of the 2048-byte ArrayVec could reach the unwrap; data is <= 1390 after can_fit_chunk, or "
        "one chunk of <= 1390+3 = 1393 bytes written onto a packet emptied by flush (send() checked len <= 1390). "
        "write_chunk_impl's own size assert needs len >= 4096 and is out of reach here.",
    'libtw2_net::connection7::PacketContents::can_fit_chunk | overflow | Add | 1':
        "self.data.len() <= 2048, header <= 3, data.len() <= isize::MAX: no usize overflow.",
    'libtw2_net::connection7::Sequence::next | overflow | Add | 0':
        "Invariant seq < 1024 (new = 0, from_u16 asserts, next reduces mod 1024); 1023 + 1 fits in u16.",
    'libtw2_net::connection7::Sequence::update | precondition | libtw2_net::connection7::Sequence::compare | 0':
        "compare() subtracts the smaller from the larger inside the Less/Greater arms of seq.cmp().",
    'libtw2_net::connection7::PacketBuilder::send | panic-call | panic_2021! | 0':
        "Buffer is 1400 bytes. Chunks: header 7 + packet.data <= 1393 (one 1390-byte vital chunk on an emptied packet) "
        "= 1400 exactly, otherwise <= 7+1390. Connless: 9 + <=1390 (write_connless_packet refuses more). Control: Token "
        "request = 519, Close = 7+1+reason+1 which fits under the documented precondition reason <= 127 bytes "
        "(no length check in disconnect itself: a NUL-free reason >= 1392 bytes would land here).",
    'libtw2_net::connection7::Connection::reset | panic-call | assert! | 0':
        "Documented API precondition: reset() only on a Disconnected connection.",
    'libtw2_net::connection7::Connection::connect | panic-call | assert! | 0':
        "Documented API precondition: connect() only on an Unconnected connection.",
    'libtw2_net::connection7::Connection::disconnect | panic-call | panic_2021! | 0':
        "Documented API precondition: disconnect() must not be called on an already Disconnected connection.",
    'libtw2_net::connection7::Connection::disconnect | panic-call | panic_2021! | 1':
        "Documented API precondition: reason must be NUL-free.",
    'libtw2_net::connection7::Connection::resend | overflow | Sub | 0':
        "`while i < online.resend_queue.len()` and the queue is not modified in the loop: len - i >= 1.",
    'libtw2_net::connection7::Connection::resend | overflow | Sub | 1':
        "Same guard: len - i - 1 >= 0.",
    'libtw2_net::connection7::Connection::resend | api | <std::collections::VecDeque as std::ops::Index>::index | 0':
        "Index len - i - 1 with i < len is within 0..len.",
    'libtw2_net::connection7::Connection::resend | overflow | Add | 0':
        "i < len <= isize::MAX.",
    'libtw2_net::connection7::Connection::feed_impl | precondition | libtw2_net::connection7::Sequence::from_u16 | 0':
        "ack from protocol7::PacketHeaderPacked::unpack_warn: ((padding_flags_ack & 0b11) as u16) << 8 | ack as u16 <= 1023.",
    'libtw2_net::connection7::Connection::feed_impl | panic-call | unreachable_2021! | 0':
        "Pending was converted to Online by the preceding `if let State::Pending(..)`; resend() keeps the state.",
    'libtw2_net::connection7::Connection::feed_impl | panic-call | unreachable_2021! | 1':
        "Directly before the match, `if let State::Unconnected = self.state { self.state = State::PendingConnect(..) }`, "
        "so Unconnected is impossible.",

    # ---------------------------------------------------------------- net
    '<libtw2_net::net::Peers as std::ops::Index>::index::{closure#0} | panic-call | panic_2021! | 0':
        "Explicit misuse panic \"invalid pid\": PeerIds are handles issued by Net (Connect event / connect()); Net removes a "
        "peer only in calls that tell the user (disconnect/reject/ignore, Disconnect event). Not used with internal pids.",
    '<libtw2_net::net::Peers as std::ops::IndexMut>::index_mut::{closure#0} | panic-call | panic_2021! | 0':
        "Same handle precondition for disconnect/send/flush/accept/reject(pid). The internal use in Net::feed_impl takes "
        "pid from pid_from_addr on the same map, so it is present.",
    'libtw2_net::net::ConnlessBuilder::send | panic-call | panic_2021! | 0':
        "Only used by Net::send_connless with Packet::Connless: write_connless_packet returns TooLongData for "
        "payload > 1390 and otherwise writes 6 + <=1390 = <=1396 bytes into the 1400-byte buffer.",
    'libtw2_net::net::Net::disconnect | panic-call | assert! | 0':
        "Explicit API state precondition: disconnect() is for peers whose connection is not Unconnected (not-yet-accepted "
        "peers are handled by accept/reject/ignore).",
    'libtw2_net::net::Net::accept | panic-call | assert! | 0':
        "Explicit API state precondition: accept() is only valid once for a peer announced by ChunkOrEvent::Connect "
        "(created by Peers::new_peer with Connection::new(), i.e. Unconnected).",
    'libtw2_net::net::Net::accept | panic-call | assert! | 1':
        "Feeding CONNECT_PACKET / CONNECT_PACKET_NO_TOKEN to an Unconnected connection takes Connection::feed_impl's "
        "Control(Connect) arm (token None or Some(TOKEN_NONE)), sets Pending and falls through to "
        "`(ReceivePacket::none(), self.tick_action(cb))`, so next() is None.",
    'libtw2_net::net::Net::reject | panic-call | assert! | 0':
        "Explicit API state precondition (only not-yet-accepted peers can be rejected). NOTE: with the precondition met "
        "reject() still always panics one call deeper, see SUSPECT connection::Connection::send_control unreachable | 1.",

    # ---------------------------------------------------------------- protocol (0.6)
    'libtw2_net::protocol::ChunksIter::pos | overflow | Sub | 0':
        "initial_len = data.len() at construction; self.data is only ever replaced by a suffix of itself (split_at rest) "
        "or by &[] (excess_data), so its length never exceeds initial_len.",
    'libtw2_net::protocol::write_chunk::{closure#0} | precondition | libtw2_net::protocol::write_chunk_impl | 0':
        "The assert_u16 cast is dominated by `assert!(bytes.len() >> CHUNK_SIZE_BITS == 0)` on the previous line "
        "(len < 1024 < 65536), so the cast itself never fires; the dominating assert is the real site (SUSPECT key "
        "protocol::write_chunk_impl | panic-call | assert! | 0).",
    'libtw2_net::protocol::write_chunk_impl | precondition | libtw2_net::protocol::ChunkHeader::pack | 0':
        "flags = vital_flag | resend_flag <= 3 (< 1 << CHUNK_FLAGS_BITS) and size < 1024 by the assert at the top of "
        "write_chunk_impl, for every caller.",
    'libtw2_net::protocol::has_token_heuristic | overflow | Add | 3':
        "payload_end_heuristic is 1, 5, 1 + nul + 1 with nul <= payload.len(), or ChunksIter::pos() <= payload.len(); "
        "adding TOKEN_SIZE = 4 to a value <= isize::MAX + 2 cannot overflow usize.",
    'libtw2_net::protocol::Packet::read_impl | unwrap | expect<-arg | 0':
        "buffer is None only via pub fn read_panic_on_decompression, which is documented by its name to panic on a "
        "compressed packet; Packet::read (used by Connection::feed and Net::feed) always passes Some(buffer).",
    'libtw2_net::protocol::Packet::read_impl | unwrap | unwrap<-FromBytesExt::ref_and_rest_from | 0':
        "On Ok, decompress_impl returned buffer.initialized() of a fresh nested BufferRef into which it first wrote the "
        "3-byte fake header (write(..).unwrap()), so decompressed.len() >= HEADER_SIZE and the header split succeeds.",
    'libtw2_net::protocol::Packet::decompress::{closure#0} | precondition | libtw2_net::protocol::Packet::decompress_impl | 0':
        "The expect is dominated by `assert!(Packet::needs_decompression(packet))`, which is true only if "
        "PacketHeaderPacked::ref_and_rest_from(packet) is Some; callers establish it (see next entries).",
    'libtw2_net::protocol::Packet::decompress_impl | panic-call | assert! | 0':
        "Callers: read_impl (its first statement asserts remaining() >= MAX_PACKETSIZE on the same, still unwritten "
        "buffer; the nested `&mut buffer` BufferRef has the same remaining()) and decompress_if_needed_impl (asserts the "
        "same at its top, documented on decompress_if_needed).",
    'libtw2_net::protocol::Packet::decompress_impl | panic-call | assert! | 1':
        "read_impl reaches decompress only after bytes.len() <= MAX_PACKETSIZE, the header parsed, CONNLESS clear (early "
        "return otherwise) and COMPRESSION set -- exactly needs_decompression(); decompress_if_needed_impl checks "
        "needs_decompression explicitly.",
    'libtw2_net::protocol::Packet::decompress_impl | panic-call | assert! | 2':
        "Implied by the preceding needs_decompression(packet) assert, which computes the same unpacked flags and requires "
        "flags & PACKETFLAG_CONNLESS == 0.",
    'libtw2_net::protocol::Packet::decompress_impl | panic-call | assert! | 3':
        "Implied by needs_decompression(packet) == true (requires flags & PACKETFLAG_COMPRESSION != 0).",
    'libtw2_net::protocol::Packet::decompress_impl | unwrap | unwrap<-BufferRef::write | 0':
        "remaining() >= MAX_PACKETSIZE (1400) was asserted at function entry and nothing was written since; 3 bytes fit.",
    'libtw2_net::protocol::ConnectedPacket::write_impl | unwrap | unwrap<-Write::write | 0':
        "This is std::io::Write for ArrayVec (arrayvec 0.5.2), which writes min(remaining, len) bytes and always returns "
        "Ok(n); it cannot return Err for any payload length.",
    'libtw2_net::protocol::ConnectedPacket::write_impl | unwrap | unwrap<-Write::write | 1':
        "Same io::Write impl for ArrayVec: always Ok.",
    'libtw2_net::protocol::ConnectedPacket::write_impl | precondition | libtw2_net::protocol::PacketHeader::pack | 0':
        "flags = request_resend (4) | compression (8) < 16. ack: field documented `pub ack: u16, // u10`; the in-crate "
        "producer OnlineState::flush passes Sequence::to_u16() (< 1024 by the Sequence invariant). A hand-built "
        "ConnectedPacket with ack >= 1024 violates the stated field width (pack(): \"Check that the fields do not exceed "
        "their maximal size\").",
    'libtw2_net::protocol::ConnectedPacket::write_impl | precondition | libtw2_net::protocol::ControlPacket::write | 0':
        "ControlPacket::write packs flags = PACKETFLAG_CONTROL (1) and the same ack: Connection::send_control passes "
        "online.ack.to_u16() (< 1024) or 0; the field is documented as u10.",
    'libtw2_net::protocol::ControlPacket::write | panic-call | assert! | 0':
        "Close reason NUL-free: Connection::disconnect asserts the same (documented precondition) before send_control; it is "
        "the only in-crate producer of ControlPacket::Close for writing.",
    'libtw2_net::protocol::ControlPacket::write | panic-call | assert! | 1':
        "Via PacketBuilder the BufferRef is a 1400-byte array, so initialized().len() <= 1400 trivially; for direct "
        "ConnectedPacket::write into a larger buffer the packet is 3+1+4+reason+1+4 <= 140 under the documented "
        "precondition reason <= 127 bytes.",

    # ---------------------------------------------------------------- protocol7 (0.7)
    'libtw2_net::protocol7::write_chunk::{closure#0} | precondition | libtw2_net::protocol7::write_chunk_impl | 0':
        "assert_u16 is dominated by `assert!(bytes.len() >> CHUNK_SIZE_BITS == 0)` (len < 4096 < 65536); the cast itself "
        "never fires (the dominating assert is key protocol7::write_chunk_impl | panic-call | assert! | 0).",
    'libtw2_net::protocol7::write_chunk_impl | precondition | libtw2_net::protocol7::ChunkHeader::pack | 0':
        "flags <= 3 and size < 4096 = 1 << CHUNK_SIZE_BITS by the assert at the top of write_chunk_impl.",
    'libtw2_net::protocol7::Packet::read_impl | unwrap | expect<-arg | 0':
        "None only through pub fn read_panic_on_decompression (documented by name); Packet::read passes Some(buffer).",
    'libtw2_net::protocol7::Packet::read_impl | unwrap | unwrap<-FromBytesExt::ref_and_rest_from | 0':
        "decompress_impl's Ok value starts with the 7-byte fake header it wrote first, so len >= HEADER_SIZE (7).",
    'libtw2_net::protocol7::Packet::decompress::{closure#0} | precondition | libtw2_net::protocol7::Packet::decompress_impl | 0':
        "expect dominated by assert!(needs_decompression(packet)), which implies the header parse succeeds.",
    'libtw2_net::protocol7::Packet::decompress_impl | panic-call | assert! | 0':
        "Callers read_impl / decompress_if_needed_impl both assert remaining() >= MAX_PACKETSIZE on the same unwritten "
        "buffer before calling decompress.",
    'libtw2_net::protocol7::Packet::decompress_impl | panic-call | assert! | 1':
        "read_impl: len <= 1400, 7-byte header parsed, CONNLESS clear (early return), COMPRESSION set == "
        "needs_decompression(); decompress_if_needed_impl checks it explicitly.",
    'libtw2_net::protocol7::Packet::decompress_impl | panic-call | assert! | 2':
        "Implied by needs_decompression(packet) (same flags, CONNLESS clear).",
    'libtw2_net::protocol7::Packet::decompress_impl | panic-call | assert! | 3':
        "Implied by needs_decompression(packet) (COMPRESSION set).",
    'libtw2_net::protocol7::Packet::decompress_impl | unwrap | unwrap<-BufferRef::write | 0':
        "remaining() >= 1400 asserted at entry; the 7-byte header fits.",
    'libtw2_net::protocol7::ConnectedPacket::write_impl | precondition | libtw2_net::protocol7::PacketHeader::pack | 0':
        "flags = request_resend (2) | compression (4) < 16; ack documented `// u10`, in-crate producer "
        "connection7::OnlineState::flush passes Sequence::to_u16() < 1024.",
    'libtw2_net::protocol7::ConnectedPacket::write_impl | precondition | libtw2_net::protocol7::ControlPacket::write | 0':
        "flags = PACKETFLAG_CONTROL (1); ack from send_control_with_token is online.ack.to_u16() (< 1024) or 0.",
    'libtw2_net::protocol7::ControlPacket::write | panic-call | assert! | 0':
        "Connect(response_token) != TOKEN_NONE: only producer is connection7 tick_action with connecting.own_token, which "
        "originates from Token::random in Connection::connect (loops until != TOKEN_NONE). Direct callers: explicit "
        "precondition of the writer.",
    'libtw2_net::protocol7::ControlPacket::write | panic-call | assert! | 1':
        "Close reason NUL-free: connection7::Connection::disconnect asserts it first (documented precondition).",
    'libtw2_net::protocol7::ControlPacket::write | panic-call | assert! | 2':
        "Token(response_token) != TOKEN_NONE: producers are tick_action (TokenState.own_token) and feed_impl "
        "(PendingConnectState.own_token), both created by Token::random, which never returns TOKEN_NONE.",
    'libtw2_net::protocol7::ControlPacket::write | panic-call | assert! | 3':
        "Via PacketBuilder the buffer is 1400 bytes so the written prefix is <= 1400; largest control packets are the "
        "519-byte token request and Close = 7+1+reason+1 <= 136 under the documented reason <= 127 precondition.",

    # ---------------------------------------------------------------- warn
    '<libtw2_warn::Panic as libtw2_warn::Warn>::warn | panic-call | panic_2021! | 0':
        "Documented: \"Struct that will panic on any warning it encounters. This should probably only be used within "
        "tests.\" The only non-test use in libtw2_net is Net::accept feeding the constants CONNECT_PACKET / "
        "CONNECT_PACKET_NO_TOKEN to an Unconnected connection; traced through Packet::read_impl/has_token_heuristic/"
        "Connection::feed_impl: header 0x10 00 00 has no padding bits and num_chunks 0, payload is exactly "
        "\\x01[TKEN + 4-byte token], no Read error, state.token() is None so no TokenMismatch -> no warning is emitted.",
}
SUSPECT = {
    # ---------------------------------------------------------------- HIGH-LEVEL, confirmed by running
    'libtw2_net::connection::Connection::send_control | panic-call | unreachable_2021! | 1':
        "HIGH-LEVEL (run): Net::reject always panics. Server Net::feed of b\"\\x10\\x00\\x00\\x01\" yields Connect(pid); "
        "net.reject(cb, pid, b\"full\") passes `assert!(peer.conn.is_unconnected())`, calls Connection::disconnect, which only "
        "excludes Disconnected and then calls send_control, whose `State::Unconnected => unreachable!()` (connection.rs:619) "
        "fires. Same for Connection::new().disconnect(cb, b\"\").",
    'libtw2_net::protocol::write_chunk_impl | panic-call | assert! | 0':
        "HIGH-LEVEL (run): online 0.6 Connection::send / Net::send with payload length 1024..=1390 (either vital flag). "
        "send() only rejects len > MAX_PAYLOAD (1390); queue() -> PacketContents::write_chunk -> write_chunk_impl "
        "`assert!(bytes.len() >> CHUNK_SIZE_BITS == 0)` (10-bit size field) panics instead of returning TooLongData. "
        "Also direct protocol::write_chunk with >= 1024 bytes.",
    'libtw2_net::connection::PacketContents::write_chunk | overflow | Add | 0':
        "HIGH-LEVEL (run): (a) 256 calls Connection::send(cb, b\"\", false) without flush: each chunk is 2 bytes "
        "(512 <= 1390) so can_fit_chunk never forces a flush and `num_chunks += 1` overflows the u8 on the 256th call "
        "(any payload <= 3 bytes works). (b) Even with flushes: 3 x (100 x send(b\"\", true); flush()) with no acks, then "
        "tick() after 1 s -> resend() re-packs 300 3-byte vital chunks (900 <= 1390) into one packet and overflows at the "
        "256th; the peer can also trigger resend() remotely with a REQUEST_RESEND packet while withholding acks.",
    'libtw2_net::connection7::PacketContents::write_chunk | overflow | Add | 0':
        "HIGH-LEVEL (run): identical code in 0.7: 256 x connection7::Connection::send(cb, b\"\", false) without flush, or "
        "> 255 unacked tiny vital chunks followed by tick()/REQUEST_RESEND -> resend(); `num_chunks += 1` overflows u8.",
    'libtw2_net::protocol::Packet::read_impl | panic-call | assert! | 0':
        "HIGH-LEVEL (run), doc/assert mismatch: Packet::read and Connection::feed document \"`buffer` must have at least size "
        "`MAX_PAYLOAD`\" (1390) but the assert demands remaining() >= MAX_PACKETSIZE (1400). "
        "Packet::read(&mut Ignore, b\"\\x10\\x00\\x00\\x00\", None, &mut [0u8; 1390][..]) panics for every input packet; "
        "Net::feed/Connection::feed with a 1390..1399-byte buffer likewise. With a >= 1400-byte buffer it never fires.",
    'libtw2_net::protocol7::Packet::read_impl | panic-call | assert! | 0':
        "HIGH-LEVEL, same mismatch in 0.7: doc of protocol7::Packet::read / connection7::Connection::feed says the buffer needs "
        "size MAX_PAYLOAD (1390), the assert requires MAX_PACKETSIZE (1400); a doc-conforming 1390-byte buffer panics on "
        "every feed.",
    '<libtw2_net::time::Timestamp as std::ops::Add>::add | unwrap | unwrap<-num::checked_add | 1':
        "HIGH-LEVEL (run): outer `self.usec.checked_add(..).unwrap()` fires when Callback::time() returns a Timestamp "
        "within the added 0.5 s / 1 s of u64::MAX, notably Timestamp::default() == Timestamp::sentinel() "
        "(usec = u64::MAX): Connection::connect -> tick_action -> Timeout::set -> cb.time() + 500 ms panics. Also the pub "
        "operator directly: Timestamp::from_usecs_since_epoch(u64::MAX) + Duration::from_micros(1).",

    # ---------------------------------------------------------------- low-level pub API only
    '<libtw2_net::time::Timestamp as std::ops::Add>::add | unwrap | unwrap<-num::checked_mul | 0':
        "[low-level API only] pub operator Timestamp + Duration: Duration::from_secs(u64::MAX / 1_000_000 + 1) makes "
        "as_secs().checked_mul(1_000_000) None -> unwrap panics. In-crate callers only add the constants 500 ms and "
        "1000 ms (TimeoutExt::set), so Connection/Net cannot reach it.",
    '<libtw2_net::time::Timestamp as std::ops::Add>::add | unwrap | unwrap<-num::checked_add | 0':
        "[low-level API only] inner checked_add: Duration::new(18_446_744_073_709, 600_000_000): secs*1e6 = "
        "18446744073709000000, + 600000 > u64::MAX -> None -> unwrap panics. In-crate durations are 0.5 s / 1 s only.",
    'libtw2_net::protocol::write_chunk_impl | precondition | libtw2_net::protocol::ChunkHeaderVital::pack | 0':
        "[low-level API only] protocol::write_chunk(b\"\", Some((1024, false)), buf): ChunkHeaderVital::pack "
        "`assert!(sequence >> SEQUENCE_BITS == 0)` fires; the range of the u16 sequence argument is undocumented "
        "(field comment even says `// u16`). Via Connection the value is Sequence::to_u16() < 1024 (Sequence invariant: "
        "new/from_u16/next), and the nested ChunkHeader::pack asserts hold (flags <= 3, size < 1024 by the top assert).",
    'libtw2_net::protocol7::write_chunk_impl | precondition | libtw2_net::protocol7::ChunkHeaderVital::pack | 0':
        "[low-level API only] protocol7::write_chunk(b\"\", Some((1024, false)), buf) trips `assert!(sequence >> "
        "SEQUENCE_BITS == 0)` in ChunkHeaderVital::pack. Via connection7 the sequence is Sequence::to_u16() < 1024; "
        "nested ChunkHeader::pack asserts hold (flags <= 3, size < 4096).",
    'libtw2_net::protocol7::write_chunk_impl | panic-call | assert! | 0':
        "[low-level API only] protocol7::write_chunk(&[0u8; 4096], None, buf) trips `assert!(bytes.len() >> "
        "CHUNK_SIZE_BITS == 0)` (12-bit size) instead of returning an error. Not reachable via "
        "connection7::Connection::send/resend: payloads are capped at MAX_PAYLOAD = 1390 < 4096.",
    'libtw2_net::protocol::ChunksIter::next_warn | overflow | Sub | 0':
        "[low-level API only, theoretical] pub ChunksIter::new(data, n) with a slice of >= 2^32 + 2 zero bytes on a 64-bit "
        "target: every 2-byte header (flags 0, size 0) is a chunk and decrements the i32 num_remaining_chunks (start "
        "<= 255) past i32::MIN after 2^31 + n + 1 chunks. Via Packet::read/Connection::feed/has_token_heuristic the "
        "payload is <= 1397 bytes (<= 698 decrements, value >= -698), so it cannot fire there.",
    'libtw2_net::protocol7::ChunksIter::next_warn | overflow | Sub | 0':
        "[low-level API only, theoretical] same as 0.6: pub protocol7::ChunksIter::new with a >= 4 GiB slice of zero bytes "
        "underflows the i32 counter; through protocol7::Packet::read the payload is <= 1393 bytes (<= 696 decrements).",
}
