"""Reviewed panic sites of libtw2_map (read against the source on 2026-09-24)."""

_DF_INV = (
    "datafile::raw::Reader::new always runs Reader::check (fields private, no other constructor): item types are "
    "sequential with start+num <= num_items (i32 >= 0, and num_items i32s are held in memory), and every item in "
    "an item type's range carries that type_id (last loop of check)"
)

_GET_INDEX = (
    "get_index_impl adds index.try_usize() (<= i32::MAX) to indices.start; this private from_raw is only reached "
    "via Reader::layer/Reader::image, which pass 0..reader.num_data() (start 0) or "
    "reader.item_type_indices(..) whose start <= num_items <= i32::MAX (and <= isize::MAX/4 because "
    "item_offsets: Vec<i32> of that length is in memory), so the usize sum cannot overflow on 32- or 64-bit; "
    + _DF_INV
)

REVIEWED = {
    'libtw2_map::format::MapItemExt::sum_len | overflow | Add | 0':
        "offset() and len() are compile-time constants of the MapItem impls; every impl in format.rs has "
        "offset() <= 12 and len() = size_of::<Self>()/4 <= 11, so the sum is <= 23 (only a foreign MapItem impl "
        "with an absurd offset() could overflow, which is not input data).",
    'libtw2_map::format::MapItemExt::from_slice_rest | slice-index | RangeFrom | 0':
        "Dominated by `if slice.len() < Self::sum_len() { return Err(TooShort) }` (format.rs:37) and "
        "sum_len() = offset()+len() >= offset(), so offset() <= slice.len().",
    'libtw2_map::format::MapItemExt::from_slice_rest | split_at | split_at | 0':
        "slice.len() >= offset()+len() is checked at format.rs:37, hence slice[offset()..].len() >= len().",
    'libtw2_map::format::MapItemExt::from_slice_rest | panic-call | assert! | 0':
        "item is the first half of split_at(Self::len()) so item.len() == size_of::<Self>()/4; the OnlyI32 "
        "contract (struct is tightly packed i32s; true for all impls in format.rs, ZSTs give 0 == 0) makes "
        "size_of::<Self>() a multiple of 4, so the equality always holds.",
    'libtw2_map::format::MapItemExt::from_slice_rest_mut | slice-index | RangeFrom | 0':
        "Same guard as from_slice_rest: `slice.len() < Self::sum_len()` returns Err(TooShort) at format.rs:56, "
        "so offset() <= slice.len().",
    'libtw2_map::format::MapItemExt::from_slice_rest_mut | split_at | split_at | 0':
        "slice.len() >= offset()+len() checked at format.rs:56, hence the tail after offset() has >= len() "
        "elements.",
    'libtw2_map::format::MapItemExt::from_slice_rest_mut | panic-call | assert! | 0':
        "item.len() == Self::len() == size_of::<Self>()/4 by split_at_mut, and size_of::<Self>() is a multiple "
        "of 4 for every OnlyI32 type (all impls in format.rs are #[repr(C)] structs of i32 or ZSTs).",
    'libtw2_map::format::i32s_to_bytes | overflow | Mul | 0':
        "input is an in-memory &[i32], so input.len()*4 is its byte size and <= isize::MAX; cannot overflow "
        "usize.",
    'libtw2_map::format::i32s_to_bytes | bounds | index | 0':
        "After the assert result.len() == 4*input.len(), result.chunks_mut(4) yields only full 4-byte chunks "
        "(length is a multiple of 4), so output[0] is in bounds.",
    'libtw2_map::format::i32s_to_bytes | bounds | index | 1':
        "result.len() is a multiple of 4 (assert at format.rs:71), so every chunks_mut(4) chunk has exactly 4 "
        "bytes.",
    'libtw2_map::format::i32s_to_bytes | bounds | index | 2':
        "result.len() is a multiple of 4 (assert at format.rs:71), so every chunks_mut(4) chunk has exactly 4 "
        "bytes.",
    'libtw2_map::format::i32s_to_bytes | bounds | index | 3':
        "result.len() is a multiple of 4 (assert at format.rs:71), so every chunks_mut(4) chunk has exactly 4 "
        "bytes.",
    'libtw2_map::format::bytes_to_string | slice-index | RangeTo | 0':
        "i comes from bytes.iter().enumerate(), so i < bytes.len() and bytes[..i] is in range.",
    'libtw2_map::format::EnvpointExt::from_slice | overflow | Mul | 0':
        "slice is an in-memory &[i32]; 4*slice.len() is its byte size, <= isize::MAX.",
    'libtw2_map::format::EnvpointExt::from_slice | divzero | rem | 0':
        "size_of::<Self>() is a type constant; the only Envpoint impls are MapItemEnvpointV1 (24 bytes) and "
        "MapItemEnvpointV2 (88 bytes), both non-zero (only a foreign zero-sized Envpoint impl could divide by "
        "zero, which is not input data).",
    'libtw2_map::format::MapItemLayerV1TilemapExtraRace::offset | overflow | Add | 0':
        "offset is MapItemLayerV1TilemapV2::sum_len() = 12 or MapItemLayerV1TilemapV3::sum_len() = 15 and the "
        "addend is a literal 0..=4; constant arithmetic <= 19.",
    'libtw2_map::format::MapItemLayerV1TilemapExtraRace::from_slice | bounds | index | 0':
        "`if slice.len() <= offset { return None }` (format.rs:265) dominates; slice::transmute::<i32, "
        "MapItemLayerV1TilemapExtraRace> keeps the length (both 4 bytes, relative_size_of_mult(len) = len), so "
        "offset < len.",
    'libtw2_map::reader::MapItemExtInternal::mandatory::{closure#0} | bounds | index | 0':
        "The ok_or_else closure runs only when optional() = MapItemExt::from_slice returned Ok(None); "
        "from_slice_rest returns Ok(None) only on the path `!ignore_version()` after `slice.len() == 0` "
        "returned Err(TooShort) (format.rs:30-34), so slice.len() >= 1 and slice[0] is valid.",
    'libtw2_map::reader::MapItemExtInternal::mandatory_rest::{closure#0} | bounds | index | 0':
        "Closure runs only when from_slice_rest returned Ok(None), which happens only after the "
        "`slice.len() == 0 => Err(TooShort)` check at format.rs:30 and the read of slice[0] at :33; so "
        "slice.len() >= 1.",
    'libtw2_map::reader::Group::from_raw | overflow | Add | 0':
        "Only caller Reader::group passes layer_indices = reader.item_type_indices(LAYER), whose start <= "
        "num_items <= i32::MAX (and <= isize::MAX/4 since item_offsets Vec<i32> is in memory); start_layer "
        "converted by try_usize is <= i32::MAX; sum < 2^32 on 64-bit and < 2^29+2^31 on 32-bit. " + _DF_INV,
    'libtw2_map::reader::Group::from_raw | overflow | Add | 1':
        "layers_start <= layer_indices.end is checked at reader.rs:180 and layer_indices.end <= num_items <= "
        "i32::MAX (<= isize::MAX/4) by datafile Reader::check; num_layers via try_usize <= i32::MAX; the usize sum "
        "cannot overflow on 32- or 64-bit.",
    'libtw2_map::reader::DdraceLayerSounds::from_raw | precondition | libtw2_map::reader::get_index | 0':
        _GET_INDEX,
    'libtw2_map::reader::DdraceLayerSounds::from_raw | precondition | libtw2_map::reader::get_index_opt | 0':
        _GET_INDEX,
    'libtw2_map::reader::LayerQuads::from_raw | precondition | libtw2_map::reader::get_index | 0':
        _GET_INDEX,
    'libtw2_map::reader::LayerQuads::from_raw | precondition | libtw2_map::reader::get_index_opt | 0':
        _GET_INDEX,
    'libtw2_map::reader::LayerTilemap::from_raw | precondition | libtw2_map::reader::get_index | 0':
        _GET_INDEX,
    'libtw2_map::reader::LayerTilemap::from_raw | precondition | libtw2_map::reader::get_index_opt | 0':
        _GET_INDEX,
    'libtw2_map::reader::LayerTilemap::from_raw | precondition | libtw2_map::reader::get_index | 1':
        _GET_INDEX,
    'libtw2_map::reader::LayerTilemap::from_raw | precondition | libtw2_map::reader::get_index | 2':
        _GET_INDEX,
    'libtw2_map::reader::LayerTilemap::from_raw | precondition | libtw2_map::reader::get_index | 3':
        _GET_INDEX,
    'libtw2_map::reader::LayerTilemap::from_raw | precondition | libtw2_map::reader::get_index | 4':
        _GET_INDEX,
    'libtw2_map::reader::LayerTilemap::from_raw | precondition | libtw2_map::reader::get_index | 5':
        _GET_INDEX,
    'libtw2_map::reader::LayerTilemap::from_raw | precondition | libtw2_map::reader::get_index | 6':
        _GET_INDEX,
    'libtw2_map::reader::Layer::from_raw::{closure#0} | panic-call | unreachable_2021! | 0':
        "The invalid_version closure of mandatory_rest runs only if from_slice_rest returns Ok(None), which "
        "requires !ignore_version(); MapItemLayerV1::ignore_version() is the constant `true` (format.rs:606), so "
        "Ok(None) is never produced.",
    'libtw2_map::reader::Image::from_raw | precondition | libtw2_map::reader::get_index | 0':
        "Private fn, only caller Reader::image passes data_indices = 0..reader.num_data(); indices.start == 0 so "
        "get_index_impl computes try_usize(index) + 0, no overflow.",
    'libtw2_map::reader::Image::from_raw | precondition | libtw2_map::reader::get_index | 1':
        "Private fn, only caller Reader::image passes data_indices = 0..reader.num_data(); indices.start == 0 so "
        "get_index_impl computes try_usize(index) + 0, no overflow.",
    '<libtw2_map::reader::SettingsIter as std::iter::Iterator>::next | slice-index | RangeFrom | 0':
        "Invariant pos <= settings.len(): fields are private, the only constructor Settings::iter sets pos = 0, "
        "and next() advances pos by len+1 only when position() found a 0 byte at pos+len < settings.len() "
        "(otherwise `?` returns before mutating), so the new pos <= settings.len().",
    'libtw2_map::reader::Reader::version::{closure#1} | panic-call | unreachable_2021! | 0':
        "invalid_version closure of mandatory runs only if from_slice returns Ok(None), which requires "
        "!ignore_version(); MapItemCommonV0::ignore_version() is the constant `true` (format.rs:116).",
    'libtw2_map::reader::Reader::group | panic-call | assert! | 0':
        "Asserted API precondition, stated in the comment above it ('Doesn't fail if index is from "
        "Reader::groups()'): the in-crate caller game_layers passes i from group_indices() = "
        "reader.item_type_indices(MAP_ITEMTYPE_GROUP), and " + _DF_INV + ", so no file content can fire it; only "
        "a caller handing in a non-group item index (misuse) does.",
    'libtw2_map::reader::Reader::layer | panic-call | assert! | 0':
        "Asserted API precondition, stated in the comment above it ('Doesn't fail if index is from "
        "Reader::group()'): game_layers passes k from Group::layer_indices, which Group::from_raw clamps to a "
        "sub-range of reader.item_type_indices(MAP_ITEMTYPE_LAYER) (checks at reader.rs:180 and :184), and "
        + _DF_INV + ", so no file content can fire it; only a caller handing in a non-layer item index does.",
    'libtw2_map::reader::Reader::game_layers | unwrap | unwrap<-var | 0':
        "Reached only when `game` is Some, i.e. put(&mut game, ..) ran for a non-Normal tilemap; the match on "
        "group_index_width_height that follows every such put either returns Err or leaves it Some (the None arm "
        "sets it), and it is never reset, so it is Some at reader.rs:791.",
    'libtw2_map::reader::Reader::game_layers | unwrap | unwrap<-var | 1':
        "game_group is assigned Some in the same None-arm that sets group_index_width_height (reader.rs:780-781) "
        "and never cleared; that arm must have run before `game` could be Some without an early Err return.",
    'libtw2_map::reader::Reader::tune_layer_tiles_raw | precondition | libtw2_common::vec::transmute | 0':
        "U = format::TuneTile is #[repr(C)] {u8,u8}, size_of = 2 != 0 (type constant).",
    'libtw2_map::reader::Reader::tune_layer_tiles | precondition | libtw2_map::reader::Reader::tune_layer_tiles_raw | 0':
        "The exported divisor is size_of::<format::TuneTile>() = 2, a non-zero type constant independent of "
        "arguments.",
    'libtw2_map::reader::Reader::speedup_layer_tiles_raw | precondition | libtw2_common::vec::transmute | 0':
        "U = format::SpeedupTile is #[repr(C)] {u8 x4, little_endian::I16}, size_of = 6 != 0 (type constant).",
    'libtw2_map::reader::Reader::speedup_layer_tiles | precondition | libtw2_map::reader::Reader::speedup_layer_tiles_raw | 0':
        "The exported divisor is size_of::<format::SpeedupTile>() = 6, a non-zero type constant independent of "
        "arguments.",
    'libtw2_map::reader::Reader::switch_layer_tiles_raw | precondition | libtw2_common::vec::transmute | 0':
        "U = format::SwitchTile is #[repr(C)] {u8 x4}, size_of = 4 != 0 (type constant).",
    'libtw2_map::reader::Reader::switch_layer_tiles | precondition | libtw2_map::reader::Reader::switch_layer_tiles_raw | 0':
        "The exported divisor is size_of::<format::SwitchTile>() = 4, a non-zero type constant independent of "
        "arguments.",
    'libtw2_map::reader::Reader::tele_layer_tiles_raw | precondition | libtw2_common::vec::transmute | 0':
        "U = format::TeleTile is #[repr(C)] {u8,u8}, size_of = 2 != 0 (type constant).",
    'libtw2_map::reader::Reader::tele_layer_tiles | precondition | libtw2_map::reader::Reader::tele_layer_tiles_raw | 0':
        "The exported divisor is size_of::<format::TeleTile>() = 2, a non-zero type constant independent of "
        "arguments.",
    'libtw2_map::reader::Reader::layer_tiles_raw | precondition | libtw2_common::vec::transmute | 0':
        "U = format::Tile is #[repr(C)] {u8 x4}, size_of = 4 != 0 (type constant).",
    'libtw2_map::reader::Reader::layer_tiles | precondition | libtw2_map::reader::Reader::layer_tiles_raw | 0':
        "The exported divisor is size_of::<format::Tile>() = 4, a non-zero type constant independent of "
        "arguments.",
    'libtw2_map::reader::Reader::settings | overflow | Sub | 0':
        "`raw.len() == 0 ||` short-circuits before `raw.len() - 1` is evaluated (reader.rs:963), so len >= 1.",
    'libtw2_map::reader::Reader::settings | api | <std::vec::Vec as std::ops::Index>::index | 0':
        "Evaluated only when raw.len() != 0 (short-circuit ||); index raw.len()-1 < raw.len().",
}

SUSPECT = {
    'libtw2_map::format::i32s_to_bytes | panic-call | assert! | 0':
        "Caller-misuse only, not reachable from file data: `pub fn format::i32s_to_bytes` (pub mod format) has no "
        "doc comment; a direct call such as i32s_to_bytes(&mut [0u8; 3], &[0i32]) fails "
        "assert!(result.len() == input.len()*4). All in-crate callers (the name_get fns) pass [u8; 4N] with "
        "[i32; N] and satisfy it.",
    'libtw2_map::reader::Info::from_raw | precondition | libtw2_map::reader::get_index_opt | 0':
        "Direct-call only: Info::from_raw is `pub` in `pub mod reader` and takes a caller-chosen "
        "data_indices: Range<usize>; Info::from_raw(&[1, 1, 0, 0, 0], usize::MAX..usize::MAX) makes "
        "get_index_impl compute try_usize(author = 1) + usize::MAX -> add overflow panic (debug). Via "
        "Reader::info the range is 0..num_data() (start 0) and the site cannot fire for any file.",
    'libtw2_map::reader::Info::from_raw | precondition | libtw2_map::reader::get_index_opt | 1':
        "Direct-call only: pub Info::from_raw(&[1, -1, 1, 0, 0], usize::MAX..usize::MAX) -> get_index_impl "
        "computes try_usize(version = 1) + usize::MAX, add overflow. Safe via Reader::info (start 0).",
    'libtw2_map::reader::Info::from_raw | precondition | libtw2_map::reader::get_index_opt | 2':
        "Direct-call only: pub Info::from_raw(&[1, -1, -1, 1, 0], usize::MAX..usize::MAX) -> get_index_impl "
        "computes try_usize(credits = 1) + usize::MAX, add overflow. Safe via Reader::info (start 0).",
    'libtw2_map::reader::Info::from_raw | precondition | libtw2_map::reader::get_index_opt | 3':
        "Direct-call only: pub Info::from_raw(&[1, -1, -1, -1, 1], usize::MAX..usize::MAX) -> get_index_impl "
        "computes try_usize(license = 1) + usize::MAX, add overflow. Safe via Reader::info (start 0).",
    'libtw2_map::reader::Info::from_raw | precondition | libtw2_map::reader::get_index_opt | 4':
        "Direct-call only: pub Info::from_raw(&[1, -1, -1, -1, -1, 1], usize::MAX..usize::MAX) (6 ints so "
        "MapItemInfoV2 at offset 5 parses) -> get_index_impl computes try_usize(settings = 1) + usize::MAX, add "
        "overflow. Safe via Reader::info (start 0).",
}
