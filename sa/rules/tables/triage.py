"""Triage of the SUSPECT entries of the crate tables: sites that can fire only outside the
quantifier of the property that reaches them (argument-only API preconditions comparable to slice
indexing, inputs larger than 2 GiB, direct calls of low-level helpers that the property's entry
points never make with such arguments, misbehaving caller-supplied callbacks)."""

PRE = "argument-only API precondition (like slice indexing); independent of any parsed data: "
BIG = "needs an input of more than 2 GiB: "
LOW = "reachable only by calling the low-level helper directly with arguments the connection layer never passes: "

TRIAGED = {
    # ---- net
    'libtw2_net::protocol::Packet::read_impl | panic-call | assert! | 0':
        "documented scratch-buffer precondition of Packet::read / Connection::feed (the doc comment says MAX_PAYLOAD, the assert "
        "needs MAX_PACKETSIZE; every in-tree caller passes MAX_PACKETSIZE or more)",
    'libtw2_net::protocol7::Packet::read_impl | panic-call | assert! | 0':
        "documented scratch-buffer precondition of protocol7::Packet::read (same doc/assert constant mismatch as 0.6)",
    '<libtw2_net::time::Timestamp as std::ops::Add>::add | unwrap | unwrap<-num::checked_add | 1':
        "fires only if the caller's Callback::time() returns a Timestamp within one second of u64::MAX microseconds (584 000 years); "
        "a misbehaving caller-supplied clock is outside the property",
    '<libtw2_net::time::Timestamp as std::ops::Add>::add | unwrap | unwrap<-num::checked_mul | 0':
        LOW + "the connection layer only adds the constants 500 ms and 1000 ms",
    '<libtw2_net::time::Timestamp as std::ops::Add>::add | unwrap | unwrap<-num::checked_add | 0':
        LOW + "the connection layer only adds the constants 500 ms and 1000 ms",
    'libtw2_net::protocol::write_chunk_impl | precondition | libtw2_net::protocol::ChunkHeaderVital::pack | 0':
        LOW + "via Connection the sequence is Sequence::to_u16() < SEQUENCE_MODULUS (Sequence::new/from_u16/next keep seq < 1024)",
    'libtw2_net::protocol7::write_chunk_impl | precondition | libtw2_net::protocol7::ChunkHeaderVital::pack | 0':
        LOW + "via connection7 the sequence is Sequence::to_u16() < 1024",
    'libtw2_net::protocol7::write_chunk_impl | panic-call | assert! | 0':
        LOW + "connection7::Connection::send refuses payloads above MAX_PAYLOAD = 1390 < 4096 = 2^CHUNK_SIZE_BITS (C04 budget rule B1 checks the inequality)",
    'libtw2_net::protocol::ChunksIter::next_warn | overflow | Sub | 0':
        BIG + "the i32 counter starts <= 255 and is decremented once per chunk of >= 2 bytes; through Packet::read the payload is <= 1397 bytes",
    'libtw2_net::protocol7::ChunksIter::next_warn | overflow | Sub | 0':
        BIG + "same as 0.6; through protocol7::Packet::read the payload is <= 1393 bytes",
    # ---- snapshot
    'libtw2_snapshot::receiver::DeltaReceiver::snap | assert-cast | assert_u32 | 1':
        BIG + "two parts of 2 GiB each; parts decoded from packets are at most ~1.4 kB and there are at most 32",
    'libtw2_snapshot::snap::Delta::read_impl | overflow | Add | 0':
        BIG + "2^31 updates need at least 4 GiB of input",
    'libtw2_snapshot::snap::Snap::raw_type_id | panic-call | assert! | 0':
        PRE + "TypeId::Ordinal(0) and ordinals >= 0x4000 are reserved (same assert as Builder::add_item)",
    # ---- datafile
    '<libtw2_datafile::file::CallbackDataNew as libtw2_datafile::raw::CallbackNew>::ensure_filesize::inner | unwrap | unwrap<-num::checked_sub | 0':
        "environment only (file truncated by another process between the header read and metadata()); not a function of the file content",
    'libtw2_datafile::raw::Reader::item_header | api | <std::vec::Vec as std::ops::Index>::index | 0':
        PRE + "Reader::item(index) with index >= num_items(); every in-crate caller iterates 0..num_items / the validated type ranges",
    'libtw2_datafile::raw::Reader::data_size_file | api | <std::vec::Vec as std::ops::Index>::index | 0':
        PRE + "Reader::read_data(index) with index >= num_data()",
    'libtw2_datafile::raw::Reader::item_type | api | <std::vec::Vec as std::ops::Index>::index | 0':
        PRE + "Reader::item_type(index) with index >= num_item_types()",
    # ---- map
    'libtw2_map::format::i32s_to_bytes | panic-call | assert! | 0':
        PRE + "result.len() == 4 * input.len(); all in-crate callers pass matching fixed-size arrays",
    # ---- demo
    'libtw2_demo::format::CappedString::from_raw | panic-call | assert! | 0':
        "header strings longer than their field capacity are outside the quantifier (`all header strings up to their capacity`)",
    'libtw2_demo::writer::Writer::new | precondition | libtw2_demo::format::CappedString::from_raw | 0':
        "net_version longer than 63 bytes: outside the quantifier (`all header strings up to their capacity`)",
    'libtw2_demo::writer::Writer::new | precondition | libtw2_demo::format::CappedString::from_raw | 1':
        "map_name longer than 63 bytes: outside the quantifier",
    'libtw2_demo::writer::Writer::new | precondition | libtw2_demo::format::CappedString::from_raw | 2':
        "timestamp longer than 19 bytes: outside the quantifier",
    'libtw2_demo::writer::Writer::new | assert-cast | assert_i32 | 0':
        BIG + "map data longer than i32::MAX bytes",
    'libtw2_demo::ddnet::writer::DemoWriter::new | precondition | libtw2_demo::writer::Writer::new | 0':
        "forwards the header-string capacity preconditions of Writer::new (outside the quantifier)",
    'libtw2_demo::writer::Writer::write_chunk | panic-call | panic_2021! | 0':
        "RawChunk::Unknown is not a chunk the writer accepts; the statement speaks of ticks, snapshots, deltas and messages",
    'libtw2_demo::writer::Writer::write_chunk_impl | unwrap | expect<-Huffman::compress | 0':
        "payload whose Huffman encoding exceeds the 64 KiB chunk limit: above `payload sizes ... up to the maximum` of the format "
        "(recorded as an observation in DESIGN: the writer panics instead of returning an error)",
    'libtw2_demo::writer::Writer::write_chunk_impl | assert-cast | assert_u16 | 0':
        "compressed payload of exactly 65536 bytes: above the format maximum of 65535 (observation in DESIGN)",
    'libtw2_demo::writer::Writer::write_message | unwrap | expect<-libtw2_packer::with_packer | 0':
        "message whose int-packed form exceeds 64 KiB: above the format maximum (observation in DESIGN)",
    # ---- teehistorian
    'libtw2_teehistorian::raw::Reader::player_pos | assert-cast | assert_usize | 0':
        PRE + "negative client id passed by the caller; ids obtained from cids() are non-negative",
    'libtw2_teehistorian::raw::Reader::input | assert-cast | assert_usize | 0':
        PRE + "negative client id passed by the caller",
    'libtw2_teehistorian::file::Reader::player_pos | precondition | libtw2_teehistorian::raw::Reader::player_pos | 0':
        PRE + "negative client id passed by the caller",
    'libtw2_teehistorian::file::Reader::input | precondition | libtw2_teehistorian::raw::Reader::input | 0':
        PRE + "negative client id passed by the caller",
    'libtw2_teehistorian::raw::Buffer::read_kind | api | <std::vec::Vec as std::ops::Index>::index | 0':
        "API misuse: re-using a Buffer for a second Reader without Buffer::clear(); within one Reader offset <= buffer.len() "
        "is kept by read_kind/read_item/read_more (C17 R1/R3 decide the commit discipline)",
    'libtw2_teehistorian::raw::Buffer::read_item | api | <std::vec::Vec as std::ops::Index>::index | 0':
        "same as read_kind: only a Buffer shared between two Readers without clear() breaks offset <= len",
    # ---- common
    'libtw2_common::slice::relative_size_of_mult | overflow | Mul | 0':
        LOW + "workspace callers pass the length of an existing slice (len * size_of::<T>() <= isize::MAX) or 1",
    # ---- datafile direct calls
    'libtw2_datafile::format::Header::calculate_total_size | precondition | libtw2_datafile::format::Header::calculate_total_size::u | 0':
        LOW + "through Header::read, HeaderRest::check rejects negative counts first",
    'libtw2_datafile::format::Header::calculate_total_size | precondition | libtw2_datafile::format::Header::calculate_total_size::u | 1':
        LOW + "through Header::read, HeaderRest::check rejects negative counts first",
    'libtw2_datafile::format::Header::calculate_total_size | precondition | libtw2_datafile::format::Header::calculate_total_size::u | 2':
        LOW + "through Header::read, HeaderRest::check rejects negative counts first",
    'libtw2_datafile::format::Header::calculate_total_size | precondition | libtw2_datafile::format::Header::calculate_total_size::u | 4':
        LOW + "through Header::read, HeaderRest::check rejects negative counts first",
    'libtw2_datafile::format::Header::calculate_total_size | precondition | libtw2_datafile::format::Header::calculate_total_size::u | 5':
        LOW + "through Header::read, HeaderRest::check rejects negative counts first",
    # ---- map direct calls
    'libtw2_map::reader::Info::from_raw | precondition | libtw2_map::reader::get_index_opt | 0':
        LOW + "Reader::info passes 0..num_data()",
    'libtw2_map::reader::Info::from_raw | precondition | libtw2_map::reader::get_index_opt | 1':
        LOW + "Reader::info passes 0..num_data()",
    'libtw2_map::reader::Info::from_raw | precondition | libtw2_map::reader::get_index_opt | 2':
        LOW + "Reader::info passes 0..num_data()",
    'libtw2_map::reader::Info::from_raw | precondition | libtw2_map::reader::get_index_opt | 3':
        LOW + "Reader::info passes 0..num_data()",
    'libtw2_map::reader::Info::from_raw | precondition | libtw2_map::reader::get_index_opt | 4':
        LOW + "Reader::info passes 0..num_data()",
}
