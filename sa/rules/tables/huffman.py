"""Reviewed panic sites of libtw2_huffman (read against the source on 2026-09-24)."""

# Table facts used below.  `Huffman.nodes` is private; a `Huffman` is either the constant
# `instances::TEEWORLDS` (huffman/src/instances/teeworlds.rs, 513 nodes) or built by
# `Huffman::from_frequencies[_array]`.
# T1 (checked on the TEEWORLDS table by script): every leaf 0..=256 decodes via `to_symbol_repr` to
#    `num_bits` in 1..=15 with `bits < 2^num_bits`; every inner node 257..=512 has both children
#    `<= 511`, each index 0..=511 is a child exactly once, children index < parent index (a tree rooted
#    at 512), the stored code of each leaf is its path from the root, Kraft sum = 1.
# T2 (`from_frequencies_array`): leaf codes are written as `SymbolRepr{bits, num_bits: stack.len()}`
#    with `stack: ArrayVec<[u16; 24]>`, so `num_bits <= 24` (a deeper tree panics in the constructor,
#    not here); all 257 symbols are merged into the tree so every leaf is overwritten; children of inner
#    nodes are symbol ids `<= 256` or `nodes.len() <= 512`; `assert!(.. == NUM_NODES)` makes the root 512.
# L1 loop invariant of `compress_impl_unsafe`: `num_output_bits <= 7` at the head of every iteration
#    (0 initially; if the flush branch is taken it is reset to 0 and then increased by
#    `num_bits - bits_written < 8` (exit condition of the inner `while`); otherwise the branch condition
#    failed, i.e. `num_bits < 8 - num_output_bits`, so `num_output_bits + num_bits <= 7`).
REVIEWED = {
    'libtw2_huffman::Huffman::compress_impl_unsafe | precondition | libtw2_huffman::Huffman::get_node | 0':
        "`s` is either `b.u16()` of an input byte (`<= 255`) or the constant `EOF = 256`, so `s.usize() < 513 = NUM_NODES`.",
    'libtw2_huffman::Huffman::compress_impl_unsafe | unwrap | unwrap_err<-Huffman::get_node | 0':
        "`get_node(idx)` returns `Err(symbol)` exactly when `idx < NUM_SYMBOLS = 257`; here `s <= 256` (input byte or `EOF`).",
    'libtw2_huffman::Huffman::compress_impl_unsafe | overflow | Sub | 0':
        "L1: `num_output_bits <= 7`, so `8 - num_output_bits` is in 1..=8.",
    'libtw2_huffman::Huffman::compress_impl_unsafe | overflow | Shl | 0':
        "Shift amount `num_output_bits <= 7 < 32` (L1); the result is truncated with `as u8` on purpose.",
    'libtw2_huffman::Huffman::compress_impl_unsafe | overflow | Add | 0':
        "`len` is incremented only after `output.next()` returned `Some` (`ok_or(())?`), so `len <= buffer.len() <= isize::MAX`.",
    'libtw2_huffman::Huffman::compress_impl_unsafe | overflow | Sub | 1':
        "L1: `num_output_bits <= 7`.",
    'libtw2_huffman::Huffman::compress_impl_unsafe | overflow | Add | 1':
        "`bits_written` is 0 here (set at the top of the iteration) and `8 - num_output_bits <= 8`.",
    'libtw2_huffman::Huffman::compress_impl_unsafe | overflow | Sub | 2':
        "First evaluation: `bits_written = 8 - num_output_bits <= num_bits` by the enclosing `if symbol.num_bits >= 8 - num_output_bits`; later evaluations: the previous loop test established `num_bits - bits_written >= 8` before `bits_written += 8`, so `bits_written <= num_bits` still holds.",
    'libtw2_huffman::Huffman::compress_impl_unsafe | overflow | Shr | 0':
        "Inside the `while`, `bits_written <= num_bits - 8`; `num_bits <= 15` for TEEWORLDS (T1) and `<= 24` for any `from_frequencies` tree (T2), so the shift amount is `< 32`.",
    'libtw2_huffman::Huffman::compress_impl_unsafe | overflow | Add | 2':
        "Follows a successful `output.next()`; `len <= buffer.len() <= isize::MAX`.",
    'libtw2_huffman::Huffman::compress_impl_unsafe | overflow | Add | 3':
        "The loop condition gives `bits_written + 8 <= num_bits <= 255` (u8), no overflow.",
    'libtw2_huffman::Huffman::compress_impl_unsafe | overflow | Shr | 1':
        "`bits_written <= num_bits` (0 if the flush branch was skipped, else see Sub|2) and `num_bits <= 24` (T1/T2), so the shift amount is `< 32`.",
    'libtw2_huffman::Huffman::compress_impl_unsafe | overflow | Sub | 3':
        "`bits_written <= num_bits`: it is 0 when the flush branch was skipped, otherwise the `while` exit leaves `0 <= num_bits - bits_written < 8` (see Sub|2).",
    'libtw2_huffman::Huffman::compress_impl_unsafe | overflow | Add | 4':
        "By the case analysis of L1 the sum is `<= 7`: either `num_output_bits` was reset to 0 and `num_bits - bits_written < 8`, or `num_bits < 8 - num_output_bits` and `bits_written == 0`.",
    'libtw2_huffman::Huffman::compress_impl_unsafe | overflow | Add | 5':
        "Follows a successful `output.next()`; `len <= buffer.len() <= isize::MAX`.",
    'libtw2_huffman::Huffman::decompress_unsafe | unwrap | unwrap<-Huffman::get_node | 0':
        "`ROOT_IDX = 512 >= NUM_SYMBOLS = 257`, so `get_node` returns `Ok`; `512 < NUM_NODES = 513` for the index.",
    'libtw2_huffman::Huffman::decompress_unsafe | precondition | libtw2_huffman::Huffman::get_node | 1':
        "`node` is always an inner node (the root, or a value returned by `get_node` on its `Ok` = `idx >= 257` arm); children of inner nodes are `<= 511` in TEEWORLDS (T1) and `<= 512` for `from_frequencies` trees (T2), so `new_idx.usize() < 513` for arbitrary input bytes.",
    'libtw2_huffman::Huffman::decompress_unsafe | assert-cast | assert_u8 | 0':
        "Reached only on the `Err` arm of `get_node(new_idx)`, i.e. `new_idx < 257`, and after `new_idx == EOF (256)` has broken out of the loop, so `new_idx <= 255`.",
    'libtw2_huffman::Huffman::decompress_unsafe | overflow | Add | 0':
        "`len` is incremented only after `output.next()` returned `Some`, so `len <= buffer.len() <= isize::MAX`.",
}
SUSPECT = {
}
