"""Reviewed panic sites of libtw2_gamenet_common / _ddnet / _teeworlds_0_7 (read against the source on 2026-09-24).

The ddnet / teeworlds-0.5 / 0.6 / 0.7 sources are generated and structurally identical; a KEY listed for one
of them stands for the same generated code in the others.
"""
REVIEWED = {
    'libtw2_gamenet_common::msg::SystemOrGame::encode_id | panic-call | assert! | 0':
        "Encode side (out of the decode/from_i32 scope): explicit check that an ordinal message id is not 0 (0 is the escape for UUID ids). Every workspace caller passes `self.msg_id()` of a generated message (`MessageExt::encode`, `System::encode`, `Game::encode`), which is `MessageId::from(CONST)` with generated constants `>= 1` or a `Uuid`; not influenced by received bytes.",
    'libtw2_gamenet_common::msg::SystemOrGame::encode_id | panic-call | assert! | 1':
        "Encode side: explicit check that the ordinal fits in 31 bits (non-negative) before `iid << 1 | flag`. Callers pass generated positive constants (`msg_id()` of generated messages) or `Uuid` (iid = 0); a decoded raw id is never re-encoded through this function.",
    'libtw2_gamenet_ddnet::msg::system::WhatIs::decode | unwrap | unwrap<-builder::from_slice | 0':
        "`_p.read_raw(16)?` yields exactly 16 bytes on `Ok` (`split_at(16).0` after the `slice.len() < len` check in `Unpacker::read_raw`) and returns early on `Err`; `Uuid::from_slice` (uuid 0.8.1) errs only for `len != 16`, so the `unwrap` cannot fire for any input bytes.",
    'libtw2_gamenet_ddnet::msg::system::ItIs::decode | unwrap | unwrap<-builder::from_slice | 0':
        "`_p.read_raw(16)?` yields exactly 16 bytes on `Ok` (`split_at(16).0` after the `slice.len() < len` check in `Unpacker::read_raw`) and returns early on `Err`; `Uuid::from_slice` (uuid 0.8.1) errs only for `len != 16`, so the `unwrap` cannot fire for any input bytes.",
    'libtw2_gamenet_ddnet::msg::system::IDontKnow::decode | unwrap | unwrap<-builder::from_slice | 0':
        "`_p.read_raw(16)?` yields exactly 16 bytes on `Ok` (`split_at(16).0` after the `slice.len() < len` check in `Unpacker::read_raw`) and returns early on `Err`; `Uuid::from_slice` (uuid 0.8.1) errs only for `len != 16`, so the `unwrap` cannot fire for any input bytes.",
    'libtw2_gamenet_ddnet::msg::system::MapDetails::decode | unwrap | unwrap<-Sha256::from_slice | 0':
        "`_p.read_raw(32)?` yields exactly 32 bytes on `Ok` (`split_at(32).0` in `Unpacker::read_raw`) and returns early on `Err`; `Sha256::from_slice` (common/src/digest.rs) errs only for `bytes.len() != 32`, so the `unwrap` cannot fire for any input bytes.",
    'libtw2_gamenet_ddnet::msg::system::ClientVersion::decode | unwrap | unwrap<-builder::from_slice | 0':
        "`_p.read_raw(16)?` yields exactly 16 bytes on `Ok` (`split_at(16).0` after the `slice.len() < len` check in `Unpacker::read_raw`) and returns early on `Err`; `Uuid::from_slice` (uuid 0.8.1) errs only for `len != 16`, so the `unwrap` cannot fire for any input bytes.",
    'libtw2_gamenet_ddnet::msg::system::PingEx::decode | unwrap | unwrap<-builder::from_slice | 0':
        "`_p.read_raw(16)?` yields exactly 16 bytes on `Ok` (`split_at(16).0` after the `slice.len() < len` check in `Unpacker::read_raw`) and returns early on `Err`; `Uuid::from_slice` (uuid 0.8.1) errs only for `len != 16`, so the `unwrap` cannot fire for any input bytes.",
    'libtw2_gamenet_ddnet::msg::system::PongEx::decode | unwrap | unwrap<-builder::from_slice | 0':
        "`_p.read_raw(16)?` yields exactly 16 bytes on `Ok` (`split_at(16).0` after the `slice.len() < len` check in `Unpacker::read_raw`) and returns early on `Err`; `Uuid::from_slice` (uuid 0.8.1) errs only for `len != 16`, so the `unwrap` cannot fire for any input bytes.",
    'libtw2_gamenet_ddnet::msg::system::ChecksumRequest::decode | unwrap | unwrap<-builder::from_slice | 0':
        "`_p.read_raw(16)?` yields exactly 16 bytes on `Ok` (`split_at(16).0` after the `slice.len() < len` check in `Unpacker::read_raw`) and returns early on `Err`; `Uuid::from_slice` (uuid 0.8.1) errs only for `len != 16`, so the `unwrap` cannot fire for any input bytes.",
    'libtw2_gamenet_ddnet::msg::system::ChecksumResponse::decode | unwrap | unwrap<-builder::from_slice | 0':
        "`_p.read_raw(16)?` yields exactly 16 bytes on `Ok` (`split_at(16).0` after the `slice.len() < len` check in `Unpacker::read_raw`) and returns early on `Err`; `Uuid::from_slice` (uuid 0.8.1) errs only for `len != 16`, so the `unwrap` cannot fire for any input bytes.",
    'libtw2_gamenet_ddnet::msg::system::ChecksumResponse::decode | unwrap | unwrap<-Sha256::from_slice | 0':
        "`_p.read_raw(32)?` yields exactly 32 bytes on `Ok` (`split_at(32).0` in `Unpacker::read_raw`) and returns early on `Err`; `Sha256::from_slice` (common/src/digest.rs) errs only for `bytes.len() != 32`, so the `unwrap` cannot fire for any input bytes.",
    'libtw2_gamenet_ddnet::msg::system::ChecksumError::decode | unwrap | unwrap<-builder::from_slice | 0':
        "`_p.read_raw(16)?` yields exactly 16 bytes on `Ok` (`split_at(16).0` after the `slice.len() < len` check in `Unpacker::read_raw`) and returns early on `Err`; `Uuid::from_slice` (uuid 0.8.1) errs only for `len != 16`, so the `unwrap` cannot fire for any input bytes.",
    'libtw2_gamenet_teeworlds_0_7::msg::system::MapChange::decode | unwrap | unwrap<-Sha256::from_slice | 0':
        "`_p.read_raw(32)?` yields exactly 32 bytes on `Ok` (`split_at(32).0` in `Unpacker::read_raw`) and returns early on `Err`; `Sha256::from_slice` (common/src/digest.rs) errs only for `bytes.len() != 32`, so the `unwrap` cannot fire for any input bytes.",
}
SUSPECT = {
}
