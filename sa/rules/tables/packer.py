"""Reviewed panic sites of libtw2_packer (read against the source on 2026-09-24)."""
REVIEWED = {
    'libtw2_packer::read_int | overflow | Add | 0':
        "`len` starts at 1 and is incremented at most once per iteration of `for i in 0..4`, so `len <= 5`.",
    'libtw2_packer::write_int | api | arrayvec::ArrayVec::push | 0':
        "First push into the freshly created empty `ArrayVec<[u8; 5]>`.",
    'libtw2_packer::write_int | api | arrayvec::ArrayVec::push | 1':
        "`int = (int ^ -sign) as u32` is non-negative as i32 (`x ^ -1 = !x >= 0` for `x < 0`), i.e. `< 2^31`; after `int >>= 6` it is `< 2^25`, and each loop iteration shifts right by 7, so the `while int != 0` loop runs at most 4 times: at most 1 + 4 = 5 pushes into the capacity-5 `ArrayVec`.",
    'libtw2_packer::read_string | slice-index | RangeTo | 0':
        "`i` is the `enumerate()` index of a byte yielded by `iter`, and `slice = iter.as_slice()` was taken from the same iterator before iterating, so `i < slice.len()`.",
    'libtw2_packer::write_string | panic-call | assert! | 0':
        "Deliberate encode-side precondition check, first statement of the helper behind `Packer::write_string`: the NUL-terminated wire format cannot carry a string containing 0. Not reachable from any reader: it only sees strings the caller chose to send (strings obtained from `Unpacker::read_string` are NUL-free by construction). Note: the precondition is enforced by the `assert!` but not stated in a doc comment.",
    'libtw2_packer::Unpacker::new_from_demo | panic-call | panic_2021! | 0':
        "Explicit API precondition with message 'demo data must be padded to a multiple of four bytes' (`assert!(data.len() % 4 == 0, ..)`); callers must pass 4-byte padded demo chunks (the demo crate call site is reviewed under its own precondition key).",
    'libtw2_packer::Unpacker::read_uuid | unwrap | unwrap<-builder::from_slice | 0':
        "`read_raw(len)` returns `slice.split_at(len).0`, i.e. exactly `len` bytes, on `Ok`; `len = size_of::<Uuid>() = 16` (uuid 0.8.1: `struct Uuid([u8; 16])`), and `Uuid::from_slice` fails only if `b.len() != 16`.",
    'libtw2_packer::Unpacker::num_bytes_read | overflow | Sub | 0':
        "`self.iter` always iterates a suffix of `self.original`: set to `data.iter()` in `new_impl`, then only advanced by `next()`/`count()` or replaced by `rest.iter()` where `rest` comes from `split_at` of `self.iter.as_slice()` (`read_data`, `read_raw`); fields are private. Hence `iter.len() <= original.len()`.",
    'libtw2_packer::string_to_ints | panic-call | assert! | 0':
        "Deliberate encode-side precondition check (string must be NUL-free because the int encoding is NUL-terminated); not reachable from readers/decoders, which go the other way (`bytes_to_string`). Enforced by the `assert!`, not stated in a doc comment.",
    'libtw2_packer::string_to_ints | overflow | Mul | 0':
        "`result` is an existing `&mut [i32]`, so `result.len() * size_of::<i32>()` is its byte size `<= isize::MAX`.",
    'libtw2_packer::string_to_ints | panic-call | assert! | 1':
        "Deliberate encode-side capacity precondition (`string.len() < 4 * result.len()`, commented 'Strict less-than because of the NUL-termination'); the caller chooses both the target array and the string. Not reachable from readers/decoders.",
    'libtw2_packer::string_to_ints3 | precondition | libtw2_packer::string_to_ints | 0':
        "`result` is a local `[i32; 3]` so the multiplication is `3 * 4`; the remaining conditions are `string_to_ints`' encode-side preconditions (NUL-free, `string.len() < 12`, evident from the fixed-size return type), not reachable from readers.",
    'libtw2_packer::string_to_ints4 | precondition | libtw2_packer::string_to_ints | 0':
        "`result` is a local `[i32; 4]` so the multiplication is `4 * 4`; the remaining conditions are `string_to_ints`' encode-side preconditions (NUL-free, `string.len() < 16`), not reachable from readers.",
    'libtw2_packer::string_to_ints6 | precondition | libtw2_packer::string_to_ints | 0':
        "`result` is a local `[i32; 6]` so the multiplication is `6 * 4`; the remaining conditions are `string_to_ints`' encode-side preconditions (NUL-free, `string.len() < 24`), not reachable from readers.",
    'libtw2_packer::string_to_bytes_buffer_ref | panic-call | assert! | 0':
        "Deliberate encode-side precondition check of `string_to_bytes` (string must be NUL-free, a terminating 0 is appended); a too-small buffer is reported as `CapacityError` by `BufferRef::write`, not by a panic. Not reachable from readers. Enforced by the `assert!`, not stated in a doc comment.",
}
SUSPECT = {
}
