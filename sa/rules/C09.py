"""C09 -- applying a snapshot delta reproduces the target (inverse-operation and wire-layout agreement)."""
from ..facts import AnchorLost, path_matches
from ..ir import IR, show, walk, strip_sites
from . import C10

LEVEL = "other"
EXPLANATION = (
    "R1 (inverse item operations): create_item_delta stores to[i].wrapping_sub(from[i]) and apply_item_delta stores "
    "in_[i].wrapping_add(delta[i]) with the operand roles traced to the parameters; the None arms copy verbatim; neither uses a "
    "panicking + or -.  R2 (wire layout agreement of Delta::write_impl and Delta::read_impl): both emit/consume header, deleted "
    "keys, then per item (type id, id, [size], data); the size word is written iff object_size(type) is None and read iff "
    "object_size(type) is None -- the same predicate on both sides; the data words are `size` many on both sides.  R2b: the type-id / id words written per item are the zero-extended upper / lower halves of the key (bit domain) and the size word is the number of data words.  R5 (reuse discipline): Delta::clear and RawSnap::clear reset every field and every function that refills an object clears it first.  R3: the key "
    "packing is a bijection (bit-provenance, shared with C10 R4).  R4: RawSnap::crc folds with wrapping_add; Delta::create_raw "
    "records a deletion exactly for keys of `from` that `to` lacks and an update for every item of `to`.  Not decided: the "
    "equality apply(A, create(A, B)) = B as such, nor agreement with the DDNet reference (value level / cross-language)."
)
EXPLANATION += ('  Round 4: R4 -- no function of Delta removes single entries from updated_items (the update set only grows while a delta is built; an `unchanged item` optimisation that drops all-zero updates also drops new items whose data is zero).')
ASSUMPTIONS = ["BTreeMap/BTreeSet iterate in key order"]

S = "libtw2_snapshot::snap::"
F = "libtw2_snapshot::format::"


def run(ctx, rep):
    prog = ctx.prog
    inverse_ops(prog, rep)
    wire_layout(prog, rep)
    C10.key_bijection(prog, rep)
    crc_and_create(prog, rep)
    item_header_words(prog, rep)
    from .common import reset_complete, cleared_before_fill
    reset_complete(prog, rep, "R5-reuse-discipline", S + "Delta::clear", S + "Delta")
    reset_complete(prog, rep, "R5-reuse-discipline", S + "RawSnap::clear", S + "RawSnap")
    cleared_before_fill(prog, rep, "R5-reuse-discipline", S, (S + "Delta::clear", S + "RawSnap::clear"), 6)


def _indexed_stores(body, ir):
    """[(value expr)] of assignments `out[i] = v`"""
    out = []
    for bi in sorted(body.live):
        for si, st in enumerate(body.blocks[bi]["st"]):
            if st["k"] == "assign" and st["p"].get("pr"):
                pe = ir.place(st["p"], (bi, si))
                if pe[0] == "index":
                    out.append((pe, ir.rvalue(st["r"], (bi, si)), st.get("ln")))
    return out


def _idx_of(e):
    """(array param name, index expr) of `*arr[i]` style loads"""
    for x in walk(e):
        if isinstance(x, tuple) and x and x[0] == "index":
            base = x[1]
            while base[0] in ("deref", "ref", "unwrapped", "field", "variant"):
                base = base[1] if base[0] != "ref" else base[2]
            if base[0] == "arg":
                return base[2], x[2]
    return None, None


def inverse_ops(prog, rep):
    rule = "R1-inverse-item-ops"
    for fn, op, lhs, rhs in ((F + "create_item_delta", "wrapping_sub", "to", "from"),
                             (F + "apply_item_delta", "wrapping_add", "in_", "delta")):
        b = prog.one(fn)
        ir = IR(b)
        st = _indexed_stores(b, ir)
        rep.floor(rule, len(st), 1, "element stores in " + fn)
        for pe, v, ln in st:
            ok = v[0] == "call" and v[1].endswith("::" + op) and len(v[2]) == 2
            roles = None
            if ok:
                a, ia = _idx_of(v[2][0])
                c, ic = _idx_of(v[2][1])
                o, io = _idx_of(pe)
                roles = (a, c, o)
                ok = a == lhs and c == rhs and o == "out" and strip_sites(ia) == strip_sites(ic) == strip_sites(io)
            rep.ob(rule, "%s | out[i] = %s[i].%s(%s[i])" % (fn.rsplit("::", 1)[-1], lhs, op, rhs), ok,
                   "element store is %s with roles %s" % (show(v)[:90], roles), b.loc(ln))
        # None arm copies verbatim; no checked + / - on item words
        cps = [(bi, t) for bi, t in b.calls() if (t.get("callee") or "").endswith("copy_from_slice")]
        okc = False
        for bi, t in cps:
            dst = ir.term_operand(bi, t["args"][0])
            src = ir.term_operand(bi, t["args"][1])
            want = "to" if fn.endswith("create_item_delta") else "delta"
            if "out" in show(dst) and show(src).strip("&*") == want:
                okc = True
        rep.ob(rule, "%s | new items are copied verbatim" % fn.rsplit("::", 1)[-1], okc,
               "the `None` arm is out.copy_from_slice(%s)" % ("to" if fn.endswith("create_item_delta") else "delta"), b.loc())
        arith = []
        for bi in sorted(b.live):
            t = b.blocks[bi]["term"]
            if t["k"] == "assert" and t["msg"].startswith("Overflow:") and t["msg"].split(":")[1] in ("Add", "Sub"):
                ops = [ir.term_operand(bi, o) for o in t["ops"]]
                if any(ir.type_of(o) == "i32" for o in ops):
                    arith.append(show(ops[0]))
        rep.ob(rule, "%s | no panicking arithmetic on item words" % fn.rsplit("::", 1)[-1], not arith,
               "no checked +/- on i32 data" if not arith else "checked arithmetic on item data: %s" % arith, b.loc())


def _size_predicate(body, ir, want_call_suffixes):
    """For the switch on the Option returned by the object_size closure: which arm performs the
    size-word I/O (calls one of want_call_suffixes)?  Returns 'None' / 'Some' / None."""
    for bi in sorted(body.live):
        t = body.blocks[bi]["term"]
        if t["k"] != "switch":
            continue
        e = ir.term_operand(bi, t["o"])
        if e[0] != "discr":
            continue
        base = e[1]
        if not (base[0] == "call" and ("call_mut" in base[1] or "FnMut" in base[1]) and
                any("object_size" in show(a) for a in base[2])):
            continue
        arms = {}
        for v, tb in t["targets"]:
            arms[v] = tb
        other = t["otherwise"]
        res = {}
        for name, val in (("None", 0), ("Some", 1)):
            start = arms.get(val, other)
            # blocks reachable from this arm before re-joining: approximate by blocks dominated by the arm's entry
            io = False
            for b2, t2 in body.calls():
                if body.dominates(start, b2):
                    f = t2.get("callee") or ""
                    if any(f.endswith(s) or s in f for s in want_call_suffixes):
                        io = True
            res[name] = io
        return res
    return None


def wire_layout(prog, rep):
    rule = "R2-wire-layout"
    w = prog.one(S + "Delta::write_impl")
    wir = IR(w)
    r = prog.one(S + "Delta::read_impl")
    rir = IR(r)
    pw = _size_predicate(w, wir, ("call_mut", "FnMut>::call_mut"))
    pr = _size_predicate(r, rir, ("read_int_err",))
    okw = pw is not None and pw.get("None") and not pw.get("Some")
    okr = pr is not None and pr.get("None") and not pr.get("Some")
    rep.ob(rule, "writer | size word iff object_size is None", bool(okw),
           "write_impl writes the item size only in the None arm of object_size(type): %s" % pw, w.loc())
    rep.ob(rule, "reader | size word iff object_size is None", bool(okr),
           "read_impl reads the item size only in the None arm of object_size(type): %s" % pr, r.loc())
    # both pass the same argument (the item's raw type id) to object_size
    def arg_of(body, ir):
        for bi, t in body.calls():
            f = t.get("callee") or ""
            if ("call_mut" in f) and any("object_size" in show(ir.term_operand(bi, a)) for a in t["args"][:1]):
                return show(ir.term_operand(bi, t["args"][1]))
        return None
    aw, ar = arg_of(w, wir), arg_of(r, rir)
    rep.ob(rule, "object_size asked about the item's type id", bool(aw) and bool(ar) and "raw_type_id" in (aw + ar) or ("key_to_raw_type_id" in (aw or "") and "try_u16" in (ar or "")),
           "writer asks object_size(%s), reader asks object_size(%s)" % (aw, ar), w.loc())
    # reader: data loop runs `size` times pushing read ints; writer: iterates the item's data slice
    pushes = [bi for bi, t in r.calls() if (t.get("callee") or "").endswith("Vec::push")]
    okp = False
    for pb in pushes:
        for c in r.sccs():
            if pb in c:
                okp = any((t.get("callee") or "").endswith("read_int_err") for bi, t in r.calls() if bi in c)
    rep.ob(rule, "reader | one data word per read", okp, "every buf.push in read_impl is paired with a read_int in the same loop", r.loc())
    # header: 3 ints on both sides (encode_obj / decode)
    enc = prog.one(F + "DeltaHeader::encode_obj")
    n = None
    for l in enc.locals[:1]:
        import re
        m = re.search(r"\[i32; (\d+)\]", l["ty"])
        if m:
            n = int(m.group(1))
    dec = prog.one(F + "DeltaHeader::decode_impl")
    nreads = len([1 for bi, t in dec.calls() if (t.get("callee") or "").endswith("read_int")])
    rep.ob(rule, "header length", n is not None and n == nreads, "encode_obj emits %s ints, decode_obj reads %s" % (n, nreads), enc.loc())


def crc_and_create(prog, rep):
    rule = "R4-crc-and-create"
    c = prog.one(S + "RawSnap::crc")
    cl = [prog.bodies[k] for k in prog.bodies if k.startswith(S + "RawSnap::crc::{closure")]
    ok = any(any((t.get("callee") or "").endswith("wrapping_add") for _, t in b.calls()) for b in cl) and \
        not any(any(bb["term"]["k"] == "assert" and bb["term"]["msg"].startswith("Overflow") for bb in b.blocks) for b in cl)
    rep.ob(rule, "crc folds with wrapping_add", ok, "RawSnap::crc = fold(0, |s, a| s.wrapping_add(a))", c.loc())
    cr = prog.one(S + "Delta::create_raw")
    ir = IR(cr)
    # deletion insert dominated by `to.item(type, id).is_none()`
    ins = [(bi, t) for bi, t in cr.calls() if (t.get("callee") or "").endswith("BTreeSet::insert")]
    rep.floor(rule, len(ins), 1, "deleted_items.insert in create_raw")
    for bi, t in ins:
        ok = False
        for e, rel, v, edge, dty in ir.edge_conditions(bi):
            txt = show(e)
            if "is_none" in txt and "RawSnap::item(&*to" in txt and ((rel == "==" and v == 1) or (rel == "notin" and 0 in v)):
                ok = True
        rep.ob(rule, "deletion recorded iff `to` lacks the key", ok, "deleted_items.insert is dominated by to.item(..).is_none()", cr.loc(t.get("ln")))
    ups = [(bi, t) for bi, t in cr.calls() if (t.get("callee") or "").endswith("Delta::prepare_update_item")]
    okc = False
    for bi, t in ups:
        for c_ in cr.sccs():
            if bi in c_:
                for b2, t2 in cr.calls():
                    if b2 in c_ and (t2.get("callee") or "").endswith("RawItems as std::iter::Iterator>::next"):
                        okc = True
    updates_append_only(prog, rep, rule)
    rep.ob(rule, "every item of `to` gets an update", okc and bool(ups),
           "prepare_update_item + create_item_delta run once per item yielded by to.items()", cr.loc())


def updates_append_only(prog, rep, rule="R4-crc-and-create"):
    """a delta under construction only grows: nothing in Delta removes single entries from updated_items (only clear() empties it),
    so an update recorded for an item of `to` is still there when the delta is written (an `unchanged item` optimisation that
    drops all-zero updates also drops new items whose data is zero)"""
    n = 0
    bad = []
    for k, b in prog.bodies.items():
        if b.is_test or not (k.startswith(S + "Delta::") or k.startswith("<" + S + "Delta")):
            continue
        ir = None
        for bi, t in b.calls():
            f = (t.get("callee") or "")
            if not (f.startswith("std::collections::") and f.rsplit("::", 1)[-1] in ("remove", "remove_entry", "retain", "pop_first", "pop_last", "split_off", "extract_if")):
                continue
            ir = ir or IR(b)
            if t["args"] and "updated_items" in show(ir.term_operand(bi, t["args"][0])):
                bad.append((k, b.loc(t.get("ln"))))
        n += 1
    rep.floor(rule, n, 5, "bodies of Delta scanned for removals from updated_items")
    rep.ob(rule, "updated_items only grows while a delta is built", not bad,
           "no function of Delta removes single entries from updated_items" if not bad else
           "%s removes entries from updated_items: an update recorded for an item of `to` can be dropped again" % bad[0][0],
           bad[0][1] if bad else None)


def item_header_words(prog, rep):
    """R2b: the three words in front of an item's data in Delta::write_impl are, as functions of the item key (bit domain):
    the key's upper 16 bits zero-extended (type id), its lower 16 bits zero-extended (id), and -- when present -- the
    number of data *words*, i.e. the length of the slice whose elements follow"""
    from ..bits import BitEval, Unsupported, src_bits, bit_str
    rule = "R2b-item-header-words"
    w = prog.one(S + "Delta::write_impl")
    ir = IR(w)
    be = BitEval(prog)
    calls = []
    for bi, t in w.calls():
        f = t.get("callee") or ""
        if "call_mut" in f and "write_int" in show(ir.term_operand(bi, t["args"][0])):
            e = ir.call_expr(bi, t)
            arg = e[2][1]
            if arg[0] == "agg" and arg[4]:
                arg = arg[4][0][1]
            calls.append((bi, arg, t.get("ln")))

    def is_key(e):
        s_ = show(strip_sites(e))
        return s_.endswith(".0") and "Iterator>::next" in s_

    def leaf(e):
        if e[0] == "call" and e[1].endswith("::i32") and "Cast" in e[1] and e[2]:
            v = be.eval(e[2][0], {"leaf": leaf}, ir)
            return v + [0] * (32 - len(v)) if isinstance(v, list) and len(v) <= 32 else None
        if e[0] in ("deref", "field", "unwrapped") and is_key(e):
            return src_bits("key", 32)
        return None
    words = []
    for bi, arg, ln in calls:
        if not any(isinstance(x, tuple) and x and is_key(x) for x in walk(arg)):
            continue
        if any(isinstance(x, tuple) and x and x[0] == "call" and "object_size" in show(x) for x in walk(arg)):
            continue
        try:
            v = be.eval(arg, {"leaf": leaf}, ir)
        except Unsupported as ex:
            v = "unsupported: %s" % ex
        words.append((bi, v, ln, show(strip_sites(arg))[:80]))
    words.sort(key=lambda x: len(w.dom_chain(x[0])))
    want = [("type id", [("s", "key", 16 + i) for i in range(16)] + [0] * 16),
            ("id", [("s", "key", i) for i in range(16)] + [0] * 16)]
    rep.floor(rule, len(words), 2, "key-derived words written by Delta::write_impl")
    for (name, bits), (bi, v, ln, txt) in zip(want, words):
        ok = v == bits
        rep.ob(rule, "%s word" % name, ok,
               "%s = %s of the key, zero-extended" % (name, "bits 16..31" if name == "type id" else "bits 0..15") if ok else
               "the %s word is written as `%s`, which is not the zero-extended %s half of the key (ids >= 0x8000 change sign on the wire)"
               % (name, txt, "upper" if name == "type id" else "lower"), w.loc(ln))
    # the size word: the write in the None arm of object_size
    size_calls = []
    for bi, arg, ln in calls:
        x = arg
        while x[0] == "call" and ("Cast" in x[1] or x[1].endswith("::assert_i32") or x[1].endswith("::i32")) and x[2]:
            x = x[2][0]
        if x[0] == "cast":
            x = x[3]
        for c, rel, v_, edge, dty in ir.edge_conditions(bi):
            if c[0] == "discr" and "object_size" in show(c) and rel == "==" and v_ == 0:
                size_calls.append((bi, x, ln))
    rep.floor(rule, len(size_calls), 1, "size word written in the None arm of object_size")
    for bi, x, ln in size_calls:
        ok = x[0] == "len"
        rep.ob(rule, "size word counts data words", ok,
               "size = len(data) (number of i32 words that follow)" if ok else
               "the size word is `%s`, not the number of data words: the reader consumes a different number of ints" % show(strip_sites(x))[:80], w.loc(ln))
