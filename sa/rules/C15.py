"""C15 -- a recorded demo plays back what was recorded (header tables, tick guard, reader totality)."""
from .common import standard_totality
from ..facts import AnchorLost, path_matches
from ..ir import IR, show, walk, strip_sites
from ..effects import strip_not, effects, bool_edge
from .C05 import _first_variant

LEVEL = "other"
EXPLANATION = (
    "R3/R-no-panic (reader and writer totality): every panic site reachable from the public API of libtw2_demo follows from its "
    "dominating guards or is a reviewed line (writer-side size limits above the format maximum are outside the quantifier and "
    "listed as such).  R1 (chunk header table agreement between ChunkHeader::write and ::read): the DataKind -> CHUNKTYPE_* map "
    "of the writer and the CHUNKTYPE_* -> DataKind map of the reader are inverse; the writer's size-encoding thresholds (inline "
    "below CHUNKSIZE_ONEBYTEFOLLOWS, one byte up to 255, else two) never produce an encoding the reader's over-long warnings "
    "fire on, and inline sizes cannot collide with the escape codes.  R2 (guard/assert strictness): DemoWriter::write_snap refuses "
    "every tick that TickMarker::new's assert!(tick > prev) would reject: the refusal is `tick <= last_tick`, last_tick is assigned "
    "the written tick on the success path, and Writer::write_tick assigns prev_tick the same tick.  R3 (reader tick guard): "
    "current_tick = Some(t) for an absolute marker is dominated by the `previous >= t` false edge; inline deltas use checked_add.  "
    "R1d: every header kind is built under the exact flag / version conditions (TICKMARKER, INLINETICK, KEYFRAME, legacy masks) and the writer asserts exactly version >= V5, dt <= max_tick_delta, !keyframe.  R1c: the writer's largest inline tick delta per format version equals the mask the reader applies for that version.  R2b: a refused write_snap leaves the writer untouched (every write to *self lies behind the pass edge of the tick test).  Not decided: the round trip of chunk sequences / typed object sets (value level)."
)
EXPLANATION += ('  Round 4: R3 accepts either orientation of the tick comparison and requires that no RawChunk::Tick is built on a path without a store to current_tick.')
ASSUMPTIONS = [
    "reviewed table lines confirmed by reading the code",
    "binrw-generated readers do not panic on short input (they return Err)",
]
TABLES = ["demo", "snapshot", "packer", "buffer", "common", "huffman", "gamenet", "looptable", "postfix"]
D = "libtw2_demo::"


def run(ctx, rep):
    standard_totality(ctx, rep, "C15", TABLES, rule="R-no-panic", extra_reviewed={
        'libtw2_snapshot::snap::Builder::add_item | panic-call | panic_2021! | 1':
            "assert!(next_type_id < 0x8000): in the demo writer the builder is only ever recycled from snapshots it built itself, "
            "whose registry ids are dense from 0x4000 and at most 1024 per snapshot, so next_type_id stays below 0x4000 + 1024 + 256 "
            "(the site is a known finding of C11, where received snapshots can carry arbitrary registry ids)",
        'libtw2_snapshot::snap::Delta::create_raw::{closure#0} | panic-call | panic_2021! | 0':
            "item sizes of one key never differ in the demo writer: the key contains the object type and every typed object "
            "encodes to the fixed size of its type (C14 R2 obj_size agreement); known finding of C11/C13 for received snapshots",
        'libtw2_snapshot::snap::Delta::write_impl | panic-call | assert! | 0':
            "DemoWriter passes P::obj_size, which C14 R2 shows equal to the encoded length of every generated object type",
    })
    header_tables(ctx.prog, rep)
    strictness(ctx.prog, rep)
    reader_ticks(ctx.prog, rep)
    refused_is_inert(ctx.prog, rep)
    tick_delta_width(ctx.prog, rep)
    marker_conditions(ctx.prog, rep)
    from .common import check_refusal_inventory
    check_refusal_inventory(ctx.prog, rep, "R5-refusal-inventory", ("libtw2_demo::",))


def header_tables(prog, rep):
    rule = "R1-chunk-header-agreement"
    w = prog.one(D + "format::ChunkHeader::write")
    wir = IR(w)
    r = prog.one(D + "format::ChunkHeader::read")
    rir = IR(r)
    adt = prog.adt(D + "format::DataKind")
    names = [v["name"] for v in adt["variants"]]
    consts = {k.rsplit("::", 1)[-1]: c["v"] for k, c in prog.consts.items() if k.startswith(D + "format::CHUNK") and "v" in c}
    # writer: switch on discr(kind) -> constant assigned
    wmap = {}
    for bi in sorted(w.live):
        t = w.blocks[bi]["term"]
        if t["k"] != "switch":
            continue
        e = wir.term_operand(bi, t["o"])
        if e[0] == "discr" and (wir.type_of(e[1]) or "").endswith("DataKind"):
            for v, tb in t["targets"]:
                c = _first_named_const(w, wir, tb, "CHUNKTYPE_")
                if c is not None and v < len(names):
                    wmap[names[v]] = c
            rest = [i for i in range(len(names)) if names[i] not in wmap]
            if len(rest) == 1:
                c = _first_named_const(w, wir, t["otherwise"], "CHUNKTYPE_")
                if c is not None:
                    wmap[names[rest[0]]] = c
    rmap = {}
    for bi in sorted(r.live):
        t = r.blocks[bi]["term"]
        if t["k"] != "switch" or t.get("dty") != "u8" or len(t["targets"]) < 3:
            continue
        e = rir.term_operand(bi, t["o"])
        if "CHUNKMASK_TYPE" not in show(e):
            continue
        for v, tb in t["targets"]:
            var = _first_variant(r, tb, D + "format::DataKind")
            if var is not None:
                rmap[var] = v
    rep.floor(rule, len(wmap), 4, "DataKind variants with a type code in write")
    for n in names:
        ok = n in wmap and rmap.get(n) == wmap[n]
        rep.ob(rule, "type code | " + n, ok, "writer emits %s, reader maps %s back" % (wmap.get(n), rmap.get(n)), w.loc())
    # size thresholds
    def cmps(body, ir):
        out = []
        for bi in sorted(body.live):
            t = body.blocks[bi]["term"]
            if t["k"] != "switch":
                continue
            e, neg = strip_not(ir.term_operand(bi, t["o"]))
            if e[0] == "bin" and e[1] in ("Lt", "Le") and ("size" in show(e[2]) or ir.type_of(e[2]) == "u16"):
                cv = e[3]
                while cv[0] in ("cast",):
                    cv = cv[3]
                if cv[0] == "call" and cv[2]:
                    cv = cv[2][0]
                if cv[0] == "c":
                    out.append((e[1], cv[1]))
        return out
    wc = cmps(w, wir)
    rc = cmps(r, rir)
    # writer: inline iff size < Li ; one byte iff size <= L1
    li = [v for op, v in wc if op == "Lt"]
    l1 = [v for op, v in wc if op == "Le"]
    ok = len(li) == 1 and len(l1) == 1
    rep.ob(rule, "writer thresholds found", ok, "write: inline below %s, one byte up to %s" % (li, l1), w.loc())
    if ok:
        Li, L1 = li[0], l1[0]
        esc1, esc2 = consts.get("CHUNKSIZE_ONEBYTEFOLLOWS"), consts.get("CHUNKSIZE_TWOBYTESFOLLOW")
        rep.ob(rule, "inline sizes cannot collide with the escape codes", Li <= min(esc1, esc2),
               "inline sizes are < %d, escape codes are %d and %d" % (Li, esc1, esc2), w.loc())
        rw = sorted(v for op, v in rc if op == "Lt")
        okw = len(rw) == 2 and rw[0] <= Li and rw[1] <= L1 + 1 and L1 <= 255
        rep.ob(rule, "reader's over-long warnings never fire on writer output", okw,
               "reader warns below %s; writer uses one byte for [%d, %d] and two bytes above" % (rw, Li, L1), r.loc())
    # tick flags: writer's inline delta is masked by CHUNKTICKMASK_TICK_V5 and bounded by max_tick_delta
    mask = consts.get("CHUNKTICKMASK_TICK_V5")
    flags = [consts.get(n) for n in ("CHUNKTYPEFLAG_TICKMARKER", "CHUNKTICKFLAG_KEYFRAME", "CHUNKTICKFLAG_INLINETICK")]
    disjoint = mask is not None and all(f is not None and (f & mask) == 0 for f in flags) and len(set(flags)) == 3
    rep.ob(rule, "tick flag bits are disjoint from the inline tick mask", disjoint,
           "flags %s, mask %s" % (flags, mask), None)
    mt = prog.one(D + "format::Version::max_tick_delta")
    mir = IR(mt)
    vals = set()
    for bi in sorted(mt.live):
        for si, st in enumerate(mt.blocks[bi]["st"]):
            if st["k"] == "assign" and st["p"]["l"] == 0:
                e = mir.rvalue(st["r"], (bi, si))
                if e[0] == "c":
                    vals.add(e[1])
    masks = {consts.get("CHUNKTICKMASK_TICK_V5"), consts.get("CHUNKTICKMASK_TICK_V3")}
    rep.ob(rule, "max_tick_delta equals the inline tick mask of its version", bool(vals) and vals <= masks and mask in vals,
           "max_tick_delta values %s, masks %s" % (sorted(vals), sorted(m for m in masks if m is not None)), mt.loc())


def _first_named_const(body, ir, bb, prefix):
    seen = set()
    work = [bb]
    steps = 0
    while work and steps < 20:
        b = work.pop(0)
        steps += 1
        if b in seen:
            continue
        seen.add(b)
        for si, st in enumerate(body.blocks[b]["st"]):
            if st["k"] == "assign":
                e = ir.rvalue(st["r"], (b, si))
                for x in walk(e):
                    if isinstance(x, tuple) and x and x[0] == "c" and x[3] and x[3].rsplit("::", 1)[-1].startswith(prefix):
                        return x[1]
        t = body.blocks[b]["term"]
        if t["k"] == "goto":
            work.append(t["t"])
    return None


def strictness(prog, rep):
    rule = "R2-guard-assert-strictness"
    ws = prog.one(D + "ddnet::writer::DemoWriter::write_snap")
    ir = IR(ws)
    # refusal: the block returning Err(TooLowTickNumber) is dominated by a comparison tick <op> last_tick
    refusal = None
    for bi in sorted(ws.live):
        for si, st in enumerate(ws.blocks[bi]["st"]):
            if st["k"] == "assign" and st["r"]["k"] == "agg" and st["r"].get("variant") == "TooLowTickNumber":
                for e, rel, v, edge, dty in ir.edge_conditions(bi):
                    e2, neg = strip_not(e)
                    if e2[0] == "bin" and e2[1] in ("Lt", "Le", "Gt", "Ge") and "last_tick" in show(e2):
                        truth = ((rel == "==" and v == 1) or (rel == "notin" and 0 in v)) != neg
                        refusal = (e2[1], truth, show(e2[2]), show(e2[3]))
    if refusal is None:
        raise AnchorLost("write_snap: refusal comparison against last_tick not found")
    op, truth, a, b_ = refusal
    # normalise to `tick REL last_tick` holding on the refusal path
    rel = op if truth else {"Lt": "Ge", "Le": "Gt", "Gt": "Le", "Ge": "Lt"}[op]
    if "last_tick" in a:
        rel = {"Lt": "Gt", "Le": "Ge", "Gt": "Lt", "Ge": "Le"}[rel]
    # the assert in TickMarker::new
    tm = prog.one(D + "format::TickMarker::new")
    tir = IR(tm)
    a_rel = None
    for bi, t in tm.calls():
        if t.get("t") is None and "assert" in (t.get("exp") or ""):
            for e, r_, v, edge, dty in tir.edge_conditions(bi):
                e2, neg = strip_not(e)
                if e2[0] == "bin" and e2[1] in ("Lt", "Le", "Gt", "Ge") and "tick" in show(e2[2]):
                    holds = ((r_ == "==" and v == 1) or (r_ == "notin" and 0 in v)) != neg
                    # on the panic path the asserted condition is false
                    a_rel = e2[1] if not holds else {"Lt": "Ge", "Le": "Gt", "Gt": "Le", "Ge": "Lt"}[e2[1]]
    # asserted: tick a_rel prev must hold; refusal must cover its negation
    neg_assert = {"Gt": "Le", "Ge": "Lt", "Lt": "Ge", "Le": "Gt"}.get(a_rel)
    ok = neg_assert is not None and rel == neg_assert
    rep.ob(rule, "refusal covers every tick the assert rejects", ok,
           "write_snap refuses `tick %s last_tick`; TickMarker::new asserts `tick %s prev`" % (rel, a_rel) if ok else
           "write_snap refuses only `tick %s last_tick` but TickMarker::new asserts `tick %s prev`: tick == last_tick reaches the assert" % (rel, a_rel),
           ws.loc())
    # identification last_tick == prev_tick: both assigned the written tick
    st1 = []
    for bi in sorted(ws.live):
        for si, st in enumerate(ws.blocks[bi]["st"]):
            if st["k"] == "assign" and st["p"].get("pr"):
                pe = ir.place(st["p"], (bi, si))
                if ir.access_path(pe)[1] == ("last_tick",):
                    st1.append(ir.rvalue(st["r"], (bi, si)))
    ok1 = bool(st1) and all(v[0] == "arg" and v[2] == "tick" for v in st1)
    wt = prog.one(D + "writer::Writer::write_tick")
    wir = IR(wt)
    st2 = []
    for bi in sorted(wt.live):
        for si, st in enumerate(wt.blocks[bi]["st"]):
            if st["k"] == "assign" and st["p"].get("pr"):
                pe = wir.place(st["p"], (bi, si))
                if wir.access_path(pe)[1] == ("prev_tick",):
                    st2.append(wir.rvalue(st["r"], (bi, si)))
    ok2 = bool(st2) and all(v[0] == "agg" and v[3] == "Some" and dict(v[4])[0][0] == "arg" and dict(v[4])[0][2] == "tick" for v in st2)
    rep.ob(rule, "last_tick and prev_tick are the last written tick", ok1 and ok2,
           "write_snap stores last_tick = tick, write_tick stores prev_tick = Some(tick)", ws.loc())


def reader_ticks(prog, rep):
    rule = "R3-reader-tick-guard"
    b = prog.one(D + "reader::Reader::read_chunk")
    ir = IR(b)
    n = 0
    for bi in sorted(b.live):
        for si, st in enumerate(b.blocks[bi]["st"]):
            if st["k"] == "assign" and st["p"].get("pr"):
                pe = ir.place(st["p"], (bi, si))
                if ir.access_path(pe)[1] == ("current_tick",):
                    v = ir.rvalue(st["r"], (bi, si))
                    if not (v[0] == "agg" and v[3] == "Some"):
                        continue
                    n += 1
                    val = dict(v[4])[0]
                    txt = show(val)
                    if "checked_add" in txt:
                        rep.ob(rule, "inline delta uses checked_add", True, "current_tick = Some(%s)" % txt[:80], b.loc(st.get("ln")))
                    else:
                        # absolute: every path where a previous tick exists passes the `previous >= t` false edge
                        ok = False
                        for e, rel, vv, edge, dty in ir.edge_conditions(bi):
                            pass
                        # the store block is a join of (no previous) and (previous < t): check that the `previous >= t`
                        # true edge cannot reach it
                        for cb in sorted(b.live):
                            t = b.blocks[cb]["term"]
                            if t["k"] == "switch":
                                e, neg = strip_not(ir.term_operand(cb, t["o"]))
                                if e[0] == "bin" and e[1] in ("Ge", "Lt", "Gt", "Le") and "current_tick" in show(e):
                                    from ..effects import bool_edge
                                    # bad edge: previous >= t, in whichever orientation it is written (t <= previous)
                                    op = e[1]
                                    if "current_tick" not in show(e[2]):
                                        op = {"Ge": "Le", "Le": "Ge", "Lt": "Gt", "Gt": "Lt"}[op]
                                    if op == "Ge":
                                        bad = bool_edge(b, cb, not neg)
                                    elif op == "Lt":
                                        bad = bool_edge(b, cb, neg)
                                    else:
                                        continue
                                    ok = bi not in b.reachable_from(bad)
                        rep.ob(rule, "absolute tick accepted only if greater than the previous", ok,
                               "the `previous >= t` edge cannot reach current_tick = Some(t)", b.loc(st.get("ln")))
    rep.floor(rule, n, 2, "stores to current_tick")
    # every tick chunk handed to the caller has become the reader's current tick: no path reaches the construction of
    # RawChunk::Tick without a store to current_tick (a later absolute marker that is returned but not remembered makes the
    # following inline deltas count from a stale base)
    stores = set()
    for bi in sorted(b.live):
        for si, st in enumerate(b.blocks[bi]["st"]):
            if st["k"] == "assign" and st["p"].get("pr"):
                pe = ir.place(st["p"], (bi, si))
                if ir.access_path(pe)[1] == ("current_tick",):
                    stores.add(bi)
    ticks = [bi for bi in sorted(b.live) for st in b.blocks[bi]["st"]
             if st["k"] == "assign" and st["r"]["k"] == "agg" and (st["r"].get("adt") or "").endswith("RawChunk") and st["r"].get("variant") == "Tick"]
    rep.floor(rule, len(ticks), 2, "constructions of RawChunk::Tick in read_chunk")
    reach = b.reachable_from(0, removed_blocks=frozenset(stores))
    bad = [t_ for t_ in ticks if t_ in reach and t_ not in stores]
    rep.ob(rule, "a returned tick is the remembered tick", not bad,
           "every RawChunk::Tick is built after current_tick was updated" if not bad else
           "read_chunk can return a tick without storing it in current_tick: later inline deltas are relative to a stale tick", b.loc())


def refused_is_inert(prog, rep):
    """R2b: a snapshot that DemoWriter::write_snap refuses (tick not increasing) leaves the writer as it was: every write to
    *self is unreachable once the pass edge of the tick comparison is cut (otherwise the refused snapshot's items stay in the
    builder and show up in the next accepted tick)"""
    rule = "R2b-refused-snapshot-is-inert"
    ws = prog.one(D + "ddnet::writer::DemoWriter::write_snap")
    ir = IR(ws)
    gates = []
    for bi in sorted(ws.live):
        t = ws.blocks[bi]["term"]
        if t["k"] != "switch":
            continue
        e, neg = strip_not(ir.term_operand(bi, t["o"]))
        if e[0] == "bin" and e[1] in ("Lt", "Le", "Gt", "Ge") and "last_tick" in show(e):
            # the edge on which the refusal is NOT taken: the successor from which Err(TooLowTickNumber) is unreachable
            for s_ in ws.succ[bi]:
                refuses = False
                for b2 in ws.reachable_from(s_):
                    for st in ws.blocks[b2]["st"]:
                        if st["k"] == "assign" and st["r"]["k"] == "agg" and st["r"].get("variant") == "TooLowTickNumber":
                            refuses = True
                if not refuses:
                    gates.append((bi, s_))
    rep.floor(rule, len(gates), 1, "tick comparison in write_snap")
    reach = ws.reachable_from(0, removed_edges=frozenset(gates))
    effs = [e for e in effects(ws, ir, write_roots=[("a", 0)]) if e.kind in ("write", "mutcall")]
    rep.floor(rule, len(effs), 3, "writes to the DemoWriter in write_snap")
    cnt = {}
    for ef in effs:
        k = (ef.kind, ef.desc.split("(")[0][:60])
        o = cnt.get(k, 0)
        cnt[k] = o + 1
        ok = ef.bb not in reach
        rep.ob(rule, "%s | %s | %d" % (k[0], k[1], o), ok,
               "`%s` happens only once the tick was accepted" % ef.desc[:80] if ok else
               "`%s` is reachable for a tick that write_snap refuses: the refusal does not leave the writer unchanged" % ef.desc[:80], ws.loc(ef.ln))


def tick_delta_width(prog, rep):
    """R1c: the largest tick delta the writer puts inline for a format version (Version::max_tick_delta) is the mask the
    reader applies to the marker byte for that version: 5 bits from V5 on (bit 5 is the INLINETICK flag), 6 bits before"""
    from .C14 import switch_table
    rule = "R1c-tick-delta-width"
    mt = prog.one(D + "format::Version::max_tick_delta")
    tab = switch_table(mt)
    ver = prog.adt(D + "format::Version")
    names = [v["name"] for v in ver["variants"]]
    # arms merged by rustc: the variants not listed take the `otherwise` target
    from .C14 import arm_constant
    sw = [bi for bi in sorted(mt.live) if mt.blocks[bi]["term"]["k"] == "switch"]
    if len(sw) == 1:
        other = arm_constant(mt, IR(mt), mt.blocks[sw[0]]["term"]["otherwise"])
        if isinstance(other, int):
            for v_ in ver["variants"]:
                tab.setdefault(int(v_["discr"]), other)
    rd = prog.one(D + "format::ChunkHeader::read")
    ir = IR(rd)
    inline_flag = prog.constv(D + "format::CHUNKTICKFLAG_INLINETICK")
    new_mask = legacy_mask = None
    for bi in sorted(rd.live):
        for si, st in enumerate(rd.blocks[bi]["st"]):
            if st["k"] == "assign" and st["r"]["k"] == "agg" and (st["r"].get("adt") or "").endswith("TickMarker") and st["r"].get("variant") == "Delta":
                e = ir.rvalue(st["r"], (bi, si))
                v = e[4][0][1]
                mask = None
                for x in walk(v):
                    if isinstance(x, tuple) and x and x[0] == "bin" and x[1] == "BitAnd" and x[3][0] == "c":
                        mask = x[3][1]
                under_inline = False
                for c, rel, val, edge, dty in ir.edge_conditions(bi):
                    for x in walk(c):
                        if isinstance(x, tuple) and x and x[0] == "bin" and x[1] == "BitAnd" and x[3][0] == "c" and x[3][1] == inline_flag:
                            under_inline = True
                if under_inline:
                    new_mask = mask
                else:
                    legacy_mask = mask
    if new_mask is None or legacy_mask is None or not tab:
        raise AnchorLost("demo tick markers: reader masks (%s, %s) or the max_tick_delta table (%s) not found" % (new_mask, legacy_mask, tab))
    v5 = names.index("V5")
    discr = [int(v["discr"]) for v in ver["variants"]]
    bad = []
    for vi, nm in enumerate(names):
        want = new_mask if vi >= v5 else legacy_mask
        got = tab.get(discr[vi], tab.get(vi) if discr[vi] == vi else None)
        if got != want:
            bad.append("%s: writer allows deltas up to %s, reader keeps %s" % (nm, got, want))
    rep.ob(rule, "writer bound equals reader mask per version", not bad,
           "max_tick_delta = %s: %#x from V5 on (below the INLINETICK flag %#x), %#x before" % (tab, new_mask, inline_flag, legacy_mask)
           if not bad else "; ".join(bad) + ": a larger inline delta spills into the flag bits and plays back shortened", mt.loc())
    rep.ob(rule, "inline delta does not overlap the flag bits", new_mask & inline_flag == 0, "mask %#x & INLINETICK %#x == 0" % (new_mask, inline_flag), rd.loc())


def marker_conditions(prog, rep):
    """R1d: the exact conditions under which ChunkHeader::read builds each kind of header (an operator sweep: the demo crate has
    no tests, so `!=` -> `==` on any of these flag tests went unnoticed), and what ChunkHeader::write asserts"""
    from .common import holds_at, asserted_relations, want_relations
    rule = "R1d-marker-conditions"
    rd = prog.one(D + "format::ChunkHeader::read")
    ir = IR(rd)
    c = lambda n: prog.constv(D + "format::" + n)
    M5, M3 = c("CHUNKTICKMASK_TICK_V5"), c("CHUNKTICKMASK_TICK_V3")
    n = 0
    for bi in sorted(rd.live):
        for si, st in enumerate(rd.blocks[bi]["st"]):
            if st["k"] != "assign" or st["r"]["k"] != "agg":
                continue
            var = st["r"].get("variant")
            adt = (st["r"].get("adt") or "").split("::")[-1]
            rels = holds_at(ir, bi)
            at = rd.loc(st.get("ln"))
            legacy = any(r[0] != "bool" and r[1] == "Lt" and "version" in show(strip_sites(r[0])) for r in rels)
            if adt == "TickMarker" and var == "Delta":
                n += 1
                if legacy:
                    want_relations(rep, rule, "read | legacy inline delta", rels, [("CHUNKTICKMASK_TICK_V3", "Ne", 0), ("version", "Lt", "bytes:05"), ("CHUNKTYPEFLAG_TICKMARKER", "Ne", 0)], at, "TickMarker::Delta (V3/V4)")
                else:
                    want_relations(rep, rule, "read | inline delta", rels, [("CHUNKTICKFLAG_INLINETICK", "Ne", 0), ("version", "Ge", "bytes:05"), ("CHUNKTYPEFLAG_TICKMARKER", "Ne", 0)], at, "TickMarker::Delta (V5+)")
            elif adt == "TickMarker" and var == "Absolute":
                n += 1
                if legacy:
                    want_relations(rep, rule, "read | legacy absolute tick", rels, [("CHUNKTICKMASK_TICK_V3", "Eq", 0), ("version", "Lt", "bytes:05")], at, "TickMarker::Absolute (V3/V4)")
                else:
                    want_relations(rep, rule, "read | absolute tick", rels, [("CHUNKTICKFLAG_INLINETICK", "Eq", 0), ("version", "Ge", "bytes:05")], at, "TickMarker::Absolute (V5+)")
            elif adt == "ChunkHeader" and var == "Tick":
                n += 1
                want_relations(rep, rule, "read | tick marker chunk", rels, [("CHUNKTYPEFLAG_TICKMARKER", "Ne", 0)], at, "ChunkHeader::Tick")
                e = ir.rvalue(st["r"], (bi, si))
                kf = dict(e[4]).get("keyframe")
                okk = kf is not None and kf[0] == "bin" and kf[1] == "Ne" and "CHUNKTICKFLAG_KEYFRAME" in show(strip_sites(kf[2])) and kf[3][0] == "c" and kf[3][1] == 0
                rep.ob(rule, "read | keyframe flag", okk, "keyframe = flags & CHUNKTICKFLAG_KEYFRAME != 0" if okk else "keyframe = %s" % show(strip_sites(kf))[:80], at)
            elif adt == "ChunkHeader" and var == "Data":
                n += 1
                want_relations(rep, rule, "read | data chunk", rels, [("CHUNKTYPEFLAG_TICKMARKER", "Eq", 0)], at, "ChunkHeader::Data")
    rep.floor(rule, n, 6, "header constructions in ChunkHeader::read")
    for bi, t in rd.calls():
        if (t.get("callee") or "").endswith("::warn") and "NonZeroTickmarkerPadding" in show(strip_sites(ir.call_expr(bi, t))):
            want_relations(rep, rule, "read | padding warning", holds_at(ir, bi), [("CHUNKTICKMASK_TICK_V5", "Ne", 0)], rd.loc(t.get("ln")), "warn(NonZeroTickmarkerPadding)")
    # Reader::read_chunk: a data chunk is skipped (RawChunk::Unknown, payload not read) exactly for DataKind::Unknown
    rc = prog.one(D + "reader::Reader::read_chunk")
    rir = IR(rc)
    dk = prog.adt(D + "format::DataKind")
    unk = [int(v["discr"]) for v in dk["variants"] if v["name"] == "Unknown"]
    ub = "bytes:" + unk[0].to_bytes(dk["size"], "little").hex() if unk else "bytes:"
    for bi, t in rc.calls():
        if (t.get("callee") or "").endswith("Huffman::decompress"):
            want_relations(rep, rule, "read_chunk | payload read for every known kind", holds_at(rir, bi), [("ChunkHeader::read", "Ne", ub)], rc.loc(t.get("ln")), "decompress")
    early = 0
    for bi in sorted(rc.live):
        for si, st in enumerate(rc.blocks[bi]["st"]):
            if st["k"] == "assign" and st["r"]["k"] == "agg" and st["r"].get("variant") == "Unknown" and (st["r"].get("adt") or "").endswith("RawChunk"):
                rels = holds_at(rir, bi)
                if not any("decompress" in show(strip_sites(r[1] if r[0] == "bool" else r[0])) for r in rels):
                    early += 1
                    want_relations(rep, rule, "read_chunk | skipped exactly for DataKind::Unknown", rels, [("ChunkHeader::read", "Eq", ub)], rc.loc(st.get("ln")), "early RawChunk::Unknown")
    rep.floor(rule, early, 1, "early return of RawChunk::Unknown in read_chunk")
    wr = prog.one(D + "format::ChunkHeader::write")
    wir = IR(wr)
    asserts = [r for r, ln in asserted_relations(wr, wir)]
    want_relations(rep, rule, "write | asserted preconditions", asserts,
                   [("version", "Ge", "bytes:05"), (".0", "Le", "max_tick_delta"), ("keyframe", "bool", False)], wr.loc(),
                   "ChunkHeader::write asserts version >= V5, dt <= max_tick_delta(version), !keyframe for an inline delta")
