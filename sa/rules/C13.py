"""C13 -- client and server snapshot state never diverge silently (storage / manager mechanisms)."""
from .common import standard_totality
from ..facts import AnchorLost, path_matches
from ..ir import IR, show, walk, strip_sites
from ..effects import effects, strip_not

LEVEL = "other"
EXPLANATION = (
    "The three anchored mechanisms as dominance facts on the CFG of Storage / Manager.  R1 (Storage::add_delta): the store "
    "`ack_tick = Some(tick)` and the push_front of the new snapshot are dominated by the Ok edge of read_with_delta and by the "
    "crc-match edge; every return of UnknownSnap / InvalidCrc passes `ack_tick = None`; the base snapshot reference is taken only "
    "on the `d.tick == delta_tick` edge (or is the empty snapshot for a negative base tick); deltas not newer than the newest "
    "stored tick are refused first.  R2 (Storage::set_delta_tick / add_snap): delta_tick = Some(tick) only on the "
    "`back().tick == tick` edge, None + Err otherwise; add_snap diffs against back() iff delta_tick.is_some().  R3 (Manager): "
    "every message goes receiver -> temp_delta.read -> storage.add_delta, and storage is not touched when the receiver or the "
    "delta reader returned an error.  R4: panic sites reachable from Storage::* / Manager::* / DeltaReceiver::* are discharged or "
    "reviewed.  R6: the comparisons Storage decides on carry their exact operators (newest >= tick refuses; base lookup for every tick >= 0; strictly older snapshots dropped; crc != computed refuses; adoption on equality).  R5: the receiver refuses a duplicated part before inserting it (the reviewed assert rests on it; shared with C12 R3).  Not decided: item-for-item equality over all histories of losses (history level)."
)
EXPLANATION += ("  Round 4: R5b (shared with C12 R3) a restarted transfer passes init_delta(); R7 (shared with C09 R4) the sender's update set only grows.")
ASSUMPTIONS = ["the sender follows the storage API (set_delta_tick before add_snap)", "reviewed table lines confirmed by reading the code"]
TABLES = ["snapshot", "packer", "buffer", "common", "gamenet", "looptable", "postfix"]
ST = "libtw2_snapshot::storage::Storage::"
MG = "libtw2_snapshot::manager::"


def run(ctx, rep):
    standard_totality(ctx, rep, "C13", TABLES, rule="R4-no-panic")
    add_delta(ctx.prog, rep)
    delta_tick(ctx.prog, rep)
    manager(ctx.prog, rep)
    exact_relations(ctx.prog, rep)
    # the reviewed `assert!(parts.insert(..).is_none())` of DeltaReceiver::snap rests on the duplicate test in front of it
    from .C12 import completion
    from ..report import Report
    sub = Report("C12", rep.tier, rep.seed)
    completion(ctx.prog, sub)
    n = 0
    for o in sub.obs:
        if "insert#" in o["key"]:
            n += 1
            rep.ob("R5-duplicate-part-refused", o["key"].split(" | ", 2)[2], o["ok"], o["detail"], o["at"])
        elif "new transfer#" in o["key"]:
            # parts of a superseded transfer mixed into the new one are accepted as the new tick's snapshot (the crc is a plain
            # sum and can agree): silent divergence
            rep.ob("R5b-transfer-restarts-clean", o["key"].split(" | ", 2)[2], o["ok"], o["detail"], o["at"])
    rep.floor("R5-duplicate-part-refused", n, 1, "parts.insert in DeltaReceiver::snap")
    # the sender's delta carries every item of the new snapshot (shared with C09 R4): a dropped zero-valued new item does not
    # change the crc, so the receiver accepts the incomplete snapshot
    from .C09 import updates_append_only
    updates_append_only(ctx.prog, rep, "R7-delta-carries-every-item")


def _stores_to(body, ir, field):
    out = []
    for bi in sorted(body.live):
        for si, st in enumerate(body.blocks[bi]["st"]):
            if st["k"] == "assign" and st["p"].get("pr"):
                pe = ir.place(st["p"], (bi, si))
                root, path = ir.access_path(pe)
                if root == ("a", 0) and path == (field,):
                    out.append((bi, si, ir.rvalue(st["r"], (bi, si)), st.get("ln")))
    return out


def _truth(rel, v):
    if rel == "==" and v in (0, 1):
        return bool(v)
    if rel == "notin" and len(v) == 1 and v[0] in (0, 1):
        return not bool(v[0])
    return None


def add_delta(prog, rep):
    rule = "R1-ack-after-verified-apply"
    b = prog.one(ST + "add_delta")
    ir = IR(b)
    stores = _stores_to(b, ir, "ack_tick")
    somes = [s for s in stores if s[2][0] == "agg" and s[2][3] == "Some"]
    nones = [s for s in stores if s[2][0] == "agg" and s[2][3] == "None"]
    rep.floor(rule, len(somes), 1, "ack_tick = Some(..)")
    rep.floor(rule, len(nones), 3, "ack_tick = None")

    def guards(bi):
        ok_apply = False
        ok_crc = False
        for e, rel, v, edge, dty in ir.edge_conditions(bi):
            txt = show(e)
            if e[0] == "discr" and "read_with_delta" in txt and "branch" in txt and rel == "==" and v == 0:
                ok_apply = True
            t = _truth(rel, v)
            if t is not None and "crc" in txt and ("unwrap_or" in txt or "ne" in txt.lower()) and t is False:
                ok_crc = True
        return ok_apply, ok_crc

    for bi, si, v, ln in somes:
        a, c = guards(bi)
        tick_ok = dict(v[4]).get(0, ("x",))[0] == "arg" and dict(v[4])[0][2] == "tick"
        rep.ob(rule, "ack_tick = Some(tick) after apply and crc", a and c and tick_ok,
               "dominated by read_with_delta Ok: %s, by crc match: %s, value is the tick argument: %s" % (a, c, tick_ok), b.loc(ln))
    pf = [(bi, t) for bi, t in b.calls() if (t.get("callee") or "").endswith("VecDeque::push_front")]
    rep.floor(rule, len(pf), 1, "snaps.push_front")
    for bi, t in pf:
        a, c = guards(bi)
        rep.ob(rule, "snapshot stored only after apply and crc", a and c, "push_front dominated by apply Ok: %s, crc match: %s" % (a, c), b.loc(t.get("ln")))
    # every Err(UnknownSnap) / Err(InvalidCrc) return passes ack_tick = None
    for variant in ("UnknownSnap", "InvalidCrc"):
        sites = []
        for bi in sorted(b.live):
            for si, st in enumerate(b.blocks[bi]["st"]):
                if st["k"] == "assign" and st["r"]["k"] == "agg" and st["r"].get("variant") == variant:
                    sites.append((bi, st.get("ln")))
        rep.floor(rule, len(sites), 1, "Err(%s) in add_delta" % variant)
        for bi, ln in sites:
            ok = any(nb == bi or b.dominates(nb, bi) for nb, _, _, _ in nones if _same_arm(b, nb, bi))
            rep.ob(rule, "%s clears ack_tick" % variant, ok, "the %s return is preceded by ack_tick = None" % variant, b.loc(ln))
    # base snapshot taken on the `d.tick == delta_tick` edge
    okb = False
    for bi in sorted(b.live):
        for si, st in enumerate(b.blocks[bi]["st"]):
            if st["k"] == "assign" and st["r"]["k"] == "ref" and not st["r"].get("mut"):
                e = ir.rvalue(st["r"], (bi, si))
                if show(e).endswith(".snap") and "back" in show(e):
                    for c, rel, v, edge, dty in ir.edge_conditions(bi):
                        if c[0] == "bin" and c[1] in ("Eq", "Ne") and "delta_tick" in show(c) and ".tick" in show(c):
                            t = _truth(rel, v)
                            if t is not None and (c[1] == "Eq") == t:
                                okb = True
    rep.ob(rule, "base snapshot has exactly the named tick", okb, "&d.snap is taken only on the `d.tick == delta_tick` edge", b.loc())
    # OldDelta first
    old = False
    for bi in sorted(b.live):
        for si, st in enumerate(b.blocks[bi]["st"]):
            if st["k"] == "assign" and st["r"]["k"] == "agg" and st["r"].get("variant") == "OldDelta":
                old = all(not b.dominates(bi2, bi) for bi2, _ in [(x[0], 0) for x in stores])
    rep.ob(rule, "old deltas refused before any write", old, "Err(OldDelta) is returned before ack_tick or snaps are touched", b.loc())


def _same_arm(b, nb, bi):
    return nb == bi or b.dominates(nb, bi)


def delta_tick(prog, rep):
    rule = "R2-base-tick-exactness"
    b = prog.one(ST + "set_delta_tick")
    ir = IR(b)
    stores = _stores_to(b, ir, "delta_tick")
    somes = [s for s in stores if s[2][0] == "agg" and s[2][3] == "Some"]
    rep.floor(rule, len(somes), 1, "delta_tick = Some(..)")
    for bi, si, v, ln in somes:
        ok = False
        for e, rel, val, edge, dty in ir.edge_conditions(bi):
            txt = show(e)
            if "back" in txt and "unwrap_or" in txt:
                t = _truth(rel, val)
                e2, neg = strip_not(e)
                if t is not None and (t != neg):
                    ok = True
        # the closure compares s.tick == tick
        cl = [prog.bodies[k] for k in prog.bodies if k.startswith(ST + "set_delta_tick::{closure")]
        eq = any(any(st["k"] == "assign" and st["r"]["k"] == "bin" and st["r"]["op"] == "Eq" for blk in c.blocks for st in blk["st"]) for c in cl)
        rep.ob(rule, "delta_tick = Some(tick) only if the oldest kept snapshot has that tick", ok and eq,
               "dominated by `snaps.back().map(|s| s.tick == tick).unwrap_or(false)`: %s / closure is an equality: %s" % (ok, eq), b.loc(ln))
    errs = []
    for bi in sorted(b.live):
        for si, st in enumerate(b.blocks[bi]["st"]):
            if st["k"] == "assign" and st["r"]["k"] == "agg" and st["r"].get("variant") == "Err":
                errs.append(bi)
    nones = [s for s in stores if s[2][0] == "agg" and s[2][3] == "None"]
    okn = bool(errs) and all(any(nb == eb or b.dominates(nb, eb) for nb, _, _, _ in nones) for eb in errs)
    rep.ob(rule, "unknown base clears delta_tick", okn, "every Err(UnknownSnap) return is preceded by delta_tick = None", b.loc())
    a = prog.one(ST + "add_snap")
    air = IR(a)
    okb = False
    for bi, t in a.calls():
        if (t.get("callee") or "").endswith("VecDeque::back"):
            for e, rel, v, edge, dty in air.edge_conditions(bi):
                if "is_some" in show(e) and "delta_tick" in show(e) and _truth(rel, v) is True:
                    okb = True
    rep.ob(rule, "add_snap diffs against back() iff delta_tick is set", okb, "snaps.back() is used only on the delta_tick.is_some() edge", a.loc())


def manager(prog, rep):
    rule = "R3-manager-pipeline"
    h = prog.one(MG + "ManagerInner::handle_msg")
    hir = IR(h)
    ad = [(bi, t) for bi, t in h.calls() if (t.get("callee") or "") == MG + "ManagerInner::add_delta"]
    rep.floor(rule, len(ad), 1, "handle_msg -> add_delta")
    for bi, t in ad:
        ok = any(e[0] == "discr" and "branch" in show(e) and rel == "==" and v == 0 for e, rel, v, _, _ in hir.edge_conditions(bi))
        rep.ob(rule, "storage untouched on receiver error", ok, "add_delta is reached only on the Ok edge of the receiver's result (`res?`)", h.loc(t.get("ln")))
    a = prog.one(MG + "ManagerInner::add_delta")
    air = IR(a)
    st = [(bi, t) for bi, t in a.calls() if (t.get("callee") or "").endswith("Storage::add_delta")]
    rd = [(bi, t) for bi, t in a.calls() if (t.get("callee") or "").endswith("snap::Delta::read")]
    rep.floor(rule, len(st), 1, "storage.add_delta call")
    rep.floor(rule, len(rd), 1, "temp_delta.read call")
    for bi, t in st:
        # on the data path the read's Ok edge dominates... the call is a join of (read ok) and (clear): check that the
        # Err edge of read cannot reach it
        ok = True
        for rb, rt in rd:
            # find the Try::branch switch after the read
            nb = rt.get("t")
            sw = None
            steps = 0
            while nb is not None and steps < 8:
                tt = a.blocks[nb]["term"]
                if tt["k"] == "switch":
                    sw = nb
                    break
                nb = tt.get("t") if tt["k"] in ("goto", "call", "drop") else None
                steps += 1
            if sw is None:
                ok = False
                continue
            tt = a.blocks[sw]["term"]
            err_t = [tb for v, tb in tt["targets"] if v == 1] or [tt["otherwise"]]
            for et in err_t:
                if bi in a.reachable_from(et):
                    ok = False
        dt = air.term_operand(bi, t["args"][5]) if len(t["args"]) > 5 else None
        okd = dt is not None and "temp_delta" in show(dt)
        rep.ob(rule, "storage.add_delta only after a successful delta read", ok and okd,
               "the Err edge of temp_delta.read cannot reach storage.add_delta, which receives &self.temp_delta", a.loc(t.get("ln")))
    for fn in ("snap", "snap_single", "snap_empty"):
        m = prog.one(MG + "Manager::" + fn)
        mir = IR(m)
        calls = [(t.get("callee") or "") for _, t in m.calls()]
        ok = any(c.endswith("DeltaReceiver::" + fn) for c in calls) and any(c.endswith("ManagerInner::handle_msg") for c in calls)
        rep.ob(rule, "Manager::%s goes receiver -> handle_msg" % fn, ok, "calls: %s" % [c.rsplit("::", 2)[-2:] for c in calls], m.loc())


def _closure_of(ir, bi, t):
    e = ir.call_expr(bi, t)
    for a in e[2]:
        for x in walk(a):
            if isinstance(x, tuple) and x and x[0] == "agg" and x[1] == "closure":
                return x[2]
    return None


def exact_relations(prog, rep):
    """R6: the comparisons Storage decides on, with their exact operators (an operator sweep showed that presence and
    dominance alone let `>=` -> `>`, `<` -> `<=`, `!=` -> `==` through):
    add_delta refuses a tick that is not newer than the newest stored one (`newest >= tick`); a base is looked up for every
    delta_tick >= 0 (0 included) and the empty snapshot is the base only for negative ones; snapshots strictly older than the base
    (`s.tick < base`) are dropped, never the base itself; the checksum refusal is `crc != computed`.  set_delta_tick: no base for
    tick < 0 only, the same `<` when dropping, and `==` when adopting."""
    from .common import exact_clauses, _txt
    from .C12 import _stored_op_param
    from ..bits import BitEval, Unsupported
    from ..guards import Reasoner, Lin
    rule = "R6-exact-relations"
    be = BitEval(prog)
    captured = lambda x: any(isinstance(y, tuple) and y and y[0] == "arg" and y[1] == 0 for y in walk(x))

    def closure_op(cid):
        try:
            ce, rb = be.ret_expr(cid)
        except Unsupported:
            return None, None
        neg = False
        e = ce
        while e[0] == "un" and e[1] == "Not":
            e, neg = e[2], not neg
        if e[0] == "bin" and e[1] in ("Eq", "Ne"):
            op = e[1]
            if neg:
                op = "Ne" if op == "Eq" else "Eq"
            return op, ce
        return _stored_op_param(ce, captured), ce

    for fn, tickarg in (("add_delta", "delta_tick"), ("set_delta_tick", "tick")):
        b = prog.one(ST + fn)
        ir = IR(b)
        rs = Reasoner(ir, prog)
        # (1) position(|s| s.tick < base): strictly older snapshots are dropped
        pos = [(bi, t) for bi, t in b.calls() if (t.get("callee") or "").endswith("::position")]
        rep.floor(rule, len(pos), 1, "%s: position(..) over the stored snapshots" % fn)
        for bi, t in pos:
            cid = _closure_of(ir, bi, t)
            op, ce = closure_op(cid) if cid else (None, None)
            rep.ob(rule, "%s | snapshots strictly older than the base are dropped" % fn, op == "Lt",
                   "position(|s| s.tick < base)" if op == "Lt" else
                   "the drop predicate is `s.tick %s base`: %s" % ({"Le": "<=", "Gt": ">", "Ge": ">="}.get(op, "?"),
                   "the base snapshot itself is dropped and every delta against it fails" if op == "Le" else "wrong snapshots are dropped"), b.loc(t.get("ln")))
            # (2) a base is looked up for every non-negative tick, 0 included
            facts, nes = rs.facts_at(bi)
            argi = [i for i in range(b.argc) if (ir.lname(i + 1) or "") == tickarg]
            tv = rs.lin(("arg", argi[0], tickarg)) if argi else None
            ge0 = tv is not None and rs.prove(Lin.const(0).sub(tv), facts)
            ge1 = tv is not None and rs.prove(Lin.const(1).sub(tv), facts)
            rep.ob(rule, "%s | a base is looked up for every %s >= 0" % (fn, tickarg), ge0 and not ge1,
                   "the lookup is reached exactly for %s >= 0" % tickarg if ge0 and not ge1 else
                   ("tick 0 is treated like `no base`: a delta against the snapshot of tick 0 is applied to the empty snapshot" if ge1 else
                    "the lookup is not guarded by %s >= 0" % tickarg), b.loc(t.get("ln")))
    a = prog.one(ST + "add_delta")
    air = IR(a)
    # (3) OldDelta: newest stored tick >= tick
    table = [("the newest stored tick is not older than the delta's tick",
              lambda x: "front" in _txt(x), lambda y: y[0] == "arg", "Ge", 1)]
    exact_clauses(rep, rule, "add_delta", a, air, table, floor=1)
    # (4) InvalidCrc: crc != computed
    crcs = [(bi, t) for bi, t in a.calls() if (t.get("callee") or "") == "std::option::Option::map" and "crc" in show(strip_sites(air.term_operand(bi, t["args"][0])))]
    rep.floor(rule, len(crcs), 1, "add_delta: crc.map(..)")
    for bi, t in crcs:
        cid = _closure_of(air, bi, t)
        op, ce = closure_op(cid) if cid else (None, None)
        rep.ob(rule, "add_delta | checksum refusal is `announced != computed`", op == "Ne",
               "crc.map(|crc| crc != new_snap.crc())" if op == "Ne" else "the checksum test is `%s`: matching snapshots are refused and mismatching ones acknowledged" % op, a.loc(t.get("ln")))
    # (5) set_delta_tick adopts the base on equality
    sd = prog.one(ST + "set_delta_tick")
    sir = IR(sd)
    maps = [(bi, t) for bi, t in sd.calls() if (t.get("callee") or "") == "std::option::Option::map" and "back" in show(strip_sites(sir.term_operand(bi, t["args"][0])))]
    for bi, t in maps:
        cid = _closure_of(sir, bi, t)
        op, ce = closure_op(cid) if cid else (None, None)
        rep.ob(rule, "set_delta_tick | base adopted only if its tick equals the acknowledged one", op == "Eq",
               "snaps.back().map(|s| s.tick == tick)" if op == "Eq" else "the adoption test is `%s`" % op, sd.loc(t.get("ln")))
