"""C13 -- client and server snapshot state never diverge silently (storage / manager mechanisms)."""
from .common import standard_totality
from ..facts import AnchorLost, path_matches
from ..ir import IR, show, walk, strip_sites
from ..effects import effects, strip_not

LEVEL = "other"
EXPLANATION = (
    "The three anchored mechanisms as dominance facts on the CFG of Storage / Manager.  R1 (Storage::add_delta): the store "
    "`ack_tick = Some(tick)` and the push_front of the new snapshot are dominated by the Ok edge of read_with_delta and by the "
    "crc-match edge; every return of UnknownSnap / InvalidCrc passes `ack_tick = None`; the base snapshot reference is taken only "
    "on the `d.tick == delta_tick` edge (or is the empty snapshot for a negative base tick); deltas not newer than the newest "
    "stored tick are refused first.  R2 (Storage::set_delta_tick / add_snap): delta_tick = Some(tick) only on the "
    "`back().tick == tick` edge, None + Err otherwise; add_snap diffs against back() iff delta_tick.is_some().  R3 (Manager): "
    "every message goes receiver -> temp_delta.read -> storage.add_delta, and storage is not touched when the receiver or the "
    "delta reader returned an error.  R4: panic sites reachable from Storage::* / Manager::* / DeltaReceiver::* are discharged or "
    "reviewed.  R5: the receiver refuses a duplicated part before inserting it (the reviewed assert rests on it; shared with C12 R3).  Not decided: item-for-item equality over all histories of losses (history level)."
)
ASSUMPTIONS = ["the sender follows the storage API (set_delta_tick before add_snap)", "reviewed table lines confirmed by reading the code"]
TABLES = ["snapshot", "packer", "buffer", "common", "gamenet", "looptable", "postfix"]
ST = "libtw2_snapshot::storage::Storage::"
MG = "libtw2_snapshot::manager::"


def run(ctx, rep):
    standard_totality(ctx, rep, "C13", TABLES, rule="R4-no-panic")
    add_delta(ctx.prog, rep)
    delta_tick(ctx.prog, rep)
    manager(ctx.prog, rep)
    # the reviewed `assert!(parts.insert(..).is_none())` of DeltaReceiver::snap rests on the duplicate test in front of it
    from .C12 import completion
    from ..report import Report
    sub = Report("C12", rep.tier, rep.seed)
    completion(ctx.prog, sub)
    n = 0
    for o in sub.obs:
        if "insert#" in o["key"]:
            n += 1
            rep.ob("R5-duplicate-part-refused", o["key"].split(" | ", 2)[2], o["ok"], o["detail"], o["at"])
    rep.floor("R5-duplicate-part-refused", n, 1, "parts.insert in DeltaReceiver::snap")


def _stores_to(body, ir, field):
    out = []
    for bi in sorted(body.live):
        for si, st in enumerate(body.blocks[bi]["st"]):
            if st["k"] == "assign" and st["p"].get("pr"):
                pe = ir.place(st["p"], (bi, si))
                root, path = ir.access_path(pe)
                if root == ("a", 0) and path == (field,):
                    out.append((bi, si, ir.rvalue(st["r"], (bi, si)), st.get("ln")))
    return out


def _truth(rel, v):
    if rel == "==" and v in (0, 1):
        return bool(v)
    if rel == "notin" and len(v) == 1 and v[0] in (0, 1):
        return not bool(v[0])
    return None


def add_delta(prog, rep):
    rule = "R1-ack-after-verified-apply"
    b = prog.one(ST + "add_delta")
    ir = IR(b)
    stores = _stores_to(b, ir, "ack_tick")
    somes = [s for s in stores if s[2][0] == "agg" and s[2][3] == "Some"]
    nones = [s for s in stores if s[2][0] == "agg" and s[2][3] == "None"]
    rep.floor(rule, len(somes), 1, "ack_tick = Some(..)")
    rep.floor(rule, len(nones), 3, "ack_tick = None")

    def guards(bi):
        ok_apply = False
        ok_crc = False
        for e, rel, v, edge, dty in ir.edge_conditions(bi):
            txt = show(e)
            if e[0] == "discr" and "read_with_delta" in txt and "branch" in txt and rel == "==" and v == 0:
                ok_apply = True
            t = _truth(rel, v)
            if t is not None and "crc" in txt and ("unwrap_or" in txt or "ne" in txt.lower()) and t is False:
                ok_crc = True
        return ok_apply, ok_crc

    for bi, si, v, ln in somes:
        a, c = guards(bi)
        tick_ok = dict(v[4]).get(0, ("x",))[0] == "arg" and dict(v[4])[0][2] == "tick"
        rep.ob(rule, "ack_tick = Some(tick) after apply and crc", a and c and tick_ok,
               "dominated by read_with_delta Ok: %s, by crc match: %s, value is the tick argument: %s" % (a, c, tick_ok), b.loc(ln))
    pf = [(bi, t) for bi, t in b.calls() if (t.get("callee") or "").endswith("VecDeque::push_front")]
    rep.floor(rule, len(pf), 1, "snaps.push_front")
    for bi, t in pf:
        a, c = guards(bi)
        rep.ob(rule, "snapshot stored only after apply and crc", a and c, "push_front dominated by apply Ok: %s, crc match: %s" % (a, c), b.loc(t.get("ln")))
    # every Err(UnknownSnap) / Err(InvalidCrc) return passes ack_tick = None
    for variant in ("UnknownSnap", "InvalidCrc"):
        sites = []
        for bi in sorted(b.live):
            for si, st in enumerate(b.blocks[bi]["st"]):
                if st["k"] == "assign" and st["r"]["k"] == "agg" and st["r"].get("variant") == variant:
                    sites.append((bi, st.get("ln")))
        rep.floor(rule, len(sites), 1, "Err(%s) in add_delta" % variant)
        for bi, ln in sites:
            ok = any(nb == bi or b.dominates(nb, bi) for nb, _, _, _ in nones if _same_arm(b, nb, bi))
            rep.ob(rule, "%s clears ack_tick" % variant, ok, "the %s return is preceded by ack_tick = None" % variant, b.loc(ln))
    # base snapshot taken on the `d.tick == delta_tick` edge
    okb = False
    for bi in sorted(b.live):
        for si, st in enumerate(b.blocks[bi]["st"]):
            if st["k"] == "assign" and st["r"]["k"] == "ref" and not st["r"].get("mut"):
                e = ir.rvalue(st["r"], (bi, si))
                if show(e).endswith(".snap") and "back" in show(e):
                    for c, rel, v, edge, dty in ir.edge_conditions(bi):
                        if c[0] == "bin" and c[1] in ("Eq", "Ne") and "delta_tick" in show(c) and ".tick" in show(c):
                            t = _truth(rel, v)
                            if t is not None and (c[1] == "Eq") == t:
                                okb = True
    rep.ob(rule, "base snapshot has exactly the named tick", okb, "&d.snap is taken only on the `d.tick == delta_tick` edge", b.loc())
    # OldDelta first
    old = False
    for bi in sorted(b.live):
        for si, st in enumerate(b.blocks[bi]["st"]):
            if st["k"] == "assign" and st["r"]["k"] == "agg" and st["r"].get("variant") == "OldDelta":
                old = all(not b.dominates(bi2, bi) for bi2, _ in [(x[0], 0) for x in stores])
    rep.ob(rule, "old deltas refused before any write", old, "Err(OldDelta) is returned before ack_tick or snaps are touched", b.loc())


def _same_arm(b, nb, bi):
    return nb == bi or b.dominates(nb, bi)


def delta_tick(prog, rep):
    rule = "R2-base-tick-exactness"
    b = prog.one(ST + "set_delta_tick")
    ir = IR(b)
    stores = _stores_to(b, ir, "delta_tick")
    somes = [s for s in stores if s[2][0] == "agg" and s[2][3] == "Some"]
    rep.floor(rule, len(somes), 1, "delta_tick = Some(..)")
    for bi, si, v, ln in somes:
        ok = False
        for e, rel, val, edge, dty in ir.edge_conditions(bi):
            txt = show(e)
            if "back" in txt and "unwrap_or" in txt:
                t = _truth(rel, val)
                e2, neg = strip_not(e)
                if t is not None and (t != neg):
                    ok = True
        # the closure compares s.tick == tick
        cl = [prog.bodies[k] for k in prog.bodies if k.startswith(ST + "set_delta_tick::{closure")]
        eq = any(any(st["k"] == "assign" and st["r"]["k"] == "bin" and st["r"]["op"] == "Eq" for blk in c.blocks for st in blk["st"]) for c in cl)
        rep.ob(rule, "delta_tick = Some(tick) only if the oldest kept snapshot has that tick", ok and eq,
               "dominated by `snaps.back().map(|s| s.tick == tick).unwrap_or(false)`: %s / closure is an equality: %s" % (ok, eq), b.loc(ln))
    errs = []
    for bi in sorted(b.live):
        for si, st in enumerate(b.blocks[bi]["st"]):
            if st["k"] == "assign" and st["r"]["k"] == "agg" and st["r"].get("variant") == "Err":
                errs.append(bi)
    nones = [s for s in stores if s[2][0] == "agg" and s[2][3] == "None"]
    okn = bool(errs) and all(any(nb == eb or b.dominates(nb, eb) for nb, _, _, _ in nones) for eb in errs)
    rep.ob(rule, "unknown base clears delta_tick", okn, "every Err(UnknownSnap) return is preceded by delta_tick = None", b.loc())
    a = prog.one(ST + "add_snap")
    air = IR(a)
    okb = False
    for bi, t in a.calls():
        if (t.get("callee") or "").endswith("VecDeque::back"):
            for e, rel, v, edge, dty in air.edge_conditions(bi):
                if "is_some" in show(e) and "delta_tick" in show(e) and _truth(rel, v) is True:
                    okb = True
    rep.ob(rule, "add_snap diffs against back() iff delta_tick is set", okb, "snaps.back() is used only on the delta_tick.is_some() edge", a.loc())


def manager(prog, rep):
    rule = "R3-manager-pipeline"
    h = prog.one(MG + "ManagerInner::handle_msg")
    hir = IR(h)
    ad = [(bi, t) for bi, t in h.calls() if (t.get("callee") or "") == MG + "ManagerInner::add_delta"]
    rep.floor(rule, len(ad), 1, "handle_msg -> add_delta")
    for bi, t in ad:
        ok = any(e[0] == "discr" and "branch" in show(e) and rel == "==" and v == 0 for e, rel, v, _, _ in hir.edge_conditions(bi))
        rep.ob(rule, "storage untouched on receiver error", ok, "add_delta is reached only on the Ok edge of the receiver's result (`res?`)", h.loc(t.get("ln")))
    a = prog.one(MG + "ManagerInner::add_delta")
    air = IR(a)
    st = [(bi, t) for bi, t in a.calls() if (t.get("callee") or "").endswith("Storage::add_delta")]
    rd = [(bi, t) for bi, t in a.calls() if (t.get("callee") or "").endswith("snap::Delta::read")]
    rep.floor(rule, len(st), 1, "storage.add_delta call")
    rep.floor(rule, len(rd), 1, "temp_delta.read call")
    for bi, t in st:
        # on the data path the read's Ok edge dominates... the call is a join of (read ok) and (clear): check that the
        # Err edge of read cannot reach it
        ok = True
        for rb, rt in rd:
            # find the Try::branch switch after the read
            nb = rt.get("t")
            sw = None
            steps = 0
            while nb is not None and steps < 8:
                tt = a.blocks[nb]["term"]
                if tt["k"] == "switch":
                    sw = nb
                    break
                nb = tt.get("t") if tt["k"] in ("goto", "call", "drop") else None
                steps += 1
            if sw is None:
                ok = False
                continue
            tt = a.blocks[sw]["term"]
            err_t = [tb for v, tb in tt["targets"] if v == 1] or [tt["otherwise"]]
            for et in err_t:
                if bi in a.reachable_from(et):
                    ok = False
        dt = air.term_operand(bi, t["args"][5]) if len(t["args"]) > 5 else None
        okd = dt is not None and "temp_delta" in show(dt)
        rep.ob(rule, "storage.add_delta only after a successful delta read", ok and okd,
               "the Err edge of temp_delta.read cannot reach storage.add_delta, which receives &self.temp_delta", a.loc(t.get("ln")))
    for fn in ("snap", "snap_single", "snap_empty"):
        m = prog.one(MG + "Manager::" + fn)
        mir = IR(m)
        calls = [(t.get("callee") or "") for _, t in m.calls()]
        ok = any(c.endswith("DeltaReceiver::" + fn) for c in calls) and any(c.endswith("ManagerInner::handle_msg") for c in calls)
        rep.ob(rule, "Manager::%s goes receiver -> handle_msg" % fn, ok, "calls: %s" % [c.rsplit("::", 2)[-2:] for c in calls], m.loc())
