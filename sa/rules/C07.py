"""C07 -- Huffman codec: table agreement, bounded write then commit, decoder progress, totality."""
from .common import standard_totality
from ..facts import AnchorLost, path_matches
from ..ir import IR, show, walk, strip_sites
from .C19 import caller_protocol

LEVEL = "other"
EXPLANATION = (
    "Three necessary conditions plus totality; losslessness of the bit arithmetic, exactness of compressed_len and byte equality "
    "with the C++ reference are value-level / cross-language and are not decided, nor are tables built at run time.  R1 "
    "(encoder/decoder table agreement, static validation of the evaluated constant instances::teeworlds::INSTANCE): the 513 nodes "
    "form a tree rooted at ROOT_IDX (every node but the root is referenced exactly once by an inner node, all child indices are "
    "in range, so the decoder's walk cannot cycle); each leaf's stored (bits, num_bits) equals its root path read LSB-first (the "
    "compressor's table and the decompressor's tree denote the same prefix code); max num_bits <= 24 (the u24 assert and the "
    "3*len+3 bound of compress_into_vec); leaves are the indices < NUM_SYMBOLS (justifies assert_u8 after the EOF test).  R2 "
    "(bounded write then commit): in compress_impl / decompress_impl the argument of the unsafe advance is the Ok value of the "
    "function that received uninitialized_mut(); inside compress_impl_unsafe / decompress_unsafe every `len += 1` is preceded on "
    "its path by a store through output.next() of the slice iterator whose None leaves the function.  R3 (decoder progress): on "
    "every path from the leaf branch back to the outer loop there is the EOF exit or a consumed output slot.  R4: panic sites "
    "reachable from decompress* / compress* are discharged or reviewed against R1's facts."
)
EXPLANATION += ('  Round 4: the counter of R2 is identified by role (the local returned in Ok(..), also when stored through a &mut handed to an inlined helper); from the `no slot left` edge of every output.next() no Ok(..) return is reachable (an exhausted buffer is an error, never a truncated stream).')
ASSUMPTIONS = ["the constant is little-endian u16 pairs as laid out by rustc on this target", "reviewed table lines confirmed by reading the code"]
TABLES = ["huffman", "buffer", "common", "looptable", "postfix"]
H = "libtw2_huffman::"


BIG = "needs an input of more than 2^61 bytes: "
EXTRA = {
    H + 'Huffman::compress_into_vec | overflow | Mul | 0': BIG + "input.len() * 3",
    H + 'Huffman::compress_into_vec | overflow | Add | 0': BIG + "input.len() * 3 + 3",
    H + 'Huffman::compress_into_vec | unwrap | unwrap<-Huffman::compress | 0':
        "the Vec has capacity 3n + 3 and every symbol (n input bytes + EOF) has a code of at most 24 bits (R1: longest code 15 bits), "
        "so at most ceil(24 (n + 1) / 8) = 3n + 3 bytes are written and compress cannot report CapacityError",
    H + 'Huffman::compress_into_vec_bug | overflow | Mul | 0': BIG + "input.len() * 3",
    H + 'Huffman::compress_into_vec_bug | overflow | Add | 0': BIG + "input.len() * 3 + 4",
    H + 'Huffman::compress_into_vec_bug | unwrap | unwrap<-Huffman::compress_bug | 0':
        "same bound as compress_into_vec plus the one extra byte of the reference-compatible form (capacity 3n + 4)",
    H + 'Huffman::compressed_bit_len | overflow | Add | 0': "sum of at most n + 1 code lengths of at most 24 bits each: below 2^64 for any in-memory input",
    H + 'Huffman::compressed_bit_len::{closure#1} | overflow | Add | 0': "partial sums of the same bounded series",
    H + 'Huffman::compressed_len | overflow | Add | 0': "bit length + 7 with the bit length bounded as above",
    H + 'Huffman::compressed_len_bug | overflow | Add | 0': "bit length + 8 with the bit length bounded as above",
    H + 'Huffman::compressed_len_bug | overflow | Div | 0': "constant divisor 8",
    H + 'Huffman::decompress_into_vec | overflow | Mul | 0': BIG + "input.len() * 8",
    H + 'Huffman::symbol_bit_length | unwrap | unwrap_err<-Huffman::get_node | 0':
        "callers pass a byte (< 256) or EOF (256): below NUM_SYMBOLS, where get_node returns Err(symbol) (R1: get_node splits at NUM_SYMBOLS)",
    H + 'compress | precondition | ' + H + 'Huffman::compress_into_vec | 0': BIG + "forwarded size arithmetic of compress_into_vec",
    H + 'decompress | precondition | ' + H + 'Huffman::decompress_into_vec | 0': BIG + "forwarded size arithmetic of decompress_into_vec",
}


def run(ctx, rep):
    prog = ctx.prog
    # the codec on the built-in table; tables built at run time from arbitrary frequencies are outside what is decided
    names = ("compress", "compress_into", "decompress", "decompress_into", "Huffman::compress", "Huffman::compress_bug",
             "Huffman::compress_into_vec", "Huffman::compress_into_vec_bug", "Huffman::decompress", "Huffman::decompress_into_vec",
             "Huffman::compressed_len", "Huffman::compressed_len_bug", "Huffman::compressed_bit_len")
    ents = [H + n for n in names if (H + n) in prog.bodies]
    if len(ents) < 8:
        raise AnchorLost("huffman: public codec entry points not found (%d)" % len(ents))
    standard_totality(ctx, rep, "C07", TABLES, rule="R4-no-panic", entries=ents, extra_reviewed=EXTRA)
    table(prog, rep)
    bounded_write(ctx, rep)
    progress(prog, rep)
    slot_only_for_symbols(prog, rep)
    flush_loop(prog, rep)
    length_formulas(prog, rep)


def table(prog, rep):
    rule = "R1-table-agreement"
    c = prog.const(H + "instances::teeworlds::INSTANCE")
    raw = bytes.fromhex(c.get("bytes") or "")
    nn = prog.constv(H + "NUM_NODES")
    ns = prog.constv(H + "NUM_SYMBOLS")
    root = prog.constv(H + "ROOT_IDX")
    eof = prog.constv(H + "EOF")
    if len(raw) != nn * 4:
        raise AnchorLost("Huffman table constant has %d bytes, expected %d" % (len(raw), nn * 4))
    nodes = [(int.from_bytes(raw[i * 4:i * 4 + 2], "little"), int.from_bytes(raw[i * 4 + 2:i * 4 + 4], "little")) for i in range(nn)]
    at = "%s:%s" % (c.get("file"), c.get("ln"))
    rep.ob(rule, "constants", nn == 2 * ns - 1 and root == nn - 1 and eof == ns - 1, "NUM_NODES=%d NUM_SYMBOLS=%d ROOT_IDX=%d EOF=%d" % (nn, ns, root, eof), at)
    refs = {}
    bad = []
    for i in range(ns, nn):
        for ch in nodes[i]:
            if ch >= nn:
                bad.append((i, ch))
            refs[ch] = refs.get(ch, 0) + 1
    rep.ob(rule, "child indices in range", not bad, "every child index of the %d inner nodes is < %d" % (nn - ns, nn) if not bad else "out-of-range children: %s" % bad[:4], at)
    once = all(refs.get(i, 0) == 1 for i in range(nn) if i != root) and refs.get(root, 0) == 0
    rep.ob(rule, "tree shape", once, "every node except the root is referenced exactly once, the root never", at)
    # walk from the root
    paths = {}
    st = [(root, 0, 0)]
    seen = set()
    cyc = False
    while st:
        i, bits, n = st.pop()
        if i in seen:
            cyc = True
            continue
        seen.add(i)
        if i < ns:
            paths[i] = (bits, n)
        else:
            for b in (0, 1):
                st.append((nodes[i][b], bits | (b << n), n + 1))
    rep.ob(rule, "walk from the root reaches every node once", not cyc and len(seen) == nn, "%d of %d nodes reached, cycle: %s" % (len(seen), nn, cyc), at)
    mism = []
    maxbits = 0
    for i in range(ns):
        c0, c1 = nodes[i]
        num_bits = c0 >> 8
        bits = ((c0 & 0xff) << 16) | c1
        maxbits = max(maxbits, num_bits)
        if paths.get(i) != (bits, num_bits):
            mism.append((i, (bits, num_bits), paths.get(i)))
    rep.ob(rule, "leaf codes equal their root paths (LSB first)", not mism,
           "all %d symbols: stored (bits, num_bits) == path from the root" % ns if not mism else "mismatching symbols: %s" % mism[:3], at)
    rep.ob(rule, "code lengths fit the u24 representation", 0 < maxbits <= 24, "longest code has %d bits" % maxbits, at)
    minbits = min((nodes[i][0] >> 8) for i in range(ns - 1)) if ns > 1 else 0      # shortest code of a byte symbol (EOF excluded)
    rep.extra["huffman_table"] = {"nodes": nn, "symbols": ns, "max_code_bits": maxbits, "min_code_bits": minbits}
    # decompress_into_vec sizes its output as input.len() * K: every output byte consumes at least `minbits` input bits,
    # so K * minbits >= 8 is needed for the densest valid stream to fit (a capacity error is reported as InvalidInput there)
    dv = prog.one(H + "Huffman::decompress_into_vec")
    dir_ = IR(dv)
    ks = []
    for bi, t in dv.calls():
        if (t.get("callee") or "").endswith("Vec::with_capacity"):
            e = dir_.term_operand(bi, t["args"][0])
            if e[0] == "bin" and e[1] == "Mul":
                for x in (e[2], e[3]):
                    if x[0] == "c":
                        ks.append((x[1], t.get("ln")))
    rep.floor("R1-table-agreement", len(ks), 1, "Vec::with_capacity(input.len() * K) in decompress_into_vec")
    for k, ln in ks:
        okk = minbits > 0 and k * minbits >= 8
        rep.ob("R1-table-agreement", "decompress_into_vec capacity covers the densest stream", okk,
               "capacity %d bytes per input byte; the shortest byte code has %d bit(s), so at most %d output bytes per input byte" % (k, minbits, -(-8 // max(minbits, 1)))
               if okk else "capacity is %d bytes per input byte but the shortest code has %d bit(s): a valid stream can expand %d-fold and is then reported as InvalidInput"
               % (k, minbits, -(-8 // max(minbits, 1))), dv.loc(ln))
    # the decoder treats idx < NUM_SYMBOLS as leaves: get_node compares with NUM_SYMBOLS
    g = prog.one(H + "Huffman::get_node")
    gir = IR(g)
    ok = False
    for bi in sorted(g.live):
        t = g.blocks[bi]["term"]
        if t["k"] == "switch":
            e = gir.term_operand(bi, t["o"])
            if e[0] == "bin" and e[1] in ("Ge", "Lt") and e[3][0] == "c" and e[3][1] == ns:
                ok = True
    rep.ob(rule, "get_node splits at NUM_SYMBOLS", ok, "indices >= NUM_SYMBOLS are inner nodes, below are symbols", g.loc())
    # to_symbol_repr layout agrees with the validation above
    tsr = prog.one(H + "Node::to_symbol_repr")
    tir = IR(tsr)
    e = None
    for bi in sorted(tsr.live):
        for si, st_ in enumerate(tsr.blocks[bi]["st"]):
            if st_["k"] == "assign" and st_["r"]["k"] == "agg" and (st_["r"].get("adt") or "").endswith("SymbolRepr"):
                e = dict(tir.rvalue(st_["r"], (bi, si))[4])
    okl = False
    if e is not None:
        tb, tn = show(e.get("bits")), show(e.get("num_bits"))
        okl = "255" in tb and "16" in tb and "children[0]" in tb.replace("-", "") and "8" in tn
    rep.ob(rule, "SymbolRepr layout", okl, "bits = (children[0] & 0xff) << 16 | children[1], num_bits = children[0] >> 8", tsr.loc())


def bounded_write(ctx, rep):
    rule = "R2-bounded-write-then-commit"
    prog = ctx.prog
    # caller protocol (shared with C19 R4), restricted to the huffman callers
    from ..report import Report
    sub = Report("C19", rep.tier, rep.seed)
    caller_protocol(ctx, sub)
    n = 0
    for o in sub.obs:
        if "libtw2_huffman" in o["key"]:
            n += 1
            rep.ob(rule, o["key"].split(" | ", 2)[2], o["ok"], o["detail"], o["at"])
    rep.floor(rule, n, 2, "advance() calls in the huffman crate")
    for fn in ("compress_impl_unsafe", "decompress_unsafe"):
        b = prog.one(H + "Huffman::" + fn)
        ir = IR(b)
        # stores to `len`
        # the counter: the local returned as Ok(counter) (called `len` today); it is stored to directly, or through a `&mut`
        # handed to a helper that has been inlined (sa/inline.py)
        counter = set()
        for bi in sorted(b.live):
            for si, st in enumerate(b.blocks[bi]["st"]):
                if st["k"] == "assign" and st["p"]["l"] == 0 and not st["p"].get("pr") and st["r"]["k"] == "agg" and st["r"].get("variant") == "Ok":
                    for o in st["r"].get("ops", []):
                        pl = o.get("cp") or o.get("mv")
                        if pl is not None and not pl.get("pr"):
                            counter.add(pl["l"])
        # Ok(move _t) with _t = copy len: look through the temporaries
        work = list(counter)
        while work:
            l = work.pop()
            ds = ir.defs.get(l, [])
            if len(ds) == 1 and ds[0][2] == "assign" and ds[0][3]["r"]["k"] == "use":
                pl = ds[0][3]["r"]["o"].get("cp") or ds[0][3]["r"]["o"].get("mv")
                if pl is not None and not pl.get("pr") and pl["l"] not in counter:
                    counter.add(pl["l"])
                    work.append(pl["l"])
        counter = set(l for l in counter if len(ir.defs.get(l, [])) > 1) or counter
        if not counter:
            counter = set(l for l in ir.defs if (ir.lname(l) or "") == "len")
        ptrs = set()
        for l, ds in ir.defs.items():
            for (bi, si, kind, node) in ds:
                if kind == "assign" and node["r"]["k"] == "ref" and node["r"].get("mut") and not node["r"]["p"].get("pr") and node["r"]["p"]["l"] in counter:
                    ptrs.add(l)
        grew = True
        while grew:
            grew = False
            for l, ds in ir.defs.items():
                if l in ptrs:
                    continue
                for (bi, si, kind, node) in ds:
                    if kind == "assign" and node["r"]["k"] == "use":
                        pl = node["r"]["o"].get("mv") or node["r"]["o"].get("cp")
                        if pl is not None and not pl.get("pr") and pl["l"] in ptrs:
                            ptrs.add(l)
                            grew = True
        lens = []
        for bi in sorted(b.live):
            for si, st in enumerate(b.blocks[bi]["st"]):
                if st["k"] != "assign":
                    continue
                direct = not st["p"].get("pr") and st["p"]["l"] in counter
                through = st["p"].get("pr") == ["*"] and st["p"]["l"] in ptrs
                if direct or through:
                    v = ir.rvalue(st["r"], (bi, si))
                    if (v[0] == "bin" and v[1] == "Add") or (through and "Add" in show(v)):
                        lens.append((bi, si, st.get("ln")))
        rep.floor(rule, len(lens), 1, "len += 1 in " + fn)
        for bi, si, ln in lens:
            # the closest preceding `output.next()` Some edge dominates the increment, with no other increment in between
            ok = False
            for e, rel, v, edge, dty in ir.edge_conditions(bi):
                txt = show(e)
                if e[0] == "discr" and ("ok_or" in txt or "next" in txt) and "output" in txt:
                    ty = ir.type_of(e[1]) or ""
                    if ("Result" in ty or "ControlFlow" in ty or "branch" in txt) and rel == "==" and v == 0:
                        ok = True
                    if "Option" in ty and ((rel == "==" and v == 1) or (rel == "notin" and 0 in v)):
                        ok = True
            rep.ob(rule, "%s | len += 1 after a slot was obtained" % fn, ok,
                   "the increment is dominated by the success edge of output.next().ok_or(())?", b.loc(ln))
        # an exhausted output buffer is an error, never a shorter result: from the `no slot` edge of every output.next() no
        # `Ok(..)` return is reachable (`if let Some(slot) = output.next()` would silently drop the byte)
        oks = [bi for bi in sorted(b.live) for st in b.blocks[bi]["st"]
               if st["k"] == "assign" and st["p"]["l"] == 0 and not st["p"].get("pr") and st["r"]["k"] == "agg" and st["r"].get("variant") == "Ok"]
        nexts = [(bi, t) for bi, t in b.calls() if (t.get("callee") or "").endswith("::next") and t["args"] and "output" in show(ir.term_operand(bi, t["args"][0]))]
        for k_, (nb_, nt_) in enumerate(nexts):
            cur, via_try, steps, sw = nt_.get("t"), False, 0, None
            while cur is not None and steps < 6:
                tt = b.blocks[cur]["term"]
                if tt["k"] == "switch":
                    sw = cur
                    break
                if tt["k"] == "call":
                    if "branch" in (tt.get("callee") or tt.get("nf") or ""):
                        via_try = True
                    cur = tt.get("t")
                elif tt["k"] == "goto":
                    cur = tt["t"]
                else:
                    break
                steps += 1
            okn = False
            if sw is not None:
                want = 1 if via_try else 0
                tt = b.blocks[sw]["term"]
                arm = None
                for v_, tb_ in tt["targets"]:
                    if v_ == want:
                        arm = tb_
                if arm is None and len(tt["targets"]) == 1:
                    arm = tt["otherwise"]
                okn = arm is not None and bool(oks) and not any(o in b.reachable_from(arm) for o in oks)
            rep.ob(rule, "%s | no output slot is an error | %d" % (fn, k_), okn,
                   "from the `no slot left` edge of output.next() no Ok(..) return is reachable" if okn else
                   "output.next() returning None can still lead to Ok(..): a full buffer silently truncates the stream", b.loc(nt_.get("ln")))
        # output is the slice iterator over the buffer parameter
        oki = False
        for l, ds in ir.defs.items():
            if (ir.lname(l) or "") == "output" and len(ds) == 1:
                init = ir.var_init(l)
                if init is not None and "into_iter" in show(init) and "buffer" in show(init):
                    oki = True
        rep.ob(rule, "%s | output iterates the given buffer" % fn, oki, "`output` = buffer.into_iter() (IterMut over the caller's slice)", b.loc())


def progress(prog, rep):
    rule = "R3-decoder-progress"
    b = prog.one(H + "Huffman::decompress_unsafe")
    ir = IR(b)
    # the leaf branch: get_node(new_idx) is Err.  From its entry, every path back into the loop passes output.next() (a consumed
    # slot) -- or leaves the loop (EOF break / `?` return)
    leaf_entries = []
    for bi in sorted(b.live):
        t = b.blocks[bi]["term"]
        if t["k"] == "switch":
            e = ir.term_operand(bi, t["o"])
            if e[0] == "discr" and "get_node" in show(e[1]) and "ROOT_IDX" not in show(e[1]):
                for v, tb in t["targets"]:
                    if v == 1:
                        leaf_entries.append(tb)
                if not any(v == 1 for v, _ in t["targets"]):
                    leaf_entries.append(t["otherwise"])
    rep.floor(rule, len(leaf_entries), 1, "leaf branch in decompress_unsafe")
    outs = [bi for bi, t in b.calls() if (t.get("callee") or "").endswith("::next") and "output" in show(ir.term_operand(bi, t["args"][0]))]
    loops_ = b.sccs()
    outer = max(loops_, key=len) if loops_ else []
    for le in leaf_entries:
        reach = b.reachable_from(le, removed_blocks=frozenset(outs))
        # blocks of the loop that can be re-entered without consuming a slot: the loop header side
        hdrs = [bi for bi, t in b.calls() if bi in outer and (t.get("callee") or "").endswith("::next") and "input" in show(ir.term_operand(bi, t["args"][0]))]
        bits_next = [bi for bi, t in b.calls() if bi in outer and (t.get("callee") or "").endswith("Bits as std::iter::Iterator>::next")]
        bad = [h for h in hdrs + bits_next if h in reach]
        rep.ob(rule, "leaf either exits or consumes an output slot", not bad and bool(outs),
               "from the leaf branch the decoder cannot get back to reading bits without passing output.next() (or leaving)" if not bad else
               "a leaf can be decoded without consuming output: the loop could spin on garbage", b.loc())


def slot_only_for_symbols(prog, rep):
    """R3b: the decoder asks for an output slot only once it knows the leaf is a byte, not EOF -- otherwise a stream whose
    output exactly fills the buffer fails with a capacity error the reference does not raise"""
    rule = "R3b-slot-after-eof-test"
    b = prog.one(H + "Huffman::decompress_unsafe")
    ir = IR(b)
    eof = prog.constv(H + "EOF")
    outs = [(bi, t) for bi, t in b.calls() if (t.get("callee") or "").endswith("::next") and "output" in show(ir.term_operand(bi, t["args"][0]))]
    rep.floor(rule, len(outs), 1, "output.next() in decompress_unsafe")
    for i, (bi, t) in enumerate(outs):
        ok = False
        for c, rel, v, edge, dty in ir.edge_conditions(bi):
            if c[0] == "bin" and c[1] in ("Eq", "Ne") and any(x[0] == "c" and x[1] == eof for x in (c[2], c[3])):
                is_eof = (rel == "==" and v == 1) or (rel == "notin" and 0 in v)
                if c[1] == "Ne":
                    is_eof = not is_eof
                if not is_eof:
                    ok = True
        rep.ob(rule, "output.next() #%d is reached only for a non-EOF leaf" % i, ok,
               "the slot is requested after the `== EOF` test failed" if ok else
               "a slot is requested before the leaf is known not to be EOF: decoding into a buffer of exactly the decoded length fails", b.loc(t.get("ln")))


def flush_loop(prog, rep):
    """R2b: in the compressor the test `symbol.num_bits - bits_written >= 8` is a loop test (re-evaluated after every byte it
    flushes), so that a code of up to 24 bits is flushed completely and fewer than 8 bits are carried over"""
    rule = "R2b-flush-until-less-than-a-byte"
    b = prog.one(H + "Huffman::compress_impl_unsafe")
    ir = IR(b)
    tests = []
    for bi in sorted(b.live):
        t = b.blocks[bi]["term"]
        if t["k"] != "switch":
            continue
        e = ir.term_operand(bi, t["o"])
        if e[0] == "bin" and e[1] in ("Ge", "Gt", "Lt", "Le") and e[3][0] == "c" and e[3][1] in (7, 8) and \
                e[2][0] == "bin" and e[2][1] == "Sub" and "num_bits" in show(e[2][2]):
            tests.append((bi, e))
    rep.floor(rule, len(tests), 1, "the `remaining bits >= 8` test in compress_impl_unsafe")
    # the first byte of a symbol is flushed exactly when the code fills the pending byte: num_bits >= 8 - num_output_bits
    from .common import holds_at, want_relations
    outs = [(bi, t) for bi, t in b.calls() if (t.get("callee") or "").endswith("::next") and "output" in show(ir.term_operand(bi, t["args"][0]))]
    inner = set(bi for bi, e in tests)
    firsts = []
    for bi, t in outs:
        rels = holds_at(ir, bi)
        if any(r[0] != "bool" and "Sub(8," in show(strip_sites(r[2])) for r in rels) and not any(b.dominates(x, bi) for x in inner):
            firsts.append((bi, t, rels))
    rep.floor(rule, len(firsts), 1, "the first flush of a symbol in compress_impl_unsafe")
    for bi, t, rels in firsts:
        want_relations(rep, rule, "a pending byte is flushed when the code fills it", rels, [("get_node", "Ge", "Sub(8,")], b.loc(t.get("ln")),
                       "flush when symbol.num_bits >= 8 - num_output_bits")
    # the symbol loop's header: next() on the chained input iterator
    outer = [bi for bi, t in b.calls() if (t.get("callee") or "").endswith("::next") and "Chain" in (t.get("callee") or "")]
    if not outer:
        raise AnchorLost("compress_impl_unsafe: the symbol loop (Chain::next) was not found")
    for bi, e in tests:
        t = b.blocks[bi]["term"]
        # successor taken when at least a byte remains
        more = None
        for v, tb in t["targets"]:
            if (e[1] in ("Ge", "Gt")) == (v != 0):
                more = tb
        if more is None:
            more = t["otherwise"]
        again = bi in b.reachable_from(more, removed_blocks=frozenset(outer))
        rep.ob(rule, "the test is re-evaluated after a flushed byte", again,
               "while (remaining >= 8) { flush a byte }: the inner cycle does not go through the symbol loop" if again else
               "the test is evaluated once per symbol: a code longer than 16 bits leaves a whole byte unflushed", b.loc(t.get("ln")))


def _arith(e, n, atom_pred):
    """evaluate a closed arithmetic expression over the atom n"""
    if atom_pred(e):
        return n
    if e[0] == "c" and isinstance(e[1], int):
        return e[1]
    if e[0] == "bin" and e[1] in ("Add", "Sub", "Mul", "Div", "Rem", "Shr", "Shl"):
        a, c = _arith(e[2], n, atom_pred), _arith(e[3], n, atom_pred)
        if a is None or c is None:
            return None
        if e[1] == "Add":
            return a + c
        if e[1] == "Sub":
            return a - c
        if e[1] == "Mul":
            return a * c
        if e[1] == "Div":
            return a // c if c else None
        if e[1] == "Rem":
            return a % c if c else None
        if e[1] == "Shr":
            return a >> c
        return a << c
    if e[0] == "call" and e[1].endswith("::div_ceil") and len(e[2]) == 2:
        a, c = _arith(e[2][0], n, atom_pred), _arith(e[2][1], n, atom_pred)
        return None if a is None or not c else -(-a // c)
    if e[0] == "cast":
        return _arith(e[3], n, atom_pred)
    return None


def length_formulas(prog, rep):
    """R5: compressed_len = ceil(bits / 8) and compressed_len_bug = bits / 8 + 1 as functions of compressed_bit_len(input)
    (the compressor emits a last byte iff bits % 8 != 0, or always in the reference-compatible form).  The returned arithmetic
    expression is evaluated for every residue of the bit count (closed form over one atom; no code is run)."""
    rule = "R5-length-formulas"
    from ..bits import BitEval, Unsupported
    be = BitEval(prog)
    for fn, want, text in (("compressed_len", lambda n: -(-n // 8), "ceil(bits / 8)"),
                           ("compressed_len_bug", lambda n: n // 8 + 1, "bits / 8 + 1")):
        b = prog.one(H + "Huffman::" + fn)
        try:
            e, rb = be.ret_expr(b.id)
        except Unsupported as ex:
            rep.ob(rule, fn, False, "cannot read the returned expression: %s" % ex, b.loc())
            continue
        isatom = lambda x: x[0] == "call" and x[1] == H + "Huffman::compressed_bit_len"
        bad = None
        for n in range(0, 64):
            got = _arith(e, n, isatom)
            if got is None:
                bad = "not a closed arithmetic form over compressed_bit_len(input): %s" % show(strip_sites(e))[:100]
                break
            if got != want(n):
                bad = "for a bit length of %d the function returns %d, the compressor emits %d bytes" % (n, got, want(n))
                break
        rep.ob(rule, fn, bad is None, "%s = %s for every residue of the bit count" % (fn, text) if bad is None else bad, b.loc())
    # the compressor's last byte: emitted iff num_output_bits > 0 || bug
    b = prog.one(H + "Huffman::compress_impl_unsafe")
    ir = IR(b)
    rets = [bi for bi in sorted(b.live) for st in b.blocks[bi]["st"]
            if st["k"] == "assign" and st["r"]["k"] == "agg" and st["r"].get("variant") == "Ok"]
    ok = False
    for bi in sorted(b.live):
        t = b.blocks[bi]["term"]
        if t["k"] == "switch":
            e = ir.term_operand(bi, t["o"])
            if e[0] == "bin" and e[1] in ("Gt", "Ne") and e[3][0] == "c" and e[3][1] == 0 and bi not in set(x for c in b.sccs() for x in c):
                ok = True
    rep.ob(rule, "last byte iff bits pending", ok, "after the symbol loop a final byte is written iff num_output_bits > 0 (or in the reference-compatible form)"
           if ok else "the trailing-byte test after the symbol loop was not found", b.loc())
