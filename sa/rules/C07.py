"""C07 -- Huffman codec: table agreement, bounded write then commit, decoder progress, totality."""
from .common import standard_totality
from ..facts import AnchorLost, path_matches
from ..ir import IR, show, walk, strip_sites
from .C19 import caller_protocol

LEVEL = "other"
EXPLANATION = (
    "Three necessary conditions plus totality; losslessness of the bit arithmetic, exactness of compressed_len and byte equality "
    "with the C++ reference are value-level / cross-language and are not decided, nor are tables built at run time.  R1 "
    "(encoder/decoder table agreement, static validation of the evaluated constant instances::teeworlds::INSTANCE): the 513 nodes "
    "form a tree rooted at ROOT_IDX (every node but the root is referenced exactly once by an inner node, all child indices are "
    "in range, so the decoder's walk cannot cycle); each leaf's stored (bits, num_bits) equals its root path read LSB-first (the "
    "compressor's table and the decompressor's tree denote the same prefix code); max num_bits <= 24 (the u24 assert and the "
    "3*len+3 bound of compress_into_vec); leaves are the indices < NUM_SYMBOLS (justifies assert_u8 after the EOF test).  R2 "
    "(bounded write then commit): in compress_impl / decompress_impl the argument of the unsafe advance is the Ok value of the "
    "function that received uninitialized_mut(); inside compress_impl_unsafe / decompress_unsafe every `len += 1` is preceded on "
    "its path by a store through output.next() of the slice iterator whose None leaves the function.  R3 (decoder progress): on "
    "every path from the leaf branch back to the outer loop there is the EOF exit or a consumed output slot.  R4: panic sites "
    "reachable from decompress* / compress* are discharged or reviewed against R1's facts."
)
ASSUMPTIONS = ["the constant is little-endian u16 pairs as laid out by rustc on this target", "reviewed table lines confirmed by reading the code"]
TABLES = ["huffman", "buffer", "common", "looptable", "postfix"]
H = "libtw2_huffman::"


BIG = "needs an input of more than 2^61 bytes: "
EXTRA = {
    H + 'Huffman::compress_into_vec | overflow | Mul | 0': BIG + "input.len() * 3",
    H + 'Huffman::compress_into_vec | overflow | Add | 0': BIG + "input.len() * 3 + 3",
    H + 'Huffman::compress_into_vec | unwrap | unwrap<-Huffman::compress | 0':
        "the Vec has capacity 3n + 3 and every symbol (n input bytes + EOF) has a code of at most 24 bits (R1: longest code 15 bits), "
        "so at most ceil(24 (n + 1) / 8) = 3n + 3 bytes are written and compress cannot report CapacityError",
    H + 'Huffman::compress_into_vec_bug | overflow | Mul | 0': BIG + "input.len() * 3",
    H + 'Huffman::compress_into_vec_bug | overflow | Add | 0': BIG + "input.len() * 3 + 4",
    H + 'Huffman::compress_into_vec_bug | unwrap | unwrap<-Huffman::compress_bug | 0':
        "same bound as compress_into_vec plus the one extra byte of the reference-compatible form (capacity 3n + 4)",
    H + 'Huffman::compressed_bit_len | overflow | Add | 0': "sum of at most n + 1 code lengths of at most 24 bits each: below 2^64 for any in-memory input",
    H + 'Huffman::compressed_bit_len::{closure#1} | overflow | Add | 0': "partial sums of the same bounded series",
    H + 'Huffman::compressed_len | overflow | Add | 0': "bit length + 7 with the bit length bounded as above",
    H + 'Huffman::compressed_len_bug | overflow | Add | 0': "bit length + 8 with the bit length bounded as above",
    H + 'Huffman::compressed_len_bug | overflow | Div | 0': "constant divisor 8",
    H + 'Huffman::decompress_into_vec | overflow | Mul | 0': BIG + "input.len() * 8",
    H + 'Huffman::symbol_bit_length | unwrap | unwrap_err<-Huffman::get_node | 0':
        "callers pass a byte (< 256) or EOF (256): below NUM_SYMBOLS, where get_node returns Err(symbol) (R1: get_node splits at NUM_SYMBOLS)",
    H + 'compress | precondition | ' + H + 'Huffman::compress_into_vec | 0': BIG + "forwarded size arithmetic of compress_into_vec",
    H + 'decompress | precondition | ' + H + 'Huffman::decompress_into_vec | 0': BIG + "forwarded size arithmetic of decompress_into_vec",
}


def run(ctx, rep):
    prog = ctx.prog
    # the codec on the built-in table; tables built at run time from arbitrary frequencies are outside what is decided
    names = ("compress", "compress_into", "decompress", "decompress_into", "Huffman::compress", "Huffman::compress_bug",
             "Huffman::compress_into_vec", "Huffman::compress_into_vec_bug", "Huffman::decompress", "Huffman::decompress_into_vec",
             "Huffman::compressed_len", "Huffman::compressed_len_bug", "Huffman::compressed_bit_len")
    ents = [H + n for n in names if (H + n) in prog.bodies]
    if len(ents) < 8:
        raise AnchorLost("huffman: public codec entry points not found (%d)" % len(ents))
    standard_totality(ctx, rep, "C07", TABLES, rule="R4-no-panic", entries=ents, extra_reviewed=EXTRA)
    table(prog, rep)
    bounded_write(ctx, rep)
    progress(prog, rep)


def table(prog, rep):
    rule = "R1-table-agreement"
    c = prog.const(H + "instances::teeworlds::INSTANCE")
    raw = bytes.fromhex(c.get("bytes") or "")
    nn = prog.constv(H + "NUM_NODES")
    ns = prog.constv(H + "NUM_SYMBOLS")
    root = prog.constv(H + "ROOT_IDX")
    eof = prog.constv(H + "EOF")
    if len(raw) != nn * 4:
        raise AnchorLost("Huffman table constant has %d bytes, expected %d" % (len(raw), nn * 4))
    nodes = [(int.from_bytes(raw[i * 4:i * 4 + 2], "little"), int.from_bytes(raw[i * 4 + 2:i * 4 + 4], "little")) for i in range(nn)]
    at = "%s:%s" % (c.get("file"), c.get("ln"))
    rep.ob(rule, "constants", nn == 2 * ns - 1 and root == nn - 1 and eof == ns - 1, "NUM_NODES=%d NUM_SYMBOLS=%d ROOT_IDX=%d EOF=%d" % (nn, ns, root, eof), at)
    refs = {}
    bad = []
    for i in range(ns, nn):
        for ch in nodes[i]:
            if ch >= nn:
                bad.append((i, ch))
            refs[ch] = refs.get(ch, 0) + 1
    rep.ob(rule, "child indices in range", not bad, "every child index of the %d inner nodes is < %d" % (nn - ns, nn) if not bad else "out-of-range children: %s" % bad[:4], at)
    once = all(refs.get(i, 0) == 1 for i in range(nn) if i != root) and refs.get(root, 0) == 0
    rep.ob(rule, "tree shape", once, "every node except the root is referenced exactly once, the root never", at)
    # walk from the root
    paths = {}
    st = [(root, 0, 0)]
    seen = set()
    cyc = False
    while st:
        i, bits, n = st.pop()
        if i in seen:
            cyc = True
            continue
        seen.add(i)
        if i < ns:
            paths[i] = (bits, n)
        else:
            for b in (0, 1):
                st.append((nodes[i][b], bits | (b << n), n + 1))
    rep.ob(rule, "walk from the root reaches every node once", not cyc and len(seen) == nn, "%d of %d nodes reached, cycle: %s" % (len(seen), nn, cyc), at)
    mism = []
    maxbits = 0
    for i in range(ns):
        c0, c1 = nodes[i]
        num_bits = c0 >> 8
        bits = ((c0 & 0xff) << 16) | c1
        maxbits = max(maxbits, num_bits)
        if paths.get(i) != (bits, num_bits):
            mism.append((i, (bits, num_bits), paths.get(i)))
    rep.ob(rule, "leaf codes equal their root paths (LSB first)", not mism,
           "all %d symbols: stored (bits, num_bits) == path from the root" % ns if not mism else "mismatching symbols: %s" % mism[:3], at)
    rep.ob(rule, "code lengths fit the u24 representation", 0 < maxbits <= 24, "longest code has %d bits" % maxbits, at)
    rep.extra["huffman_table"] = {"nodes": nn, "symbols": ns, "max_code_bits": maxbits}
    # the decoder treats idx < NUM_SYMBOLS as leaves: get_node compares with NUM_SYMBOLS
    g = prog.one(H + "Huffman::get_node")
    gir = IR(g)
    ok = False
    for bi in sorted(g.live):
        t = g.blocks[bi]["term"]
        if t["k"] == "switch":
            e = gir.term_operand(bi, t["o"])
            if e[0] == "bin" and e[1] in ("Ge", "Lt") and e[3][0] == "c" and e[3][1] == ns:
                ok = True
    rep.ob(rule, "get_node splits at NUM_SYMBOLS", ok, "indices >= NUM_SYMBOLS are inner nodes, below are symbols", g.loc())
    # to_symbol_repr layout agrees with the validation above
    tsr = prog.one(H + "Node::to_symbol_repr")
    tir = IR(tsr)
    e = None
    for bi in sorted(tsr.live):
        for si, st_ in enumerate(tsr.blocks[bi]["st"]):
            if st_["k"] == "assign" and st_["r"]["k"] == "agg" and (st_["r"].get("adt") or "").endswith("SymbolRepr"):
                e = dict(tir.rvalue(st_["r"], (bi, si))[4])
    okl = False
    if e is not None:
        tb, tn = show(e.get("bits")), show(e.get("num_bits"))
        okl = "255" in tb and "16" in tb and "children[0]" in tb.replace("-", "") and "8" in tn
    rep.ob(rule, "SymbolRepr layout", okl, "bits = (children[0] & 0xff) << 16 | children[1], num_bits = children[0] >> 8", tsr.loc())


def bounded_write(ctx, rep):
    rule = "R2-bounded-write-then-commit"
    prog = ctx.prog
    # caller protocol (shared with C19 R4), restricted to the huffman callers
    from ..report import Report
    sub = Report("C19", rep.tier, rep.seed)
    caller_protocol(ctx, sub)
    n = 0
    for o in sub.obs:
        if "libtw2_huffman" in o["key"]:
            n += 1
            rep.ob(rule, o["key"].split(" | ", 2)[2], o["ok"], o["detail"], o["at"])
    rep.floor(rule, n, 2, "advance() calls in the huffman crate")
    for fn in ("compress_impl_unsafe", "decompress_unsafe"):
        b = prog.one(H + "Huffman::" + fn)
        ir = IR(b)
        # stores to `len`
        lens = []
        for bi in sorted(b.live):
            for si, st in enumerate(b.blocks[bi]["st"]):
                if st["k"] == "assign" and not st["p"].get("pr") and (ir.lname(st["p"]["l"]) or "") == "len":
                    v = ir.rvalue(st["r"], (bi, si))
                    if v[0] == "bin" and v[1] == "Add":
                        lens.append((bi, si, st.get("ln")))
        rep.floor(rule, len(lens), 1, "len += 1 in " + fn)
        for bi, si, ln in lens:
            # the closest preceding `output.next()` Some edge dominates the increment, with no other increment in between
            ok = False
            for e, rel, v, edge, dty in ir.edge_conditions(bi):
                txt = show(e)
                if e[0] == "discr" and ("ok_or" in txt or "next" in txt) and "output" in txt:
                    ty = ir.type_of(e[1]) or ""
                    if ("Result" in ty or "ControlFlow" in ty or "branch" in txt) and rel == "==" and v == 0:
                        ok = True
                    if "Option" in ty and ((rel == "==" and v == 1) or (rel == "notin" and 0 in v)):
                        ok = True
            rep.ob(rule, "%s | len += 1 after a slot was obtained" % fn, ok,
                   "the increment is dominated by the success edge of output.next().ok_or(())?", b.loc(ln))
        # output is the slice iterator over the buffer parameter
        oki = False
        for l, ds in ir.defs.items():
            if (ir.lname(l) or "") == "output" and len(ds) == 1:
                init = ir.var_init(l)
                if init is not None and "into_iter" in show(init) and "buffer" in show(init):
                    oki = True
        rep.ob(rule, "%s | output iterates the given buffer" % fn, oki, "`output` = buffer.into_iter() (IterMut over the caller's slice)", b.loc())


def progress(prog, rep):
    rule = "R3-decoder-progress"
    b = prog.one(H + "Huffman::decompress_unsafe")
    ir = IR(b)
    # the leaf branch: get_node(new_idx) is Err.  From its entry, every path back into the loop passes output.next() (a consumed
    # slot) -- or leaves the loop (EOF break / `?` return)
    leaf_entries = []
    for bi in sorted(b.live):
        t = b.blocks[bi]["term"]
        if t["k"] == "switch":
            e = ir.term_operand(bi, t["o"])
            if e[0] == "discr" and "get_node" in show(e[1]) and "ROOT_IDX" not in show(e[1]):
                for v, tb in t["targets"]:
                    if v == 1:
                        leaf_entries.append(tb)
                if not any(v == 1 for v, _ in t["targets"]):
                    leaf_entries.append(t["otherwise"])
    rep.floor(rule, len(leaf_entries), 1, "leaf branch in decompress_unsafe")
    outs = [bi for bi, t in b.calls() if (t.get("callee") or "").endswith("::next") and "output" in show(ir.term_operand(bi, t["args"][0]))]
    loops_ = b.sccs()
    outer = max(loops_, key=len) if loops_ else []
    for le in leaf_entries:
        reach = b.reachable_from(le, removed_blocks=frozenset(outs))
        # blocks of the loop that can be re-entered without consuming a slot: the loop header side
        hdrs = [bi for bi, t in b.calls() if bi in outer and (t.get("callee") or "").endswith("::next") and "input" in show(ir.term_operand(bi, t["args"][0]))]
        bits_next = [bi for bi, t in b.calls() if bi in outer and (t.get("callee") or "").endswith("Bits as std::iter::Iterator>::next")]
        bad = [h for h in hdrs + bits_next if h in reach]
        rep.ob(rule, "leaf either exits or consumes an output slot", not bad and bool(outs),
               "from the leaf branch the decoder cannot get back to reading bits without passing output.next() (or leaving)" if not bad else
               "a leaf can be decoded without consuming output: the loop could spin on garbage", b.loc())
