"""C19 -- the uninitialised-buffer abstraction never overruns and counts exactly (structural half)."""
from .common import standard_totality
from ..facts import AnchorLost, path_matches, norm_path
from ..ir import IR, show, walk, strip_sites
from ..guards import Reasoner, Lin
from ..effects import effects

LEVEL = "other"
EXPLANATION = (
    "R5 (no panic / capacity errors): every panic site reachable from the public API and the Drop impls of libtw2_buffer "
    "follows from its dominating guards or is a reviewed line (cap_at now caps with min()).  R1 (unsafe inventory, who-may-use): "
    "the set of `unsafe` blocks / unsafe fns / unsafe impls of the crate and the set of workspace callers of "
    "BufferRef::advance, uninitialized_mut, wildly_unsafe, read_buffer_ref equals a frozen, reviewed table; anything new is a "
    "violation until reviewed.  R2 (write-back exactness): in each Drop of an intermediate the owner's new length is exactly "
    "old_len + initialized (Vec/ArrayVec: set_len(len + initialized); SliceRef: narrowing to [..initialized]; nested view: "
    "parent.initialized_ += initialized), and the raw slice handed to BufferRef::new starts at ptr + len with length capacity - len.  "
    "R3 (counter discipline): the only stores to *initialized_ are `advance` (dominated by its assert) and `extend` (one += 1 per "
    "slot taken from the iterator over buffer[initialized..]); BufferRef values are constructed only in BufferRef::new, cap_at and "
    "the intermediates.  R4 (caller protocol): at each workspace call advance(n), n is the value returned by the callee that "
    "received that view's uninitialized_mut().  The address-sanitizer half of the property is dynamic by definition and not "
    "applicable to static analysis; lifetimes are enforced by the borrow checker (witness crate in thorough tier)."
)
ASSUMPTIONS = [
    "std / arrayvec functions outside the precondition table of sa/panics.py do not panic",
    "Vec::set_len / ArrayVec::set_len / slice::from_raw_parts_mut behave as documented",
    "reviewed table lines were confirmed by reading the code",
]
TABLES = ["buffer", "common", "looptable", "postfix"]

B = "libtw2_buffer::"

# R1: frozen inventory of unsafe in the buffer crate: (function, number of unsafe blocks) and unsafe fns
UNSAFE_FNS = {
    B + "wildly_unsafe": "lifetime extension helper, private",
    B + "BufferRef::advance": "commit n bytes the caller initialised (contract checked by R4)",
    B + "BufferRef::uninitialized_mut": "hands out the uninitialised tail (callers listed in R4)",
    B + "traits::read_buffer_ref": "fills uninitialized_mut() from a reader and commits the count read (R4); unsafe because it "
                                   "trusts the reader not to read the uninitialised bytes and to report an honest count",
}
# unsafe marker impls: `ReadBufferMarker` asserts that the type's Read impl never reads from the buffer it is given
MARKER_IMPLS = {"std::fs::File", "std::io::Empty", "std::io::Repeat", "std::io::Stdin", "std::net::TcpStream",
                "std::io::Cursor<T>", "std::io::Take<T>", "std::io::Chain<T, U>", "std::io::BufReader<T>", "std::io::StdinLock<'a>",
                "&'a std::fs::File", "&'a std::net::TcpStream", "&'a [u8]", "&'a mut T", "std::boxed::Box<T>",
                "std::process::ChildStdout", "std::process::ChildStderr", "std::os::unix::net::UnixStream",
                "&'a std::os::unix::net::UnixStream"}
UNSAFE_BLOCK_FNS = {
    B + "impls::vec::VecBuffer::buffer": "raw tail slice of the Vec: ptr + len, capacity - len (R2)",
    "<" + B + "impls::vec::VecBuffer as std::ops::Drop>::drop": "set_len(len + initialized) (R2)",
    B + "impls::arrayvec::ArrayVecBuffer::buffer": "raw tail slice of the ArrayVec (R2)",
    "<" + B + "impls::arrayvec::ArrayVecBuffer as std::ops::Drop>::drop": "set_len(len + initialized) (R2)",
    B + "impls::slice::SliceBuffer::buffer": "wildly_unsafe lifetime extension of the caller's slice",
    B + "impls::slice_ref::SliceRefBuffer::buffer": "wildly_unsafe lifetime extension",
    "<" + B + "impls::slice_ref::SliceRefBuffer as std::ops::Drop>::drop": "narrow the referenced slice to [..initialized] (R2)",
    B + "impls::buffer_ref::BufferRefBuffer::buffer": "wildly_unsafe view of the parent's uninitialised tail",
    B + "traits::read_buffer_ref": "reader fills uninitialized_mut(), then advance(n read) (R4)",
    "<T as " + B + "traits::ReadBufferRef>::read_buffer_ref": "same",
}
# R4: workspace callers of advance / uninitialized_mut outside the crate's own impls
ADVANCE_CALLERS = {
    "libtw2_huffman::Huffman::compress_impl": "advance(len) with len = Ok value of compress_impl_unsafe(uninitialized_mut())",
    "libtw2_huffman::Huffman::decompress_impl": "advance(len) with len = Ok value of decompress_unsafe(uninitialized_mut())",
    B + "traits::read_buffer_ref": "advance(n) with n = Ok value of reader.read(uninitialized_mut())",
    "libtw2_teehistorian::bitmagic::CallbackExt::read_buffer_ref": "advance(n) with n = Some value of callback.read_at_most(uninitialized_mut())",
    # seen only by the thorough tier (crates outside the library core)
    "libtw2_huffman_reference::Huffman::compress_impl": "advance(l) with l = the non-negative return of the C reference's huffman_compress(.., uninitialized_mut().as_mut_ptr(), remaining()) (FFI trusted to write l <= remaining bytes)",
    "libtw2_huffman_reference::Huffman::decompress_impl": "same with huffman_decompress",
    "libtw2_socket::Socket::receive_impl": "advance(len) with len = Ok value of UdpSocket::recv_from(uninitialized_mut()), carried through non_block() and Result::map into the closure",
}
# R4 exceptions: the amount reaches advance through a closure parameter, which the def-use walk does not cross
ADVANCE_AMOUNT_REVIEWED = {
    "libtw2_socket::Socket::receive_impl::{closure#0}":
        "`result.map(|(len, addr)| { buf.advance(len); .. })`: result is the Some/Ok value of non_block(v4|v6.recv_from(buf_slice)) with "
        "buf_slice = buf.uninitialized_mut() of the same view taken at the top of the function; recv_from returns the number of bytes "
        "it wrote at the start of the slice",
}


def run(ctx, rep):
    R, pa = standard_totality(ctx, rep, "C19", TABLES, rule="R5-no-panic")
    unsafe_inventory(ctx, rep)
    write_back(ctx, rep)
    counter_discipline(ctx, rep)
    caller_protocol(ctx, rep)
    if ctx.tier == "thorough":
        from .. import witness
        n = witness.run(ctx, rep, "R6-compile-fail-witnesses", ("W1", "W2", "W3", "W4", "W5", "W6"))
        rep.floor("R6-compile-fail-witnesses", n, 6, "type-level witnesses W1-W6 of witness/src/lib.rs")


def unsafe_inventory(ctx, rep):
    rule = "R1-unsafe-inventory"
    prog = ctx.prog
    seen_fns = set()
    seen_blocks = set()
    for b in prog.bodies.values():
        if b.crate != "libtw2_buffer" or b.is_test:
            continue
        if b.raw.get("unsafe"):
            seen_fns.add(b.id)
        if b.raw.get("unsafe_blocks") and not b.raw.get("from_exp"):
            seen_blocks.add(b.id)
    for f in sorted(seen_fns):
        ok = f in UNSAFE_FNS
        rep.ob(rule, "unsafe fn | " + f, ok, "reviewed: " + UNSAFE_FNS[f] if ok else "new `unsafe fn` in the buffer crate (not in the reviewed inventory)", prog.bodies[f].loc())
    for f in sorted(seen_blocks):
        if f in seen_fns:
            continue
        ok = any(f == k or f.endswith(k) for k in UNSAFE_BLOCK_FNS) or _match_unsafe_block(f)
        rep.ob(rule, "unsafe block | " + f, ok, "reviewed: " + (_reason(f) or "") if ok else
               "new `unsafe` block in the buffer crate (not in the reviewed inventory)", prog.bodies[f].loc())
    rep.floor(rule, len(seen_fns), 3, "unsafe fns in libtw2_buffer")
    rep.floor(rule, len(seen_blocks), 6, "functions with unsafe blocks in libtw2_buffer")
    # unsafe impls in the crate
    uimpl = [i for i in prog.impls if i.get("crate") == "libtw2_buffer" and i.get("unsafe") and not i.get("exp")]
    for i in uimpl:
        ok = i["trait"].endswith("traits::ReadBufferMarker") and (i["self_ty"] in MARKER_IMPLS or i["self_ty"].startswith("std::") or i["self_ty"].startswith("&"))
        rep.ob(rule, "unsafe impl | %s for %s" % (i["trait"].rsplit("::", 1)[-1], i["self_ty"]), ok,
               "marker impl for a std reader (its Read impl only writes the buffer)" if ok else
               "new unsafe impl in the buffer crate: %s for %s" % (i["trait"], i["self_ty"]), "%s:%s" % (i.get("file"), i.get("ln")))
    # who may call the unsafe API
    callers = {}
    targets = (B + "BufferRef::advance", B + "BufferRef::uninitialized_mut", B + "wildly_unsafe")
    for b in prog.bodies.values():
        if b.is_test:
            continue
        for bi, t in b.calls():
            f = t.get("callee") or ""
            if f in targets:
                callers.setdefault(f, set()).add(b.id.split("::{closure")[0])
    for f, cs in sorted(callers.items()):
        for c in sorted(cs):
            ok = c.startswith(B) or c.startswith("<" + B) or c in ADVANCE_CALLERS or c.startswith("<T as " + B)
            rep.ob(rule, "caller of %s | %s" % (f.rsplit("::", 1)[-1], c), ok,
                   "reviewed caller of the unsafe buffer API" if ok else "new caller of the unsafe buffer API `%s`" % f, None)


def _match_unsafe_block(f):
    return any(f.endswith(k.split("::", 1)[-1]) and "libtw2_buffer" in f for k in UNSAFE_BLOCK_FNS)


def _reason(f):
    for k, v in UNSAFE_BLOCK_FNS.items():
        if f == k or f.endswith(k.split("::", 1)[-1]):
            return v
    return None


def write_back(ctx, rep):
    rule = "R2-write-back"
    prog = ctx.prog
    for kind in ("vec::VecBuffer", "arrayvec::ArrayVecBuffer"):
        did = "<%simpls::%s as std::ops::Drop>::drop" % (B, kind)
        body = prog.one(did)
        ir = IR(body)
        sl = [(bi, t) for bi, t in body.calls() if (t.get("callee") or "").endswith("::set_len")]
        rep.floor(rule, len(sl), 1, "set_len in " + did)
        for bi, t in sl:
            a = ir.term_operand(bi, t["args"][1])
            # Add(len(vec), self.initialized)
            ok = False
            if a[0] == "bin" and a[1] == "Add":
                x, y = a[2], a[3]
                for u, v in ((x, y), (y, x)):
                    if u[0] == "call" and u[1].endswith("::len") and v[0] == "field" and v[2] == "initialized":
                        ok = True
            rep.ob(rule, "%s::drop | set_len(len + initialized)" % kind, ok,
                   "the owner grows by exactly the initialised count: set_len(%s)" % show(a), body.loc(t.get("ln")))
        # the buffer() side: from_raw_parts_mut(ptr.add(len), capacity - len)
        bid = "%simpls::%s::buffer" % (B, kind)
        bb = prog.one(bid)
        bir = IR(bb)
        fr = [(bi, t) for bi, t in bb.calls() if (t.get("callee") or "").endswith("from_raw_parts_mut")]
        rep.floor(rule, len(fr), 1, "from_raw_parts_mut in " + bid)
        for bi, t in fr:
            ptr = bir.term_operand(bi, t["args"][0])
            n = bir.term_operand(bi, t["args"][1])
            okn = n[0] == "bin" and n[1] == "Sub" and "capacity" in show(n[2]) and "len" in show(n[3])
            okp = any(isinstance(x, tuple) and x and x[0] == "call" and (x[1].endswith("::add") or x[1].endswith("::offset")) and
                      "len" in show(x[2][1]) for x in walk(ptr))
            rep.ob(rule, "%s::buffer | tail slice" % kind, okn and okp,
                   "uninitialised tail = (ptr + len, capacity - len): ptr=%s len=%s" % (show(ptr)[:70], show(n)[:70]), bb.loc(t.get("ln")))
    # slice_ref: narrowing to [..initialized]
    did = "<%simpls::slice_ref::SliceRefBuffer as std::ops::Drop>::drop" % B
    body = prog.one(did)
    ir = IR(body)
    ok = False
    for bi, t in body.calls():
        f = t.get("callee") or ""
        if "index" in f:
            r = ir.term_operand(bi, t["args"][1])
            if r[0] == "agg" and (r[2] or "").endswith("RangeTo") and "initialized" in show(dict(r[4]).get("end")):
                ok = True
    rep.ob(rule, "slice_ref::SliceRefBuffer::drop | [..initialized]", ok, "the referenced slice is narrowed to the initialised prefix", body.loc())
    # nested view: parent.initialized_ += self.initialized
    did = "<%simpls::buffer_ref::BufferRefBuffer as std::ops::Drop>::drop" % B
    body = prog.one(did)
    ir = IR(body)
    ok = False
    for bi in sorted(body.live):
        for si, st in enumerate(body.blocks[bi]["st"]):
            if st["k"] == "assign" and st["p"].get("pr"):
                pe = ir.place(st["p"], (bi, si))
                if "initialized_" in show(pe):
                    v = ir.rvalue(st["r"], (bi, si))
                    if v[0] == "bin" and v[1] == "Add" and "initialized_" in show(v[2]) and show(v[3]).endswith("initialized"):
                        ok = True
    rep.ob(rule, "buffer_ref::BufferRefBuffer::drop | parent += initialized", ok,
           "the parent view's counter grows by exactly the nested view's initialised count", body.loc())


def counter_discipline(ctx, rep):
    rule = "R3-counter-discipline"
    prog = ctx.prog
    # every store through `initialized_` in the crate
    writers = {}
    for b in prog.bodies.values():
        if b.crate != "libtw2_buffer" or b.is_test:
            continue
        ir = IR(b)
        for bi in sorted(b.live):
            for si, st in enumerate(b.blocks[bi]["st"]):
                if st["k"] == "assign" and st["p"].get("pr") and any(x == "*" for x in st["p"]["pr"]):
                    pe = ir.place(st["p"], (bi, si))
                    root, path = ir.access_path(pe)
                    if path and path[-1] == "initialized_":
                        writers.setdefault(b.id, []).append((bi, si, ir.rvalue(st["r"], (bi, si))))
    allowed = {B + "BufferRef::advance", B + "BufferRef::extend", "<%simpls::buffer_ref::BufferRefBuffer as std::ops::Drop>::drop" % B}
    for w in sorted(writers):
        rep.ob(rule, "writer of *initialized_ | " + w, w in allowed,
               "reviewed writer of the initialised counter" if w in allowed else "new writer of BufferRef.initialized_", prog.bodies[w].loc())
    rep.floor(rule, len(writers), 3, "writers of *initialized_")
    # advance: the increment is dominated by the assert `init + n <= len`
    adv = prog.one(B + "BufferRef::advance")
    air = IR(adv)
    rs = Reasoner(air, prog)
    for (bi, si, v) in writers.get(adv.id, []):
        facts, nes = rs.facts_at(bi)
        # goal: new value <= len(buffer)
        lv = rs.lin(v)
        ll = None
        for x in walk(("x",) + tuple(f for f in [])):
            pass
        # find len(self.buffer) atom among the facts
        goal_ok = False
        for f in facts:
            for a in f.co:
                if a[0] == "len" and "buffer" in show(a):
                    g = lv.sub(Lin.atom(a)) if lv is not None else None
                    if g is not None and rs.prove(g, facts):
                        goal_ok = True
        rep.ob(rule, "advance | increment bounded by the assert", goal_ok,
               "`*initialized_ += n` is dominated by assert!(initialized + n <= buffer.len())" if goal_ok else
               "the store to *initialized_ in advance is not bounded by buffer.len()", adv.loc())
    # the two asserts are exact: advance demands initialized + n <= len (filling the buffer completely is allowed),
    # cap_at demands an untouched view (initialized == 0)
    from .common import asserted_relations, want_relations
    want_relations(rep, rule, "advance | assert is `initialized + n <= buffer.len()`", [r for r, ln in asserted_relations(adv, air)],
                   [("initialized_", "Le", "len(")], adv.loc(), "advance asserts the new split point is inside the buffer, the end included")
    cap = prog.one(B + "BufferRef::cap_at")
    want_relations(rep, rule, "cap_at | assert is `initialized == 0`", [r for r, ln in asserted_relations(cap, IR(cap))],
                   [("initialized_", "Eq", 0)], cap.loc(), "cap_at asserts the view is untouched")
    # extend: each += 1 is in the loop, after a successful next() of the iterator over buffer[init..]
    ext = prog.one(B + "BufferRef::extend")
    eir = IR(ext)
    for (bi, si, v) in writers.get(ext.id, []):
        conds = eir.edge_conditions(bi)
        ok1 = v[0] == "bin" and v[1] == "Add" and v[3][0] == "c" and v[3][1] == 1
        ok2 = False
        for e, rel, val, edge, dty in conds:
            if e[0] == "discr" and "next" in show(e[1]) and ((rel == "==" and val == 1) or (rel == "notin" and 0 in val)):
                base = e[1]
                # the iterator must be the one over the uninitialised tail (self.buffer[init..]), not the caller's byte iterator
                it = base[2][0] if base[0] == "call" and base[2] else None
                while it is not None and it[0] in ("ref", "deref"):
                    it = it[2] if it[0] == "ref" else it[1]
                init = eir.var_init(it[1]) if it is not None and it[0] == "var" else None
                if init is not None and "self.buffer" in show(strip_sites(init)):
                    ok2 = True
        rep.ob(rule, "extend | one increment per slot", ok1 and ok2,
               "`*initialized_ += 1` happens only after the slot iterator yielded Some" if ok1 and ok2 else
               "increment in extend is not paired with a successful buf_iter.next()", ext.loc())
    # constructors of BufferRef aggregates
    ctors = set()
    for b in prog.bodies.values():
        if b.is_test:
            continue
        for bi in b.live:
            for st in b.blocks[bi]["st"]:
                if st["k"] == "assign" and st["r"]["k"] == "agg" and norm_path(st["r"].get("adt") or "") == B + "BufferRef":
                    ctors.add(b.id)
    okc = ctors <= {B + "BufferRef::new", B + "BufferRef::cap_at"}
    rep.ob(rule, "BufferRef constructors", okc, "BufferRef values are built only in %s" % sorted(ctors), None)
    newc = set()
    for b in prog.bodies.values():
        if b.is_test:
            continue
        for bi, t in b.calls():
            if (t.get("callee") or "") == B + "BufferRef::new":
                newc.add(b.id)
    oknew = all(c.startswith(B + "impls::") for c in newc)
    rep.ob(rule, "callers of BufferRef::new", oknew and len(newc) >= 4, "BufferRef::new is called only by the intermediates: %s" % sorted(newc), None)


def caller_protocol(ctx, rep):
    rule = "R4-caller-protocol"
    prog = ctx.prog
    n = 0
    for b in prog.bodies.values():
        if b.is_test:
            continue
        ir = None
        for bi, t in b.calls():
            if (t.get("callee") or "") != B + "BufferRef::advance":
                continue
            n += 1
            ir = ir or IR(b)
            recv = ir.term_operand(bi, t["args"][0])
            amount = ir.term_operand(bi, t["args"][1])
            # amount must be (the Ok payload of) a call one of whose arguments is uninitialized_mut() of the same view
            ok = False
            for x in walk(amount):
                if isinstance(x, tuple) and x and x[0] == "call":
                    for a in x[2]:
                        for y in walk(a):
                            if isinstance(y, tuple) and y and y[0] == "call" and y[1] == B + "BufferRef::uninitialized_mut":
                                if strip_sites(ir.access_path(y[2][0])) == strip_sites(ir.access_path(recv)):
                                    ok = True
            if not ok and b.id in ADVANCE_AMOUNT_REVIEWED:
                rep.ob(rule, "%s | advance amount" % b.id, True, "reviewed: " + ADVANCE_AMOUNT_REVIEWED[b.id], b.loc(t.get("ln")))
                rep.exempt("%s | advance amount" % b.id, ADVANCE_AMOUNT_REVIEWED[b.id])
                continue
            rep.ob(rule, "%s | advance amount" % b.id, ok,
                   "advance(n): n is returned by the callee that was given this view's uninitialized_mut(): %s" % show(amount)[:120]
                   if ok else "advance(%s) is not the result of the call that filled uninitialized_mut()" % show(amount)[:120], b.loc(t.get("ln")))
    rep.floor(rule, n, 3, "workspace calls of BufferRef::advance")
