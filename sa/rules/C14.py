"""C14 -- generated message and object codecs match the protocol descriptions."""
from .common import standard_totality
from ..facts import AnchorLost, path_matches
from ..ir import IR, show, walk, strip_sites

LEVEL = "other"
EXPLANATION = (
    "R4 (decode never panics): every panic site reachable from any decode*/from_i32 function of the four generated protocol "
    "crates, gamenet-common and gamenet-snap follows from its dominating guards (e.g. `read_raw(2)?` then s[0], s[1] uses the "
    "length summary of read_raw) or is a reviewed line.  R1-R3 (description conformance) are evaluated by sa/rules/C14 against "
    "the JSON descriptions in gamenet/generate/spec."
)
ASSUMPTIONS = ['std / arrayvec / zerocopy functions outside the precondition table of sa/panics.py do not panic', 'caller-supplied callbacks (Warn, Callback, Read) do not panic', 'reviewed table lines (sa/rules/tables/*.py) were confirmed by reading the code; SUSPECT lines are not trusted', 'allocation failure, stack exhaustion and inputs above 2 GiB are out of scope']
TABLES = ["net","snapshot","datafile","map","demo","teehistorian","buffer","common","huffman","packer","gamenet","looptable","postfix"]


def run(ctx, rep):
    R, pa = standard_totality(ctx, rep, "C14", TABLES, rule="R-no-panic")
    specific(ctx, rep, R, pa)


def specific(ctx, rep, R, pa):
    pass
