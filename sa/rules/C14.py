"""C14 -- generated message and object codecs match the protocol descriptions (translation validation)."""
import json
import os
import uuid as _uuid

from .common import standard_totality
from .. import extract
from ..facts import AnchorLost, path_matches
from ..ir import IR, show, walk, strip_sites

LEVEL = "translation_validation"
EXPLANATION = (
    "Translation validation of the compiled codecs against the JSON descriptions, read from MIR; no codec is executed.  The "
    "checker has its own reading of every member kind of the descriptions as a wire signature (primitive read + acceptance "
    "constraint) and compares it with the signature recovered from the compiled decode / decode_inner / encode functions; it "
    "shares no code with gamenet/generate.  R0 (constraint helpers): the Ok value of in_range / at_least / positive / to_bool / "
    "sanitize is produced exactly under the comparisons their names promise.  R1 (decode layout): for every message and snapshot "
    "object of the four descriptions, the struct returned by its decoder has one field per described member, in order, each read "
    "by the primitive and constrained by the bounds / enum / flag the description gives, the reads happen in member order (each "
    "read dominates the next), finish() is called before the value is returned.  R1e (encode layout): the encoder writes the same "
    "fields in the same order with the inverse primitive and asserts the described constraint of every constrained member.  R2 "
    "(tables): id constants equal the described ids, decode_msg / decode_obj / decode_connless dispatch every described id to its "
    "own decoder and nothing else, msg_id / obj_type_id / connless_id return it, obj_size is the number of 32-bit words of the "
    "description, enums' from_i32 / to_i32 map exactly the described values, flag and constant values agree.  R3 (id packing): "
    "decode_id splits the first integer into (id >> 1, id & 1) and reads 16 raw bytes for id 0, encode_id writes ((id << 1) | "
    "system) then the UUID: evaluated with the bit-provenance engine, decode(encode(id, flag)) = (id, flag) for all ids below "
    "2^30, which covers every described id.  R4 (decode never panics): every panic site reachable from any decode*/from_i32 "
    "function of the four generated protocol crates, gamenet-common and gamenet-snap follows from its dominating guards or is a "
    "reviewed line.  Not decided: byte-level behaviour of the varint/string primitives themselves (C08), and warnings."
)
ASSUMPTIONS = ['std / arrayvec / zerocopy functions outside the precondition table of sa/panics.py do not panic', 'caller-supplied callbacks (Warn, Callback, Read) do not panic', 'reviewed table lines (sa/rules/tables/*.py) were confirmed by reading the code; SUSPECT lines are not trusted', 'allocation failure, stack exhaustion and inputs above 2 GiB are out of scope',
               "the wire meaning of each member kind of the descriptions is the table KIND_SIGNATURES in sa/rules/C14.py, written from the protocol documentation in doc/ and the field names of the descriptions",
               "the primitives Unpacker::read_* / Packer::write_* implement the wire encodings their names say (decided separately under C08)"]
TABLES = ["net","snapshot","datafile","map","demo","teehistorian","buffer","common","huffman","packer","gamenet","looptable","postfix"]

SPECS = [
    ("teeworlds-0.5", "libtw2_gamenet_teeworlds_0_5"),
    ("teeworlds-0.6", "libtw2_gamenet_teeworlds_0_6"),
    ("teeworlds-0.7-trunk", "libtw2_gamenet_teeworlds_0_7"),
    ("ddnet-19.6", "libtw2_gamenet_ddnet"),
]
PK = "libtw2_packer::"
SNAP = "libtw2_gamenet_snap::"
GC = "libtw2_gamenet_common::"
KEYWORDS = {"self": "self_", "type": "type_"}
# messages whose struct is the hand-written one of gamenet/snap, re-exported by the generated crates
SNAP_STRUCTS = {"snap": "Snap", "snap_empty": "SnapEmpty", "snap_single": "SnapSingle"}

INT_ANY = ("int", None, None)


def title(n):
    return "".join(p.title() for p in n)


def snake(n):
    n = tuple(n)
    if len(n) == 1 and n[0] in KEYWORDS:
        return KEYWORDS[n[0]]
    return "_".join(n)


def caps(n):
    return "_".join(p.upper() for p in n)


# ---------------------------------------------------------------------------------------------------------
# the checker's reading of the descriptions
def kind_signature(t, msg):
    """wire signature of one member type of a description"""
    k = t["kind"]
    if k == "int32":
        lo, hi = t.get("min"), t.get("max")
        return ("int", lo, hi)
    if k == "flags":
        return INT_ANY
    if k == "boolean":
        return ("bool",)
    if k == "enum":
        return ("enum", title(t["enum"]))
    if k == "tune_param":
        return ("newtype", "TuneParam", INT_ANY)
    if k == "tick":
        return ("newtype", "Tick", INT_ANY)
    if k == "string":
        return ("string", bool(t["disallow_cc"]))
    if k == "int32_string":
        return ("int_string",)
    if k == "data":
        if t.get("size") != "specified_before":
            raise AnchorLost("description: data member with size %r" % (t.get("size"),))
        return ("data",)
    if k == "rest":
        return ("rest",)
    if k == "uuid":
        return ("raw", 16, "Uuid")
    if k == "sha256":
        return ("raw", 32, "Sha256")
    if k == "be_uint16":
        return ("be16",)
    if k == "uint8":
        return ("u8",)
    if k == "optional":
        return ("opt", kind_signature(t["inner"], msg))
    if k == "array":
        return ("array", t["count"], kind_signature(t["member_type"], msg))
    if k == "int32_twstring":
        return ("array", t["count"], INT_ANY)
    if k == "snapshot_object":
        return ("obj", title(t["name"]))
    if k == "packed_addresses":
        return ("addrs",)
    if k == "serverinfo_client":
        return ("clients",)
    raise AnchorLost("description: unknown member kind %r" % k)


def sig_words(s):
    """number of 32-bit words a snapshot-object member occupies"""
    if s[0] in ("int", "bool", "enum"):
        return 1
    if s[0] == "newtype":
        return sig_words(s[2])
    if s[0] == "array":
        return s[1] * sig_words(s[2])
    raise AnchorLost("description: member %r inside a snapshot object" % (s,))


def sig_str(s):
    if s is None:
        return "?"
    k = s[0]
    if k == "int":
        if s[1] is None and s[2] is None:
            return "int"
        return "int[%s..%s]" % ("" if s[1] is None else s[1], "" if s[2] is None else s[2])
    if k == "newtype":
        return "%s(%s)" % (s[1], sig_str(s[2]))
    if k == "opt":
        return "optional(%s)" % sig_str(s[1])
    if k == "array":
        return "[%s; %d]" % (sig_str(s[2]), s[1])
    if k == "string":
        return "string" + ("(no control characters)" if s[1] else "")
    if k == "unknown":
        return "unrecognised: " + s[1]
    return k + ("(" + ", ".join(str(x) for x in s[1:]) + ")" if len(s) > 1 else "")


# ---------------------------------------------------------------------------------------------------------
# signatures recovered from the compiled decoders
def cint(e):
    while isinstance(e, tuple) and e and e[0] in ("cast",) and e[3][0] == "c":
        e = e[3]
    if isinstance(e, tuple) and e and e[0] == "c" and isinstance(e[1], int):
        return e[1]
    return None


def peel(e):
    """strip reference / deref / unsize wrappers"""
    while isinstance(e, tuple) and e:
        if e[0] == "ref":
            e = e[2]
        elif e[0] == "deref":
            e = e[1]
        elif e[0] == "unsize":
            e = e[1]
        else:
            break
    return e


class Dec:
    """decode-side signature of an expression + the read call sites in evaluation order"""

    def __init__(self, crate):
        self.crate = crate
        self.reads = []

    def read(self, e):
        self.reads.append(e[3] if len(e) > 3 else None)

    def sig(self, e, unwrapped=False):
        e = peel(e)
        k = e[0]
        if k == "unwrapped":
            return self.sig(e[1], True)
        if k == "call":
            f, a = e[1], e[2]
            last = f.split("::")[-1]
            if f in (PK + "Unpacker::read_int", PK + "IntUnpacker::read_int"):
                self.read(e)
                return INT_ANY if unwrapped else ("unknown", "read_int without `?`")
            if f == PK + "in_range" and unwrapped:
                inner = self.sig(a[0])
                lo, hi = cint(a[1]), cint(a[2])
                if inner == INT_ANY and lo is not None and hi is not None:
                    return ("int", lo, hi)
                return ("unknown", show(strip_sites(e))[:80])
            if f == PK + "positive" and unwrapped:
                inner = self.sig(a[0])
                return ("int", 0, None) if inner == INT_ANY else ("unknown", show(strip_sites(e))[:80])
            if f == PK + "at_least" and unwrapped:
                inner = self.sig(a[0])
                lo = cint(a[1])
                return ("int", lo, None) if inner == INT_ANY and lo is not None else ("unknown", show(strip_sites(e))[:80])
            if f == PK + "to_bool" and unwrapped:
                inner = self.sig(a[0])
                return ("bool",) if inner == INT_ANY else ("unknown", show(strip_sites(e))[:80])
            if last == "from_i32" and f.startswith(self.crate + "::enums::") and unwrapped:
                inner = self.sig(a[0])
                return ("enum", f.split("::")[-2]) if inner == INT_ANY else ("unknown", show(strip_sites(e))[:80])
            if f == PK + "Unpacker::read_string":
                self.read(e)
                return ("string", False) if unwrapped else ("unknown", "read_string without `?`")
            if f == PK + "sanitize" and unwrapped:
                inner = self.sig(a[1])
                return ("string", True) if inner == ("string", False) else ("unknown", show(strip_sites(e))[:80])
            if f == GC + "msg::int_from_string" and unwrapped:
                inner = self.sig(a[0])
                return ("int_string",) if inner == ("string", False) else ("unknown", show(strip_sites(e))[:80])
            if f == PK + "Unpacker::read_data":
                self.read(e)
                return ("data",) if unwrapped else ("unknown", "read_data without `?`")
            if f == PK + "Unpacker::read_rest":
                self.read(e)
                return ("rest",) if unwrapped else ("unknown", "read_rest without `?`")
            if f == PK + "Unpacker::read_raw":
                self.read(e)
                n = cint(a[1])
                return ("rawbytes", n) if unwrapped and n is not None else ("unknown", "read_raw")
            if f in ("uuid::Uuid::from_slice", "uuid::builder::from_slice") and unwrapped:
                inner = self.sig(a[0])
                return ("raw", 16, "Uuid") if inner == ("rawbytes", 16) else ("unknown", show(strip_sites(e))[:80])
            if f == "libtw2_common::digest::Sha256::from_slice" and unwrapped:
                inner = self.sig(a[0])
                return ("raw", 32, "Sha256") if inner == ("rawbytes", 32) else ("unknown", show(strip_sites(e))[:80])
            if f in ("std::result::Result::ok",) and not unwrapped:
                # optional member: the inner expression without its `?`
                inner = self.sig(("unwrapped", a[0]))
                return ("opt", inner)
            if last == "from_be_bytes" and f.startswith("std::num::"):
                arr = peel(a[0])
                if arr[0] == "agg" and arr[1] == "array" and len(arr[4]) == 2:
                    srcs = []
                    for i, (n, v) in enumerate(arr[4]):
                        v = peel(v)
                        if v[0] in ("index", "cindex"):
                            idx = cint(v[2]) if v[0] == "index" else v[2]
                            srcs.append((idx, peel(v[1])))
                    if len(srcs) == 2 and srcs[0][0] == 0 and srcs[1][0] == 1 and strip_sites(srcs[0][1]) == strip_sites(srcs[1][1]):
                        inner = self.sig(srcs[0][1])
                        if inner == ("rawbytes", 2):
                            return ("be16",)
                return ("unknown", show(strip_sites(e))[:80])
            if f == self.crate + "::msg::connless::ClientsData::from_bytes" or f.endswith("::ClientsData::from_bytes"):
                inner = self.sig(a[0])
                return ("clients",) if inner == ("rest",) else ("unknown", show(strip_sites(e))[:80])
            if last == "from_bytes" and "AddrPackedSliceExt" in f:
                inner = self.sig(a[-1])
                return ("addrs",) if inner == ("rest",) else ("unknown", show(strip_sites(e))[:80])
            if last in ("decode_msg", "decode_inner") and f.startswith(self.crate + "::snap_obj::") and unwrapped:
                self.read(e)
                return ("obj" if last == "decode_msg" else "super", f.split("::")[-2])
            return ("unknown", show(strip_sites(e))[:80])
        if k in ("index", "cindex"):
            idx = cint(e[2]) if k == "index" else e[2]
            inner = self.sig(e[1])
            if inner == ("rawbytes", 1) and idx == 0:
                return ("u8",)
            return ("unknown", show(strip_sites(e))[:80])
        if k == "agg":
            if e[1] == "adt":
                nm = (e[2] or "").split("::")[-1]
                if nm in ("TuneParam", "Tick") and len(e[4]) == 1:
                    return ("newtype", nm, self.sig(e[4][0][1]))
            if e[1] == "array":
                inner = [self.sig(v) for n, v in e[4]]
                if inner and all(x == inner[0] for x in inner):
                    return ("array", len(inner), inner[0])
                return ("unknown", "array with differing element decoders")
        return ("unknown", show(strip_sites(e))[:80])


def result_struct(body, ir, tname):
    """the aggregate of type tname built by the function (the decoded value), with its position"""
    found = []
    for bi in sorted(body.live):
        for si, st in enumerate(body.blocks[bi]["st"]):
            if st["k"] == "assign" and st["r"]["k"] == "agg" and (st["r"].get("adt") or "").split("::")[-1] == tname:
                found.append((bi, si, st))
    return found


# ---------------------------------------------------------------------------------------------------------
def load_spec(name):
    p = os.path.join(extract.REPO, "gamenet", "generate", "spec", name + ".json")
    try:
        with open(p) as fh:
            return json.load(fh), p
    except (OSError, ValueError) as e:
        raise AnchorLost("description %s unreadable: %s" % (p, e))


def run(ctx, rep):
    R, pa = standard_totality(ctx, rep, "C14", TABLES, rule="R4-no-panic")
    specific(ctx, rep)


def specific(ctx, rep):
    prog = ctx.prog
    helpers(prog, rep)
    programs = 0
    disagreements = 0
    for spec_name, crate in SPECS:
        spec, path = load_spec(spec_name)
        n, d = check_spec(prog, rep, spec_name, crate, spec)
        programs += n
        disagreements += d
    id_packing(prog, rep)
    int_string_buffer(prog, rep)
    rep.programs = programs
    rep.disagreements_checked = disagreements
    rep.floor("R1-decode-layout", programs, 379, "codecs (messages + snapshot objects) of the four descriptions")


# ---------------------------------------------------------------------------------------------------------
def helpers(prog, rep):
    """R0: the constraint helpers accept exactly what their use in R1 assumes"""
    rule = "R0-constraint-helpers"

    def ok_conditions(fn):
        b = prog.one(fn)
        ir = IR(b)
        out = []
        for bi in sorted(b.live):
            for si, st in enumerate(b.blocks[bi]["st"]):
                if st["k"] == "assign" and st["r"]["k"] == "agg" and (st["r"].get("adt") or "").endswith("Result") \
                        and st["r"].get("variant") in ("Ok", 0):
                    e = ir.rvalue(st["r"], (bi, si))
                    conds = []
                    for c, rel, v, edge, dty in ir.edge_conditions(bi):
                        conds.append((show(strip_sites(c)), rel, v))
                    out.append((show(strip_sites(e)), sorted(conds, key=str)))
        return b, out

    def norm(conds):
        """set of `a <= b` facts"""
        facts = set()
        for c, rel, v in conds:
            truth = None
            if rel == "==" and v in (0, 1):
                truth = bool(v)
            elif rel == "notin" and len(v) == 1 and v[0] in (0, 1):
                truth = not bool(v[0])
            facts.add((c, truth))
        return facts

    want = {
        PK + "in_range": ({("Le(min, v)", True), ("Le(v, max)", True)}, "v"),
        PK + "at_least": ({("Le(min, v)", True)}, "v"),
        PK + "positive": ({("Ge(v, 0)", True)}, "v"),
    }
    for fn, (facts, payload) in sorted(want.items()):
        b, oks = ok_conditions(fn)
        good = len(oks) == 1 and norm(oks[0][1]) == facts and oks[0][0].endswith("{0: %s}" % payload)
        rep.ob(rule, fn.split("::")[-1], good,
               "Ok(%s) is returned exactly under %s" % (payload, " && ".join(sorted(f for f, t in facts))) if good
               else "Ok is built as %s" % (oks,), b.loc())
    # to_bool: Ok(in_range(v, 0, 1)? != 0)
    b, oks = ok_conditions(PK + "to_bool")
    good = len(oks) == 1 and "Ne(ok(libtw2_packer::in_range(v, 0, 1)), 0)" in oks[0][0]
    rep.ob(rule, "to_bool", good, "Ok(in_range(v, 0, 1)? != 0)" if good else "Ok is built as %s" % (oks,), b.loc())
    # sanitize: Err when any byte < 0x20, otherwise Ok(v)
    b = prog.one(PK + "sanitize")
    ir = IR(b)
    cl = [x for x in prog.bodies.values() if x.id.startswith(PK + "sanitize::{closure")]
    cgood = False
    for c in cl:
        cir = IR(c)
        for rb in c.return_blocks():
            e = cir.place({"l": 0}, (rb, len(c.blocks[rb]["st"])))
            s = show(strip_sites(e))
            if s.startswith("Lt(") and s.endswith(", 32)"):
                cgood = True
    b2, oks = ok_conditions(PK + "sanitize")
    anyc = [t for bi, t in b.calls() if path_matches(t.get("callee") or "", "any")]
    good = cgood and len(anyc) == 1 and len(oks) == 1 and (oks[0][0].endswith("{0: v}") or oks[0][0].endswith("{0: &*v}")) and \
        any("any(" in c and rel == "==" and v == 0 for c, rel, v in oks[0][1])
    rep.ob(rule, "sanitize", good, "Ok(v) exactly when no byte is below 0x20" if good else "closure ok=%s, Ok built as %s" % (cgood, oks), b.loc())
    rep.floor(rule, 5, 5, "constraint helpers")


# ---------------------------------------------------------------------------------------------------------
def find_body(prog, *ids):
    for i in ids:
        b = prog.bodies.get(i)
        if b is not None:
            return b
    return None


def check_spec(prog, rep, spec_name, crate, spec):
    n = 0
    dis = 0
    objs = {tuple(o["name"]): o for o in spec["snapshot_objects"]}
    for sec, mod in (("system_messages", "msg::system"), ("game_messages", "msg::game"), ("connless_messages", "msg::connless")):
        for m in spec[sec]:
            n += 1
            dis += message_codec(prog, rep, spec_name, crate, mod, m)
    for o in spec["snapshot_objects"]:
        n += 1
        dis += object_codec(prog, rep, spec_name, crate, o, objs)
    tables(prog, rep, spec_name, crate, spec, objs)
    return n, dis


def expected_members(m):
    return [(snake(x["name"]), kind_signature(x["type"], m)) for x in m["members"]]


def struct_path(crate, mod, m):
    for a in m.get("attributes", []):
        if a in SNAP_STRUCTS:
            return SNAP + SNAP_STRUCTS[a], True
    return "%s::%s::%s" % (crate, mod, title(m["name"])), False


def compare_layout(rep, rule, who, got, want, at):
    """field-by-field comparison; returns number of comparisons made"""
    ok = True
    cmp_ = 0
    if [g[0] for g in got] != [w[0] for w in want]:
        rep.ob(rule, who + " | fields", False, "decoded fields %s, described members %s" % ([g[0] for g in got], [w[0] for w in want]), at)
        return 1
    for (gn, gs), (wn, ws) in zip(got, want):
        cmp_ += 1
        if gs != ws:
            ok = False
            rep.ob(rule, who + " | " + gn, False, "member `%s`: code accepts %s, description says %s" % (gn, sig_str(gs), sig_str(ws)), at)
    if ok:
        rep.ob(rule, who, True, "%d member(s): %s" % (len(want), ", ".join("%s: %s" % (n, sig_str(s)) for n, s in want)[:300]), at)
    return cmp_ + 1


def reads_in_order(body, sites):
    """each read's call block strictly dominates the next one's"""
    for a, b in zip(sites, sites[1:]):
        if a is None or b is None:
            return False
        ba, bb_ = a[1], b[1]
        if ba == bb_ or not body.dominates(ba, bb_):
            return False
    return True


def message_codec(prog, rep, spec_name, crate, mod, m):
    rule = "R1-decode-layout"
    path, handwritten = struct_path(crate, mod, m)
    tname = path.split("::")[-1]
    who = "%s %s" % (spec_name, mod.split("::")[-1] + "::" + title(m["name"]))
    dec = find_body(prog, path + "::decode")
    if dec is None:
        rep.ob(rule, who, False, "no decoder %s::decode for described message %s" % (path, "_".join(m["name"])))
        return 1
    want = expected_members(m)
    ir = IR(dec)
    d = Dec(crate)
    got = []
    aggs = result_struct(dec, ir, tname)
    if want:
        if len(aggs) != 1:
            rep.ob(rule, who, False, "%d constructions of %s in the decoder, expected one" % (len(aggs), tname), dec.loc())
            return 1
        bi, si, st = aggs[0]
        e = ir.rvalue(st["r"], (bi, si))
        for fname, fe in e[4]:
            got.append((str(fname), d.sig(fe)))
    else:
        if any(True for _ in []):
            pass
    n = compare_layout(rep, rule, who, got, want, dec.loc())
    if want and not reads_in_order(dec, d.reads):
        rep.ob(rule, who + " | read order", False, "the reads of consecutive members are not sequenced in member order", dec.loc())
    # finish() before returning: excess data must be reported (decodes `without warnings` only when nothing is left over)
    fin = [bi for bi, t in dec.calls() if (t.get("callee") or "") in (PK + "Unpacker::finish",)]
    rets = set(dec.return_blocks())
    start = aggs[0][0] if aggs else None
    if start is None:
        oks = [bi for bi in sorted(dec.live) for st in dec.blocks[bi]["st"]
               if st["k"] == "assign" and st["r"]["k"] == "agg" and (st["r"].get("adt") or "").endswith("Result")]
        start = oks[0] if len(oks) == 1 else None
    okf = len(fin) == 1 and start is not None and dec.dominates(start, fin[0]) and \
        not (rets & dec.reachable_from(start, removed_blocks=frozenset(fin)))
    if not okf:
        rep.ob(rule, who + " | finish", False, "the decoder returns without calling Unpacker::finish (trailing bytes would go unnoticed)", dec.loc())
    n += encode_message(prog, rep, spec_name, crate, mod, m, path, want)
    return n


def object_codec(prog, rep, spec_name, crate, o, objs):
    rule = "R1-decode-layout"
    tname = title(o["name"])
    path = "%s::snap_obj::%s" % (crate, tname)
    who = "%s snap_obj::%s" % (spec_name, tname)
    dec = find_body(prog, path + "::decode_inner")
    if dec is None:
        rep.ob(rule, who, False, "no decoder %s::decode_inner for described object" % path)
        return 1
    want = expected_members(o)
    if o.get("super"):
        want = [(snake(o["super"]), ("super", title(o["super"])))] + want
    ir = IR(dec)
    d = Dec(crate)
    got = []
    aggs = result_struct(dec, ir, tname)
    if want:
        if len(aggs) != 1:
            rep.ob(rule, who, False, "%d constructions of %s in the decoder, expected one" % (len(aggs), tname), dec.loc())
            return 1
        bi, si, st = aggs[0]
        e = ir.rvalue(st["r"], (bi, si))
        for fname, fe in e[4]:
            got.append((str(fname), d.sig(fe)))
    n = compare_layout(rep, rule, who, got, want, dec.loc())
    if want and not reads_in_order(dec, d.reads):
        rep.ob(rule, who + " | read order", False, "the reads of consecutive members are not sequenced in member order", dec.loc())
    # decode = decode_inner + finish
    outer = find_body(prog, path + "::decode")
    if outer is None:
        rep.ob(rule, who + " | decode", False, "no %s::decode" % path)
    else:
        inner = [bi for bi, t in outer.calls() if (t.get("callee") or "") == path + "::decode_inner"]
        fin = [bi for bi, t in outer.calls() if (t.get("callee") or "") == PK + "IntUnpacker::finish"]
        okd = len(inner) == 1 and len(fin) == 1 and outer.dominates(inner[0], fin[0])
        if not okd:
            rep.ob(rule, who + " | decode", False, "decode is not decode_inner followed by IntUnpacker::finish", outer.loc())
    n += encode_object(prog, rep, spec_name, crate, o, path, want)
    return n


# ---------------------------------------------------------------------------------------------------------
# encoders
WRITES = {PK + "Packer::write_int": "int", PK + "Packer::write_string": "string", PK + "Packer::write_data": "data",
          PK + "Packer::write_rest": "rest", PK + "Packer::write_raw": "raw", PK + "with_packer": "obj"}


class Src:
    """where a written value comes from: the field of self and the conversions applied on the way"""

    def __init__(self, ir, crate):
        self.ir = ir
        self.crate = crate

    def of(self, e, tags=None):
        tags = [] if tags is None else tags
        ir = self.ir
        for _ in range(40):
            e = peel(e)
            k = e[0]
            if k == "cast":
                if e[2] == "i32" and ir.type_of(e[3]) == "bool":
                    tags.append("bool")
                else:
                    tags.append("cast:" + str(e[2]))
                e = e[3]
                continue
            if k == "unwrapped":
                x = peel(e[1])
                if x[0] == "call" and x[1].endswith("::next") and "Iterator" in x[1] and x[2]:
                    it = peel(x[2][0])
                    init = ir.var_init(it[1]) if it[0] == "var" else None
                    if init is not None and init[0] == "call" and path_matches(init[1], "into_iter"):
                        tags.append("elem")
                        e = init[2][0]
                        continue
                    return None, tags
                tags.append("opt")
                e = x
                continue
            if k == "call":
                f, a = e[1], e[2]
                last = f.split("::")[-1]
                if last == "to_i32" and f.startswith(self.crate + "::enums::"):
                    tags.append("enum:" + f.split("::")[-2])
                elif f == GC + "msg::string_from_int":
                    tags.append("int_string")
                elif f == "uuid::Uuid::as_bytes":
                    tags.append("uuid_bytes")
                elif last == "to_be_bytes" and f.startswith("std::num::"):
                    tags.append("be_bytes")
                elif last == "as_bytes" and ("AddrPackedSliceExt" in f or "ClientsData" in f):
                    tags.append("as_bytes")
                elif f.endswith("as std::ops::Deref>::deref") and "ArrayVec" in f:
                    pass
                else:
                    return None, tags + ["call:" + f]
                e = a[0]
                continue
            if k == "agg" and e[1] == "array" and len(e[4]) == 1:
                tags.append("array1")
                e = e[4][0][1]
                continue
            if k == "agg" and e[1] == "closure":
                tags.append("closure:" + str(e[2]))
                if len(e[4]) == 1:
                    e = e[4][0][1]
                    continue
                return None, tags
            if k == "field":
                base = peel(e[1])
                if base[0] == "arg" and base[1] == 0:
                    return str(e[2]), tags
                tags.append("." + str(e[2]))
                e = base
                continue
            return None, tags + ["expr:" + show(strip_sites(e))[:60]]
        return None, tags


def obj_closure_field(prog, crate, c):
    """with_packer(&mut _p, |p| self.<field>.encode_msg(p)): the field and the object type"""
    if c[0] != "agg" or c[1] != "closure":
        return None, ["expr:" + show(strip_sites(c))[:60]]
    cb = prog.bodies.get(c[2])
    if cb is None:
        return None, ["closure-body-missing"]
    cir = IR(cb)
    calls = [(bi, t) for bi, t in cb.calls() if (t.get("callee") or "").startswith(crate + "::snap_obj::") and (t.get("callee") or "").endswith("::encode_msg")]
    if len(calls) != 1:
        return None, ["closure-calls:%d" % len(calls)]
    e = cir.call_expr(calls[0][0], calls[0][1])
    names = [x[2] for x in walk(e[2][0]) if isinstance(x, tuple) and x and x[0] == "field" and isinstance(x[2], str)]
    if len(names) != 1:
        return None, ["closure-arg:" + show(strip_sites(e[2][0]))[:60]]
    return names[0], ["closure", "objtype:" + calls[0][1]["callee"].split("::")[-2]]


def enc_expected(name, s):
    """(primitive, field, conversion tags) the encoder must use for a member of signature s"""
    k = s[0]
    if k == "int":
        return ("int", name, ())
    if k == "bool":
        return ("int", name, ("bool",))
    if k == "enum":
        return ("int", name, ("enum:" + s[1],))
    if k == "newtype":
        return ("int", name, (".0",))
    if k == "string":
        return ("string", name, ())
    if k == "int_string":
        return ("string", name, ("int_string",))
    if k == "data":
        return ("data", name, ())
    if k == "rest":
        return ("rest", name, ())
    if k in ("addrs", "clients"):
        return ("rest", name, ("as_bytes",))
    if k == "raw" and s[2] == "Uuid":
        return ("raw", name, ("uuid_bytes",))
    if k == "raw" and s[2] == "Sha256":
        return ("raw", name, (".0",))
    if k == "be16":
        return ("raw", name, ("be_bytes",))
    if k == "u8":
        return ("raw", name, ("array1",))
    if k == "opt":
        p, n, t = enc_expected(name, s[1])
        return (p, n, t + ("opt",))
    if k == "array":
        p, n, t = enc_expected(name, s[2])
        return (p, n, t + ("elem",))
    if k == "obj":
        return ("obj", name, ("closure", "objtype:" + s[1]))
    raise AnchorLost("no encoder expectation for %r" % (s,))


def loop_of(body, bi, _cache={}):
    key = id(body)
    if key not in _cache:
        _cache.clear()
        _cache[key] = body.sccs()
    for comp in _cache[key]:
        if bi in comp:
            heads = [h for h in comp if all(body.dominates(h, x) for x in comp)]
            return comp, (heads[0] if heads else None)
    return None, None


def truth_of(rel, v):
    if rel == "==" and v in (0, 1):
        return bool(v)
    if rel == "notin" and len(v) == 1 and v[0] in (0, 1):
        return not bool(v[0])
    return None


def bound_facts(ir, srcr, bi):
    """{(field, 'lo'|'hi'|'elem-lo'..): constant} established on every path to block bi"""
    out = {}
    for c, rel, v, edge, dty in ir.edge_conditions(bi):
        t = truth_of(rel, v)
        if t is None or c[0] != "bin" or c[1] not in ("Le", "Ge", "Lt", "Gt"):
            continue
        op, a, b = c[1], c[2], c[3]
        if not t:
            op = {"Le": "Gt", "Ge": "Lt", "Lt": "Ge", "Gt": "Le"}[op]
        # normalise to  lhs <= rhs  (strict forms over integers: a < b  ==  a <= b - 1)
        if op in ("Ge", "Gt"):
            a, b = b, a
            op = {"Ge": "Le", "Gt": "Lt"}[op]
        ca, cb = cint(a), cint(b)
        if ca is not None and cb is None:
            f, tags = srcr.of(b)
            if f is not None and all(x == "elem" for x in tags):
                out[(f, "lo", "elem" in tags)] = ca + (1 if op == "Lt" else 0)
        elif cb is not None and ca is None:
            f, tags = srcr.of(a)
            if f is not None and all(x == "elem" for x in tags):
                out[(f, "hi", "elem" in tags)] = cb - (1 if op == "Lt" else 0)
    return out


def sanitized_fields(enc, ir, srcr, before):
    """fields (or their elements) passed through sanitize(&mut Panic, ..).unwrap() on every path to `before`"""
    out = set()
    for bi, t in enc.calls():
        if (t.get("callee") or "") != "std::result::Result::unwrap":
            continue
        e = ir.call_expr(bi, t)
        x = peel(e[2][0])
        if x[0] == "call" and x[1] == PK + "sanitize":
            f, tags = srcr.of(x[2][1])
            if f is None:
                continue
            comp, head = loop_of(enc, bi)
            pos = head if comp else bi
            if pos is not None and enc.dominates(pos, before) and all(tg == "elem" for tg in tags):
                if comp and "elem" in tags:
                    out.add((f, True))
                elif not comp and "elem" not in tags:
                    out.add((f, False))
    return out


def encode_message(prog, rep, spec_name, crate, mod, m, path, want):
    rule = "R1e-encode-layout"
    who = "%s %s" % (spec_name, mod.split("::")[-1] + "::" + title(m["name"]))
    enc = find_body(prog, path + "::encode")
    if enc is None:
        rep.ob(rule, who, False, "no encoder %s::encode" % path)
        return 1
    ir = IR(enc)
    srcr = Src(ir, crate)
    ws = []
    for bi, t in enc.calls():
        prim = WRITES.get(t.get("callee") or "")
        if prim is None:
            continue
        comp, head = loop_of(enc, bi)
        e = ir.call_expr(bi, t)
        if prim == "obj":
            f, tags = obj_closure_field(prog, crate, peel(e[2][1]))
        else:
            f, tags = srcr.of(e[2][1])
        ws.append({"bb": bi, "pos": head if comp else bi, "loop": bool(comp), "prim": prim, "field": f, "tags": tuple(tags)})
    # order the writes: positions must be totally ordered by dominance
    ws.sort(key=lambda w: len(enc.dom_chain(w["pos"])))
    ordered = all(a["pos"] != b["pos"] and enc.dominates(a["pos"], b["pos"]) for a, b in zip(ws, ws[1:]))
    exp = [enc_expected(n, s) for n, s in want]
    got = []
    for w in ws:
        tags = w["tags"]
        got.append((w["prim"], w["field"], tags))
    n = 1
    good = ordered and len(got) == len(exp)
    if good:
        for g, x, w in zip(got, exp, ws):
            n += 1
            if g[0] != x[0] or g[1] != x[1] or sorted(g[2]) != sorted(x[2]) or (("elem" in x[2]) != w["loop"]):
                good = False
                rep.ob(rule, who + " | " + x[1], False, "member `%s`: encoder writes %s(%s %s), description requires %s(%s %s)"
                       % (x[1], g[0], g[1], list(g[2]), x[0], x[1], list(x[2])), enc.loc())
    else:
        rep.ob(rule, who + " | writes", False, "encoder writes %s%s, description requires %s"
               % ([(g[0], g[1]) for g in got], "" if ordered else " (not sequenced)", [(x[0], x[1]) for x in exp]), enc.loc())
    # the result is the packer's written bytes, after all writes
    wr = [bi for bi, t in enc.calls() if (t.get("callee") or "") == PK + "Packer::written"]
    if len(wr) != 1 or not all(enc.dominates(w["pos"], wr[0]) for w in ws):
        good = False
        rep.ob(rule, who + " | written", False, "the encoder does not return Packer::written() after its writes", enc.loc())
    # constraints asserted before the first write
    first = ws[0]["pos"] if ws else (wr[0] if wr else None)
    if first is not None:
        facts = bound_facts(ir, srcr, first)
        # element constraints: established at the latch of a loop that precedes the first write
        for comp in enc.sccs():
            heads = [h for h in comp if all(enc.dominates(h, x) for x in comp)]
            if not heads or not enc.dominates(heads[0], first) or first in comp:
                continue
            latches = [b for b in comp if heads[0] in enc.succ[b]]
            for l in latches:
                for k2, v2 in bound_facts(ir, srcr, l).items():
                    if k2[2]:
                        facts[k2] = v2
        san = sanitized_fields(enc, ir, srcr, first)
        for name, s in want:
            elem = False
            while s[0] in ("array", "opt"):
                elem = elem or s[0] == "array"
                s = s[2] if s[0] == "array" else s[1]
            if s[0] == "int" and (s[1] is not None or s[2] is not None):
                n += 1
                lo_ok = s[1] is None or facts.get((name, "lo", elem)) == s[1]
                hi_ok = s[2] is None or facts.get((name, "hi", elem)) == s[2]
                if not (lo_ok and hi_ok):
                    good = False
                    rep.ob(rule, who + " | assert " + name, False,
                           "member `%s` is described as %s but the encoder establishes lo=%s hi=%s before writing"
                           % (name, sig_str(s), facts.get((name, "lo", elem)), facts.get((name, "hi", elem))), enc.loc())
            if s == ("string", True):
                n += 1
                if (name, elem) not in san:
                    good = False
                    rep.ob(rule, who + " | assert " + name, False,
                           "member `%s` must not contain control characters but the encoder does not check it before writing" % name, enc.loc())
    if good:
        rep.ob(rule, who, True, "%d write(s) in member order with the inverse primitives; constraints asserted" % len(ws), enc.loc())
    return n


def encode_object(prog, rep, spec_name, crate, o, path, want):
    """snapshot objects are re-exposed as their own memory: layout + asserted constraints"""
    rule = "R1e-encode-layout"
    tname = title(o["name"])
    who = "%s snap_obj::%s" % (spec_name, tname)
    a = prog.adts.get(path)
    if a is None or a["kind"] != "Struct":
        rep.ob(rule, who, False, "no struct %s" % path)
        return 1
    n = 1
    good = True
    fields = a["variants"][0]["fields"]
    words = 0
    lay = []
    for (name, s), f in zip(want, fields):
        if s[0] == "super":
            sup = prog.adts.get("%s::snap_obj::%s" % (crate, s[1]))
            sz = sup["size"] if sup else None
        else:
            sz = 4 * sig_words(s)
        lay.append((f["n"], f["ty"], sz))
        words += (sz or 0) // 4
    fsz = []
    for f in fields:
        fsz.append(type_size(prog, f["ty"]))
    at = "%s:%s" % (a.get("file"), a.get("ln"))
    if not a.get("repr_c"):
        good = False
        rep.ob(rule, who + " | repr", False, "the struct is not #[repr(C)]: field order in memory is unspecified", at)
    if len(fields) != len(want) or [f["n"] for f in fields] != [w[0] for w in want]:
        good = False
        rep.ob(rule, who + " | fields", False, "struct fields %s, described members %s" % ([f["n"] for f in fields], [w[0] for w in want]), at)
    else:
        for (fname, fty, want_sz), have in zip(lay, fsz):
            n += 1
            if have != want_sz:
                good = False
                rep.ob(rule, who + " | word " + fname, False,
                       "member `%s` occupies %s byte(s) of the struct (type %s) but %s byte(s) of 32-bit words on the wire: encode() "
                       "transmutes the struct to &[i32], so the remaining bytes of that word are padding (uninitialised)" % (fname, have, fty, want_sz), at)
        if good and a.get("size") != 4 * words:
            n += 1
            good = False
            rep.ob(rule, who + " | size", False, "struct size %s, description has %d words" % (a.get("size"), words), at)
    enc = find_body(prog, path + "::encode")
    if enc is None:
        rep.ob(rule, who + " | encode", False, "no %s::encode" % path)
        return n
    ir = IR(enc)
    srcr = Src(ir, crate)
    # the returned slice is the transmuted from_ref(self)
    tr = [(bi, t) for bi, t in enc.calls() if (t.get("callee") or "") == "libtw2_common::slice::transmute"]
    okr = False
    if len(tr) == 1:
        e = ir.call_expr(tr[0][0], tr[0][1])
        x = peel(e[2][0])
        if x[0] == "call" and path_matches(x[1], "from_ref"):
            y = peel(x[2][0])
            okr = y[0] == "arg" and y[1] == 0
    if not okr:
        good = False
        rep.ob(rule, who + " | encode", False, "encode does not return slice::transmute(from_ref(self))", enc.loc())
    else:
        first = tr[0][0]
        facts = bound_facts(ir, srcr, first)
        for comp in enc.sccs():
            heads = [h for h in comp if all(enc.dominates(h, x) for x in comp)]
            if not heads or not enc.dominates(heads[0], first) or first in comp:
                continue
            for l in [b for b in comp if heads[0] in enc.succ[b]]:
                for k2, v2 in bound_facts(ir, srcr, l).items():
                    if k2[2]:
                        facts[k2] = v2
        sup = [w for w in want if w[1][0] == "super"]
        if sup:
            sc = [bi for bi, t in enc.calls() if (t.get("callee") or "") == "%s::snap_obj::%s::encode" % (crate, sup[0][1][1])]
            if not (len(sc) == 1 and enc.dominates(sc[0], first)):
                good = False
                rep.ob(rule, who + " | super", False, "the inherited part's constraints (%s::encode) are not asserted" % sup[0][1][1], enc.loc())
        for name, s in want:
            elem = False
            while s[0] in ("array",):
                elem = True
                s = s[2]
            if s[0] == "int" and (s[1] is not None or s[2] is not None):
                n += 1
                lo_ok = s[1] is None or facts.get((name, "lo", elem)) == s[1]
                hi_ok = s[2] is None or facts.get((name, "hi", elem)) == s[2]
                if not (lo_ok and hi_ok):
                    good = False
                    rep.ob(rule, who + " | assert " + name, False,
                           "member `%s` is described as %s but encode establishes lo=%s hi=%s before exposing the words"
                           % (name, sig_str(s), facts.get((name, "lo", elem)), facts.get((name, "hi", elem))), enc.loc())
    if good:
        rep.ob(rule, who, True, "repr(C), %d word(s), every member one 32-bit word per described integer; constraints asserted" % words, at)
    return n


def type_size(prog, ty):
    ty = ty.strip()
    if ty in ("i32", "u32"):
        return 4
    if ty in ("bool", "u8", "i8"):
        return 1
    if ty in ("u16", "i16"):
        return 2
    if ty in ("u64", "i64"):
        return 8
    if ty.startswith("[") and ";" in ty:
        inner, n = ty[1:-1].rsplit(";", 1)
        s = type_size(prog, inner)
        try:
            return s * int(n) if s is not None else None
        except ValueError:
            return None
    a = prog.adts.get(ty)
    if a is not None:
        return a.get("size")
    return None


# ---------------------------------------------------------------------------------------------------------
# tables
def uuid_bytes(s):
    return _uuid.UUID(s).bytes


def dispatch_map(prog, fn, decoder_suffix):
    """{matched id: decoder struct} read from the conditions dominating each call to a decoder"""
    b = prog.bodies.get(fn)
    if b is None:
        return None, None
    ir = IR(b)
    out = []
    for bi, t in b.calls():
        cal = t.get("callee") or ""
        if not cal.endswith(decoder_suffix) or cal == fn:
            continue
        ordv = None
        ub = {}
        discr = None
        other = []
        for c, rel, v, edge, dty in ir.edge_conditions(bi):
            if rel != "==":
                continue
            c = strip_sites(c)
            s = show(c)
            if c[0] == "discr":
                discr = v
            elif c[0] in ("cindex", "index") or (c[0] == "deref" and c[1][0] in ("cindex", "index")):
                x = c if c[0] != "deref" else c[1]
                idx = x[2] if x[0] == "cindex" else cint(x[2])
                ub[idx] = v
            else:
                other.append((s, v))
                ordv = v
        if ub:
            key = bytes(ub.get(i, -1) & 0xff for i in range(max(ub) + 1)) if all(isinstance(x, int) for x in ub.values()) else None
            if len(ub) != max(ub) + 1:
                key = None
            out.append((key, cal, discr))
        else:
            out.append((ordv, cal, discr))
    return b, out


def tables(prog, rep, spec_name, crate, spec, objs):
    rule = "R2-tables"
    # ---- messages
    for sec, mod, en in (("system_messages", "msg::system", "System"), ("game_messages", "msg::game", "Game")):
        msgs = spec[sec]
        want = {}
        for m in msgs:
            path, hand = struct_path(crate, mod, m)
            cname = "%s::%s::%s" % (crate, mod, caps(m["name"]))
            c = prog.consts.get(cname)
            mid = m["id"]
            who = "%s %s::%s" % (spec_name, mod.split("::")[-1], caps(m["name"]))
            if c is None:
                rep.ob(rule, who + " | const", False, "no constant %s" % cname)
                continue
            if isinstance(mid, int):
                okc = c.get("v") == mid
                key = mid
            else:
                raw = bytes.fromhex(c.get("bytes") or "")
                okc = raw == uuid_bytes(mid)
                key = uuid_bytes(mid)
                if "id_from" in m and m["id_from"].get("algorithm") == "uuid_v3":
                    calc = _uuid.uuid3(_uuid.UUID(m["id_from"]["namespace"]), m["id_from"]["name"])
                    if calc.bytes != key:
                        rep.ob(rule, who + " | id_from", False, "described id %s is not uuid_v3(%s)" % (mid, m["id_from"]["name"]))
            rep.ob(rule, who + " | const", okc, "constant equals the described id %s" % (mid,), "%s:%s" % (c.get("file"), c.get("ln")))
            want[key] = path + "::decode"
        fn = "%s::%s::%s::decode_msg" % (crate, mod, en)
        b, got = dispatch_map(prog, fn, "::decode")
        who = "%s %s::%s::decode_msg" % (spec_name, mod.split("::")[-1], en)
        if b is None:
            rep.ob(rule, who, False, "no function " + fn)
        else:
            gm = {}
            dup = []
            for key, cal, discr in got:
                if key in gm:
                    dup.append(key)
                gm[key] = cal
            bad = []
            for k_, v_ in want.items():
                if gm.get(k_) != v_:
                    bad.append("id %s -> %s (described: %s)" % (k_.hex() if isinstance(k_, bytes) else k_, gm.get(k_), v_))
            for k_ in gm:
                if k_ not in want:
                    bad.append("undescribed id %s -> %s" % (k_.hex() if isinstance(k_, bytes) else k_, gm[k_]))
            rep.ob(rule, who, not bad and not dup, "%d described ids each dispatch to their own decoder, nothing else is accepted" % len(want)
                   if not bad and not dup else "; ".join(bad + ["duplicate %s" % dup] if dup else bad)[:400], b.loc())
        variant_tables(prog, rep, rule, spec_name, crate, mod, en, msgs, "msg_id", "encode_msg")
    # ---- connless
    msgs = spec["connless_messages"]
    want = {}
    for m in msgs:
        cname = "%s::msg::connless::%s" % (crate, caps(m["name"]))
        c = prog.consts.get(cname)
        who = "%s connless::%s" % (spec_name, caps(m["name"]))
        if c is None:
            rep.ob(rule, who + " | const", False, "no constant %s" % cname)
            continue
        raw = bytes.fromhex(c.get("bytes") or c.get("pbytes") or "")
        okc = raw == bytes(m["id"])
        if not raw:
            pass  # a reference constant: its value is read through the patterns of decode_connless below
        else:
            rep.ob(rule, who + " | const", okc, "constant equals the described id %s" % bytes(m["id"]), "%s:%s" % (c.get("file"), c.get("ln")))
        want[bytes(m["id"])] = "%s::msg::connless::%s::decode" % (crate, title(m["name"]))
    fn = "%s::msg::connless::Connless::decode_connless" % crate
    b, got = dispatch_map(prog, fn, "::decode")
    who = "%s connless::Connless::decode_connless" % spec_name
    if b is None:
        rep.ob(rule, who, False, "no function " + fn)
    else:
        gm = {k_: cal for k_, cal, d in got}
        bad = ["id %r -> %s (described: %s)" % (k_, gm.get(k_), v_) for k_, v_ in want.items() if gm.get(k_) != v_]
        bad += ["undescribed id %r -> %s" % (k_, gm[k_]) for k_ in gm if k_ not in want]
        rep.ob(rule, who, not bad and len(got) == len(want), "%d described ids each dispatch to their own decoder" % len(want) if not bad else "; ".join(bad)[:400], b.loc())
    variant_tables(prog, rep, rule, spec_name, crate, "msg::connless", "Connless", msgs, "connless_id", "encode_connless")
    # ---- snapshot objects
    want = {}
    sizes = {}
    for o in spec["snapshot_objects"]:
        cname = "%s::snap_obj::%s" % (crate, caps(o["name"]))
        c = prog.consts.get(cname)
        who = "%s snap_obj::%s" % (spec_name, caps(o["name"]))
        if c is None:
            rep.ob(rule, who + " | const", False, "no constant %s" % cname)
            continue
        oid = o["id"]
        if isinstance(oid, int):
            okc = c.get("v") == oid
            key = oid
            w = sum(sig_words(kind_signature(x["type"], o)) for x in o["members"])
            sup = o.get("super")
            while sup:
                so = objs[tuple(sup)]
                w += sum(sig_words(kind_signature(x["type"], so)) for x in so["members"])
                sup = so.get("super")
            sizes[oid] = w
        else:
            okc = bytes.fromhex(c.get("bytes") or "") == uuid_bytes(oid)
            key = uuid_bytes(oid)
        rep.ob(rule, who + " | const", okc, "constant equals the described id %s" % (oid,), "%s:%s" % (c.get("file"), c.get("ln")))
        want[key] = "%s::snap_obj::%s::decode" % (crate, title(o["name"]))
    fn = "%s::snap_obj::SnapObj::decode_obj" % crate
    b, got = dispatch_map(prog, fn, "::decode")
    who = "%s snap_obj::SnapObj::decode_obj" % spec_name
    if b is None:
        rep.ob(rule, who, False, "no function " + fn)
    else:
        gm = {k_: cal for k_, cal, d in got}
        bad = ["id %s -> %s (described: %s)" % (k_.hex() if isinstance(k_, bytes) else k_, gm.get(k_), v_) for k_, v_ in want.items() if gm.get(k_) != v_]
        bad += ["undescribed id %s -> %s" % (k_, gm[k_]) for k_ in gm if k_ not in want]
        rep.ob(rule, who, not bad and len(got) == len(want), "%d described ids each dispatch to their own decoder" % len(want) if not bad else "; ".join(bad)[:400], b.loc())
    variant_tables(prog, rep, rule, spec_name, crate, "snap_obj", "SnapObj", spec["snapshot_objects"], "obj_type_id", "encode")
    # obj_size
    fn = "%s::snap_obj::obj_size" % crate
    b = prog.bodies.get(fn)
    who = "%s snap_obj::obj_size" % spec_name
    if b is None:
        rep.ob(rule, who, False, "no function " + fn)
    else:
        gotsz = switch_table(b)
        bad = ["type %s: %s words (description: %s)" % (k_, gotsz.get(k_), v_) for k_, v_ in sorted(sizes.items()) if gotsz.get(k_) != v_]
        bad += ["undescribed type %s: %s words" % (k_, gotsz[k_]) for k_ in gotsz if k_ not in sizes]
        rep.ob(rule, who, not bad, "%d object sizes equal the number of described 32-bit words" % len(sizes) if not bad else "; ".join(bad)[:400], b.loc())
    # ---- enums, flags, constants
    for en in spec["game_enumerations"]:
        tn = title(en["name"])
        who = "%s enums::%s" % (spec_name, tn)
        a = prog.adts.get("%s::enums::%s" % (crate, tn))
        vals = {v["value"]: title(v["name"]) for v in en["values"]}
        if a is None or a["kind"] != "Enum":
            rep.ob(rule, who, False, "no enum %s::enums::%s" % (crate, tn))
            continue
        at = "%s:%s" % (a.get("file"), a.get("ln"))
        discr = {signed(int(v["discr"]), "i32"): v["name"] for v in a["variants"]}
        okd = discr == vals and a.get("size") == 4
        rep.ob(rule, who + " | discriminants", okd, "%d variants with the described values, 4 bytes" % len(vals) if okd else "enum %s, description %s" % (discr, vals), at)
        fb = prog.bodies.get("%s::enums::%s::from_i32" % (crate, tn))
        if fb is None:
            rep.ob(rule, who + " | from_i32", False, "no from_i32")
        else:
            gotn = enum_from_table(fb)
            okf = gotn == vals
            rep.ob(rule, who + " | from_i32", okf, "accepts exactly the %d described values and maps each to its variant" % len(vals) if okf
                   else "from_i32 maps %s, description %s" % (gotn, vals), fb.loc())
        tb = prog.bodies.get("%s::enums::%s::to_i32" % (crate, tn))
        if tb is None:
            rep.ob(rule, who + " | to_i32", False, "no to_i32")
        else:
            got = switch_table(tb)
            gotn = {discr.get(k_): v_ for k_, v_ in got.items()}
            okt = gotn == {n_: v_ for v_, n_ in vals.items()}
            rep.ob(rule, who + " | to_i32", okt, "maps each variant to its described value" if okt else "to_i32 maps %s, description %s" % (gotn, vals), tb.loc())
        for v in en["values"]:
            c = prog.consts.get("%s::enums::%s_%s" % (crate, caps(en["name"]), caps(v["name"])))
            if c is None or c.get("v") != v["value"]:
                rep.ob(rule, who + " | const " + caps(v["name"]), False, "constant %s_%s is %s, described %s" % (caps(en["name"]), caps(v["name"]), c and c.get("v"), v["value"]))
    def cfind(name):
        for mod in ("enums", "snap_obj", "msg::game", "msg::system", "msg"):
            c = prog.consts.get("%s::%s::%s" % (crate, mod, name))
            if c is not None:
                return c
        return None

    for fl in spec["game_flags"]:
        bad = []
        for v in fl["values"]:
            c = cfind("%s_%s" % (caps(fl["name"]), caps(v["name"])))
            # flags are 32-bit masks: bit 31 is negative as an i32 and 2^31 in the description
            if c is None or not isinstance(c.get("v"), int) or (c["v"] & 0xffffffff) != (v["value"] & 0xffffffff):
                bad.append("%s_%s is %s, described %s" % (caps(fl["name"]), caps(v["name"]), c and c.get("v"), v["value"]))
        rep.ob(rule, "%s flags %s" % (spec_name, caps(fl["name"])), not bad, "%d flag bits as described" % len(fl["values"]) if not bad else "; ".join(bad)[:300])
    bad = []
    for cst in spec["constants"]:
        c = cfind(caps(cst["name"]))
        if cst["type"] == "int32":
            have = c and c.get("v")
        elif cst["type"] == "string":
            have = c and bytes.fromhex(c.get("pbytes") or "").decode("utf-8", "replace")
        else:
            raise AnchorLost("description: constant of type %r" % cst["type"])
        if c is None or have != cst["value"]:
            bad.append("%s is %r, described %r" % (caps(cst["name"]), have, cst["value"]))
    rep.ob(rule, "%s constants" % spec_name, not bad, "%d constants as described" % len(spec["constants"]) if not bad else "; ".join(bad)[:300])


def switch_table(b):
    """{switch value: constant stored on that arm} for a function that is one `match x { K => V, .. }`"""
    ir = IR(b)
    out = {}
    sw = [bi for bi in sorted(b.live) if b.blocks[bi]["term"]["k"] == "switch"]
    if len(sw) != 1:
        return out
    t = b.blocks[sw[0]]["term"]
    for val, tgt in t.get("targets", []):
        v = arm_constant(b, ir, tgt)
        if v is not None:
            out[signed(val, t.get("dty"))] = v
    return out


def arm_constant(b, ir, bi):
    """the integer constant / field-less enum variant assigned in block bi (following gotos)"""
    for _ in range(4):
        for si, st in enumerate(b.blocks[bi]["st"]):
            if st["k"] != "assign":
                continue
            r = st["r"]
            if r["k"] == "use" and "c" in r["o"] and isinstance(r["o"]["c"].get("v"), int):
                return r["o"]["c"]["v"]
            if r["k"] == "agg" and r.get("ak") == "adt":
                if not r.get("ops"):
                    return ("variant", r.get("variant"))
                o = r["ops"][0]
                if "c" in o and isinstance(o["c"].get("v"), int):
                    return o["c"]["v"]
        t = b.blocks[bi]["term"]
        if t["k"] == "goto":
            bi = t["t"]
        else:
            break
    return None


def signed(v, dty):
    bits = {"i8": 8, "i16": 16, "i32": 32, "i64": 64}.get(dty)
    if bits and isinstance(v, int) and v >= 1 << (bits - 1):
        return v - (1 << bits)
    return v


def enum_from_table(b):
    """{accepted integer: variant index} of a from_i32"""
    ir = IR(b)
    out = {}
    sw = [bi for bi in sorted(b.live) if b.blocks[bi]["term"]["k"] == "switch"]
    if len(sw) != 1:
        return out
    t = b.blocks[sw[0]]["term"]
    for val, tgt in t.get("targets", []):
        v = arm_constant(b, ir, tgt)
        if isinstance(v, tuple):
            out[signed(val, t.get("dty"))] = v[1]
    return out


def arm_info(b):
    """{variant index: (named constants used on the arm, callee of the arm's call)} for `match *self { V(..) => .. }`"""
    sw = [bi for bi in sorted(b.live) if b.blocks[bi]["term"]["k"] == "switch"]
    out = {}
    if len(sw) != 1:
        return out
    t = b.blocks[sw[0]]["term"]
    for val, tgt in t.get("targets", []):
        names = []
        callee = None
        bi = tgt
        for _ in range(3):
            bl = b.blocks[bi]
            for st in bl["st"]:
                if st["k"] == "assign" and st["r"]["k"] == "use" and "c" in st["r"]["o"] and st["r"]["o"]["c"].get("name"):
                    names.append(st["r"]["o"]["c"]["name"])
            tt = bl["term"]
            if tt["k"] == "call":
                callee = tt.get("callee")
                for a in tt.get("args", []):
                    if "c" in a and a["c"].get("name"):
                        names.append(a["c"]["name"])
                break
            if tt["k"] == "goto" and not names:
                bi = tt["t"]
                continue
            break
        out[val] = (names, callee)
    return out


def variant_tables(prog, rep, rule, spec_name, crate, mod, en, msgs, idfn, encfn):
    """msg_id()/obj_type_id()/connless_id() return the id of the variant; encode_* calls the variant's encoder"""
    a = prog.adts.get("%s::%s::%s" % (crate, mod, en))
    who = "%s %s::%s" % (spec_name, mod.split("::")[-1], en)
    if a is None:
        rep.ob(rule, who + " | variants", False, "no enum %s::%s::%s" % (crate, mod, en))
        return
    at = "%s:%s" % (a.get("file"), a.get("ln"))
    names = [v["name"] for v in a["variants"]]
    wantn = [title(m["name"]) for m in msgs]
    rep.ob(rule, who + " | variants", names == wantn, "one variant per described entry, in order (%d)" % len(names) if names == wantn
           else "variants %s, described %s" % (names[:50], wantn[:50]), at)
    if names != wantn:
        return
    fb = prog.bodies.get("%s::%s::%s::%s" % (crate, mod, en, idfn))
    if fb is None:
        rep.ob(rule, who + " | " + idfn, False, "no function %s" % idfn)
    else:
        arms = arm_info(fb)
        bad = []
        for vi, m in enumerate(msgs):
            want = "%s::%s::%s" % (crate, mod, caps(m["name"]))
            got = arms.get(vi, ([], None))[0]
            if got != [want]:
                bad.append("%s -> %s (expected %s)" % (names[vi], got, caps(m["name"])))
        rep.ob(rule, who + " | " + idfn, not bad and len(arms) == len(msgs), "every variant reports its own id constant (%d)" % len(msgs) if not bad
               else "; ".join(bad)[:400], fb.loc())
    if encfn:
        fb = prog.bodies.get("%s::%s::%s::%s" % (crate, mod, en, encfn))
        if fb is None:
            rep.ob(rule, who + " | " + encfn, False, "no function %s" % encfn)
        else:
            arms = arm_info(fb)
            bad = []
            for vi, m in enumerate(msgs):
                want = struct_path(crate, mod, m)[0] + "::encode"
                got = arms.get(vi, ([], None))[1]
                if got != want:
                    bad.append("%s -> %s (expected %s)" % (names[vi], got, want))
            rep.ob(rule, who + " | " + encfn, not bad and len(arms) == len(msgs), "every variant is encoded by its own encoder (%d)" % len(msgs) if not bad
                   else "; ".join(bad)[:400], fb.loc())


def id_packing(prog, rep):
    """R3: SystemOrGame::encode_id / decode_id are inverse on every described id (bit-provenance evaluation)"""
    from ..bits import BitEval, Unsupported, src_bits, bit_str
    rule = "R3-id-packing"
    fn_d = GC + "msg::SystemOrGame::decode_id"
    fn_e = GC + "msg::SystemOrGame::encode_id"
    d = prog.one(fn_d)
    en = prog.one(fn_e)
    dir_, eir = IR(d), IR(en)
    be = BitEval(prog)
    # ---- encoder: the integer written first
    wi = [(bi, t) for bi, t in en.calls() if (t.get("callee") or "") == PK + "Packer::write_int"]
    wu = [(bi, t) for bi, t in en.calls() if (t.get("callee") or "") == PK + "Packer::write_uuid"]
    if len(wi) != 1 or len(wu) != 1:
        rep.ob(rule, "encode_id shape", False, "expected one write_int and one write_uuid, found %d / %d" % (len(wi), len(wu)), en.loc())
        return
    warg = eir.call_expr(wi[0][0], wi[0][1])[2][1]

    def leaf_e(e):
        e2 = peel(e)
        if e2[0] == "var" and e2[2] == "iid":
            return src_bits("id", 32)
        if e2[0] == "call" and e2[1].endswith("SystemOrGame::is_system"):
            return src_bits("sys", 1)
        return None
    try:
        v = be.eval(warg, {"leaf": leaf_e}, eir)
    except Unsupported as ex:
        rep.ob(rule, "encode_id value", False, "cannot evaluate the written integer %s: %s" % (show(strip_sites(warg)), ex), en.loc())
        return
    want = [("s", "sys", 0)] + [("s", "id", k) for k in range(31)]
    rep.ob(rule, "encode_id value", v == want, "written integer = (id << 1) | system: bit 0 is the system flag, bits 1..31 are id bits 0..30"
           if v == want else "written bits: %s" % [bit_str(b) for b in v], en.loc())
    # asserted: id bit 31 clear, ordinal ids non-zero; uuid written after the int and only for Uuid ids
    conds = [(show(strip_sites(c)), rel, val) for c, rel, val, edge, dty in eir.edge_conditions(wi[0][0])]
    top = any(s_ == "Eq(BitAnd(iid, Shl(1, 31)), 0)" and truth_of(r_, v_) for s_, r_, v_ in conds) or \
        any("BitAnd(iid, " in s_ and truth_of(r_, v_) for s_, r_, v_ in conds)
    rep.ob(rule, "encode_id range assert", top, "ids with bit 31 set are refused (the shift would lose it)" if top else "conditions before the write: %s" % conds, en.loc())
    uconds = [(show(strip_sites(c)), rel, val) for c, rel, val, edge, dty in eir.edge_conditions(wu[0][0])]
    uok = en.dominates(wi[0][0], wu[0][0]) and any(s_.startswith("discr(") and r_ == "==" for s_, r_, v_ in uconds)
    rep.ob(rule, "encode_id uuid", uok, "the 16 UUID bytes follow the integer, only for Uuid ids" if uok else "conditions: %s" % uconds, en.loc())
    # ---- decoder
    ordb = uub = sysb = gameb = None
    for bi in sorted(d.live):
        for si, st in enumerate(d.blocks[bi]["st"]):
            if st["k"] == "assign" and st["r"]["k"] == "agg":
                nm = (st["r"].get("adt") or "").split("::")[-1] + "::" + str(st["r"].get("variant"))
                if nm == "MessageId::Ordinal":
                    ordb = (bi, si, st)
                elif nm == "MessageId::Uuid":
                    uub = (bi, si, st)
                elif nm == "SystemOrGame::System":
                    sysb = (bi, si, st)
                elif nm == "SystemOrGame::Game":
                    gameb = (bi, si, st)
    if not (ordb and uub and sysb and gameb):
        rep.ob(rule, "decode_id shape", False, "the four constructions (Ordinal, Uuid, System, Game) were not found", d.loc())
        return

    def leaf_d(e):
        e2 = peel(e)
        if e2[0] == "unwrapped":
            x = peel(e2[1])
            if x[0] == "call" and x[1] == PK + "Unpacker::read_int":
                return list(v)      # the decoder reads what the encoder wrote
        return None
    oe = dir_.rvalue(ordb[2]["r"], (ordb[0], ordb[1]))[4][0][1]
    try:
        ov = be.eval(oe, {"leaf": leaf_d}, dir_)
    except Unsupported as ex:
        rep.ob(rule, "decode_id ordinal", False, "cannot evaluate %s: %s" % (show(strip_sites(oe)), ex), d.loc())
        return
    # with id bits 30 and 31 clear (every described id; bit 31 is asserted by the encoder)
    idw = [("s", "id", k) for k in range(30)] + [0, 0]
    ovz = [0 if b in (("s", "id", 30), ("s", "id", 31)) else b for b in ov]
    rep.ob(rule, "decode_id ordinal", ovz == idw, "decode(encode(id)) = id for every id below 2^30 (id >> 1 of the written integer)"
           if ovz == idw else "decoded bits: %s" % [bit_str(b) for b in ov], d.loc())
    # branch conditions
    oc = [(c, rel, val) for c, rel, val, edge, dty in dir_.edge_conditions(ordb[0])]
    uc = [(c, rel, val) for c, rel, val, edge, dty in dir_.edge_conditions(uub[0])]
    sc = [(c, rel, val) for c, rel, val, edge, dty in dir_.edge_conditions(sysb[0])]
    gc = [(c, rel, val) for c, rel, val, edge, dty in dir_.edge_conditions(gameb[0])]

    def cond_bits(conds):
        """[(bits of the tested expression, compared-with, truth)] for Ne/Eq(x, 0) conditions"""
        out = []
        for c, rel, val in conds:
            t = truth_of(rel, val)
            if t is None or c[0] != "bin" or c[1] not in ("Ne", "Eq") or cint(c[3]) not in (0, 1):
                continue
            try:
                bv = be.eval(c[2], {"leaf": leaf_d}, dir_)
            except Unsupported:
                continue
            nonzero = t if c[1] == "Ne" else not t
            if cint(c[3]) == 1:
                # `x == 1` is `x != 0` exactly when x has at most bit 0
                if not all(b == 0 for b in bv[1:]):
                    continue
                nonzero = not nonzero
            # only ids below 2^30 are described (and bit 31 is refused by the encoder)
            bv = [0 if b in (("s", "id", 30), ("s", "id", 31)) else b for b in bv]
            out.append((bv, nonzero))
        return out
    ob_ = cond_bits(oc)
    ub_ = cond_bits(uc)
    idsh = [("s", "id", k) for k in range(30)] + [0, 0]
    okb = any(bv == idsh and nz for bv, nz in ob_) and any(bv == idsh and not nz for bv, nz in ub_)
    rep.ob(rule, "decode_id ordinal/uuid split", okb, "Ordinal exactly when (integer >> 1) != 0, otherwise a UUID follows"
           if okb else "conditions: %s / %s" % ([show(strip_sites(c)) for c, r, v_ in oc], [show(strip_sites(c)) for c, r, v_ in uc]), d.loc())
    ue = peel(dir_.rvalue(uub[2]["r"], (uub[0], uub[1]))[4][0][1])
    uok = ue[0] == "unwrapped" and peel(ue[1])[0] == "call" and peel(ue[1])[1] == PK + "Unpacker::read_uuid"
    rep.ob(rule, "decode_id uuid", uok, "the UUID is read with read_uuid (16 raw bytes)" if uok else show(strip_sites(ue)), d.loc())
    sb_ = cond_bits(sc)
    gb_ = cond_bits(gc)
    sysw = [("s", "sys", 0)] + [0] * 31
    oks = any(bv == sysw and nz for bv, nz in sb_) and any(bv == sysw and not nz for bv, nz in gb_)
    rep.ob(rule, "decode_id system flag", oks, "System exactly when bit 0 of the integer is set, and that bit is the encoder's system flag"
           if oks else "conditions: %s / %s" % ([show(strip_sites(c)) for c, r, v_ in sc], [show(strip_sites(c)) for c, r, v_ in gc]), d.loc())
    # is_system / internal_id helpers
    isg = prog.one(GC + "msg::SystemOrGame::is_game")
    tab = switch_table(isg)
    rep.ob(rule, "is_game", tab == {0: 0, 1: 1}, "System -> false, Game -> true" if tab == {0: 0, 1: 1} else str(tab), isg.loc())
    # every described ordinal id is in [1, 2^30)
    bad = []
    cnt = 0
    for spec_name, crate in SPECS:
        spec, path = load_spec(spec_name)
        for sec in ("system_messages", "game_messages"):
            for m in spec[sec]:
                if isinstance(m["id"], int):
                    cnt += 1
                    if not (1 <= m["id"] < (1 << 30)):
                        bad.append("%s %s id %s" % (spec_name, "_".join(m["name"]), m["id"]))
    rep.ob(rule, "described ids in range", not bad, "%d described ordinal message ids are in [1, 2^30)" % cnt if not bad else "; ".join(bad))


def int_string_buffer(prog, rep):
    """R5: int32_string members are re-encoded through string_from_int: its fixed buffer holds the longest decimal i32
    ("-2147483648", 11 bytes), so encoding what was decoded cannot fail"""
    import re
    rule = "R5-int-string-buffer"
    b = prog.one(GC + "msg::string_from_int")
    m = re.search(r"ArrayVec<\[u8; (\d+)\]>", b.raw.get("sig") or "")
    cap = int(m.group(1)) if m else None
    need = len(str(-2 ** 31))
    rep.ob(rule, "capacity", cap is not None and cap >= need,
           "string_from_int returns ArrayVec<[u8; %s]>, the longest i32 needs %d bytes" % (cap, need) if cap is not None and cap >= need else
           "string_from_int's buffer has %s bytes but \"%d\" needs %d: re-encoding a decoded value panics" % (cap, -2 ** 31, need), b.loc())
