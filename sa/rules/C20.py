"""C20 -- the multi-peer endpoint keeps peers isolated (routing / ownership mechanisms)."""
from ..facts import AnchorLost, path_matches, norm_path
from ..ir import IR, show, walk, strip_sites
from ..effects import effects, strip_not
from .C03 import INTERIOR, _collect_adts

LEVEL = "other"
EXPLANATION = (
    "R1 (ownership): Connection owns all of its state (no references, raw pointers or interior mutability in the type tree, from "
    "the ADT facts) and no Connection method takes a parameter through which Net or another peer is reachable other than the "
    "callback wrapper, so a call on one peer's connection cannot touch another's.  R2 (callback wrapping): at every call from "
    "net.rs into a Connection method the callback argument is cc(cb, a) where `a` is the addr field of the same Peer place whose "
    "`conn` is the receiver (in feed_impl: the datagram's source address on the edge where pid_from_addr(addr) returned that "
    "peer).  R3 (routing first): in Net::feed_impl the pid_from_addr lookup dominates every other effect; a peer is created only "
    "on the Control(Connect) && accept_connections edge of the unknown-address branch, and new_peer is otherwise called only by "
    "connect.  R4 (removal): disconnect, reject and ignore pass remove_peer(pid) on every path to return; ReceivePacket::connected "
    "removes the peer on a Disconnect event.  R5 (distinct ids): new_peer returns only from the Vacant arm of the probed id.  "
    "R6: Tick::next ticks every peer with that peer's own address; needs_tick is the min over peers (C02 R3).  Not decided: "
    "observational equivalence with per-peer reference connections over all interleavings (schedule level)."
)
ASSUMPTIONS = ["caller-supplied Callback / Address implementations have no hidden shared state", "PeerMap is a map keyed by peer id (net/src/collections)"]

N = "libtw2_net::net::"
C = "libtw2_net::connection::Connection::"


def run(ctx, rep):
    prog = ctx.prog
    ownership(prog, rep)
    wrapping(prog, rep)
    routing(prog, rep)
    removal(prog, rep)
    distinct_ids(prog, rep)
    tick(prog, rep)


def ownership(prog, rep):
    rule = "R1-ownership"
    seen = set()
    work = ["libtw2_net::connection::Connection"]
    bad = []
    n = 0
    while work:
        p = work.pop()
        if p in seen:
            continue
        seen.add(p)
        a = prog.adts.get(p)
        if a is None:
            continue
        for v in a["variants"]:
            for f in v["fields"]:
                n += 1
                ty = f["ty"]
                if any(x in ty for x in INTERIOR) or ty.startswith("&"):
                    bad.append("%s.%s: %s" % (p, f["n"], ty))
                _collect_adts(f.get("tj"), work)
    rep.ob(rule, "Connection owns its state", not bad,
           "%d fields in %d types reachable from Connection: no reference, raw pointer or interior mutability" % (n, len(seen)) if not bad else
           "shared or interior-mutable state inside Connection: %s" % bad, None)
    # parameters of Connection's public methods: self, cb, warn, data slices, buffers, scalars
    bad = []
    m = 0
    for b in prog.bodies.values():
        if not b.id.startswith(C) or b.is_test or b.kind != "AssocFn" or "{closure" in b.id:
            continue
        m += 1
        for i in range(1, b.argc + 1):
            ty = b.locals[i]["ty"]
            if "libtw2_net::net::" in ty or "Peer" in ty:
                bad.append("%s(%s: %s)" % (b.id, b.locals[i].get("name"), ty))
    rep.ob(rule, "no Connection method receives Net state", not bad and m >= 10,
           "%d Connection methods; none takes a Net/Peer typed parameter" % m if not bad else "Connection methods reaching Net state: %s" % bad, None)


def wrapping(prog, rep):
    rule = "R2-callback-wrapping"
    n = 0
    for b in prog.bodies.values():
        if not (b.id.startswith(N) or b.id.startswith("<" + N)) or b.is_test:
            continue
        ir = None
        for bi, t in b.calls():
            f = t.get("callee") or ""
            if not f.startswith(C):
                continue
            if b.locals and len(t["args"]) < 2:
                continue
            ir = ir or IR(b)
            recv = ir.term_operand(bi, t["args"][0])
            cbarg = None
            for a in t["args"][1:]:
                e = ir.term_operand(bi, a)
                cbarg = cbarg or _find_cc(ir, e)
            if cbarg is None:
                # methods without a callback (needs_tick, is_unconnected)
                tyargs = [b.locals[(a.get("mv") or a.get("cp") or {"l": 0})["l"]]["ty"] for a in t["args"][1:] if (a.get("mv") or a.get("cp"))]
                if any("ConnectionCallback" in x for x in tyargs):
                    rep.ob(rule, "%s -> %s | callback not built by cc()" % (b.id, f.rsplit("::", 1)[-1]), False, "callback argument is not cc(cb, addr)", b.loc(t.get("ln")))
                continue
            n += 1
            addr = cbarg[2][1]
            # receiver: <peer place>.conn ; addr: <same peer place>.addr  (or, in feed_impl, the addr parameter)
            rroot = strip_sites(_peer_of(recv, "conn"))
            aroot = strip_sites(_peer_of(addr, "addr"))
            ok = rroot is not None and rroot == aroot
            how = "same Peer place"
            if not ok and b.id == N + "Net::feed_impl" and addr[0] == "arg" and addr[2] == "addr":
                # the receiver peer was looked up by pid_from_addr(addr) for this very addr
                for e, rel, v, edge, dty in ir.edge_conditions(bi):
                    if e[0] == "discr" and "pid_from_addr" in show(e[1]) and strip_sites(e[1][2][1]) == strip_sites(addr) and \
                       ((rel == "==" and v == 1) or (rel == "notin" and 0 in v)):
                        if "pid_from_addr" in show(recv):
                            ok = True
                            how = "peer found by pid_from_addr(addr)"
            rep.ob(rule, "%s -> %s" % (b.id.replace(N, ""), f.rsplit("::", 1)[-1]), ok,
                   "callback is cc(cb, %s) for receiver %s (%s)" % (show(addr)[:50], show(recv)[:60], how) if ok else
                   "callback address %s does not belong to the receiver %s" % (show(addr)[:60], show(recv)[:60]), b.loc(t.get("ln")))
    rep.floor(rule, n, 8, "calls from net.rs into Connection methods with a callback")


def _find_cc(ir, e):
    """the call cc(cb, addr) an argument denotes (directly, or through the temporary `&mut cc(..)` is bound to)"""
    for x in walk(e):
        if isinstance(x, tuple) and x and x[0] == "call" and x[1] == N + "cc":
            return x
        if isinstance(x, tuple) and x and x[0] == "var":
            init = ir.var_init(x[1])
            if init is not None and init[0] == "call" and init[1] == N + "cc":
                return init
    return None


def _peer_of(e, field):
    """the Peer place whose `.conn` / `.addr` the expression denotes"""
    cur = e
    while True:
        if cur[0] in ("ref",):
            cur = cur[2]
        elif cur[0] in ("deref",):
            cur = cur[1]
        elif cur[0] == "field":
            if cur[2] == field:
                return _strip(cur[1])
            cur = cur[1]
        else:
            return None


def _strip(e):
    while e[0] in ("ref", "deref"):
        e = e[2] if e[0] == "ref" else e[1]
    return e


def routing(prog, rep):
    rule = "R3-routing-first"
    b = prog.one(N + "Net::feed_impl")
    ir = IR(b)
    look = [bi for bi, t in b.calls() if (t.get("callee") or "") == N + "Peers::pid_from_addr"]
    rep.floor(rule, len(look), 1, "pid_from_addr in feed_impl")
    effs = [e for e in effects(b, ir, write_roots=[("a", 0)], use_roots=[("a", 1)]) if e.bb not in look]
    bad = [e for e in effs if not any(b.dominates(l, e.bb) for l in look)]
    rep.ob(rule, "lookup dominates every effect", not bad and len(effs) >= 3,
           "%d effect sites in Net::feed_impl, all after pid_from_addr(addr)" % len(effs) if not bad else
           "effects before the peer lookup: %s" % [e.desc[:60] for e in bad], b.loc())
    np_ = [(bi, t) for bi, t in b.calls() if (t.get("callee") or "") == N + "Peers::new_peer"]
    rep.floor(rule, len(np_), 1, "new_peer in feed_impl")
    for bi, t in np_:
        conds = ir.edge_conditions(bi)
        c_unknown = any(e[0] == "discr" and "pid_from_addr" in show(e[1]) and ((rel == "==" and v == 0) or (rel == "notin" and 1 in v)) for e, rel, v, _, _ in conds)
        c_accept = any("accept_connections" in show(e) and ((rel == "==" and v == 1) or (rel == "notin" and 0 in v)) for e, rel, v, _, _ in conds)
        c_connect = 0
        for e, rel, v, _, _ in conds:
            if e[0] == "discr" and rel == "==":
                ty = ir.type_of(e[1]) or ""
                if ty.endswith("ControlPacket") or "ControlPacket<" in ty:
                    adt = prog.adts.get("libtw2_net::protocol::ControlPacket")
                    if adt and adt["variants"][v]["name"] == "Connect":
                        c_connect += 1
                if "ConnectedPacketType" in ty:
                    adt = prog.adts.get("libtw2_net::protocol::ConnectedPacketType")
                    if adt and adt["variants"][v]["name"] == "Control":
                        c_connect += 1
        ok = c_unknown and c_accept and c_connect >= 2
        rep.ob(rule, "peer created only for Connect on an accepting endpoint", ok,
               "new_peer in feed_impl is dominated by: unknown address=%s, accept_connections=%s, Control(Connect)=%s" % (c_unknown, c_accept, c_connect >= 2), b.loc(t.get("ln")))
    callers = set()
    for bb in prog.bodies.values():
        if bb.is_test:
            continue
        for bi, t in bb.calls():
            if (t.get("callee") or "") == N + "Peers::new_peer":
                callers.add(bb.id)
    rep.ob(rule, "who may create peers", callers == {N + "Net::feed_impl", N + "Net::connect"}, "new_peer is called by %s" % sorted(callers), None)


def removal(prog, rep):
    rule = "R4-removal"
    for fn in ("disconnect", "reject", "ignore"):
        b = prog.one(N + "Net::" + fn)
        rm = [bi for bi, t in b.calls() if (t.get("callee") or "") == N + "Peers::remove_peer"]
        ok = bool(rm) and not any(rb in b.reachable_from(0, removed_blocks=frozenset(rm)) for rb in b.return_blocks())
        ir = IR(b)
        okp = all(show(ir.term_operand(bi, b.blocks[bi]["term"]["args"][1])) == "pid" for bi in rm)
        rep.ob(rule, "Net::%s removes the peer on every path" % fn, ok and okp, "every return of Net::%s passes peers.remove_peer(pid)" % fn, b.loc())
    c = prog.one(N + "ReceivePacket::connected")
    ir = IR(c)
    rm = [bi for bi, t in c.calls() if (t.get("callee") or "") == N + "Peers::remove_peer"]
    ok = False
    for bi in rm:
        for e, rel, v, edge, dty in ir.edge_conditions(bi):
            if e[0] == "discr" and rel == "==":
                adt = prog.adts.get("libtw2_net::connection::ReceiveChunk")
                if adt and v < len(adt["variants"]) and adt["variants"][v]["name"] == "Disconnect":
                    ok = True
    rep.ob(rule, "peer removed on a Disconnect event", ok, "ReceivePacket::connected removes the peer when the connection reports Disconnect", c.loc())
    rp = prog.one(N + "Peers::remove_peer")
    okr = any((t.get("callee") or "").endswith("PeerMap::remove") for _, t in rp.calls())
    rep.ob(rule, "remove_peer removes the map entry", okr, "Peers::remove_peer calls PeerMap::remove(pid)", rp.loc())


def distinct_ids(prog, rep):
    rule = "R5-distinct-ids"
    b = prog.one(N + "Peers::new_peer")
    ir = IR(b)
    rets = b.return_blocks()
    ok = bool(rets)
    for rb in rets:
        c_vac = False
        for e, rel, v, edge, dty in ir.edge_conditions(rb):
            if e[0] == "discr" and "PeerMap::entry" in show(e[1]) and rel == "==":
                adt = prog.adts.get("libtw2_net::collections::peer_map::Entry")
                if adt and adt["variants"][v]["name"] == "Vacant":
                    c_vac = True
        ok = ok and c_vac
    rep.ob(rule, "new_peer returns only a vacant id", ok, "every return of new_peer is on the Vacant arm of peers.entry(peer_id)", b.loc())
    ins = [(bi, t) for bi, t in b.calls() if (t.get("callee") or "").endswith("VacantEntry::insert")]
    ent = [(bi, t) for bi, t in b.calls() if (t.get("callee") or "").endswith("PeerMap::entry")]
    oks = bool(ins) and bool(ent)
    if oks:
        pid_e = ir.term_operand(ent[0][0], ent[0][1]["args"][1])
        oks = "get_and_increment" in show(pid_e)
    rep.ob(rule, "the probed id is the returned id", oks, "entry(peer_id) is probed with the id produced by get_and_increment", b.loc())


def tick(prog, rep):
    rule = "R6-tick-every-peer"
    b = prog.one("<" + N + "Tick as std::iter::Iterator>::next")
    ir = IR(b)
    tk = [(bi, t) for bi, t in b.calls() if (t.get("callee") or "") == C + "tick"]
    rep.floor(rule, len(tk), 1, "conn.tick in Tick::next")
    for bi, t in tk:
        recv = ir.term_operand(bi, t["args"][0])
        cbarg = _find_cc(ir, ir.term_operand(bi, t["args"][1]))
        ok = cbarg is not None and strip_sites(_peer_of(recv, "conn")) == strip_sites(_peer_of(cbarg[2][1], "addr"))
        inloop = any(bi in c and any((tt.get("callee") or "").endswith("IterMut as std::iter::Iterator>::next") for b2, tt in b.calls() if b2 in c) for c in b.sccs())
        rep.ob(rule, "every peer ticked with its own address", ok and inloop,
               "Tick::next calls p.conn.tick(cc(cb, p.addr)) for every p of the peer map iterator", b.loc(t.get("ln")))
