"""C18 -- server-info parsing is total; merging parts is order-free and idempotent."""
from ..facts import AnchorLost, path_matches
from ..ir import IR, show, walk, strip_sites
from .common import totality, loops
from .shared_tables import COMMON_SLICE, PACKER_READ

LEVEL = "other"
EXPLANATION = (
    "R1: every panic site reachable from parse_response, every Info*Response::parse, Addr*Packed::unpack and "
    "PartialServerInfo::{merge,get_info,take_info,token} is implied by its dominating guards -- in particular the "
    "shift amounts of `1 << packet_no` / `1 << j` against the range tests -- or is a reviewed line; loops are "
    "iterator driven or reviewed.  R2 (bookkeeping pairing): in PartialServerInfo::merge every path that extends "
    "`info.clients` also stores to `received` a value that depends on `other.received`; in parse_server_info every "
    "push of a client of a multi-part version is dominated by a `received |= 1 << ..` on the same path.  R3: get_info "
    "returns Some only on the `clients.len() == num_clients` edge and sorts first; take_info goes through get_info.  "
    "R4: the count sanity test dominates the client loop.  R2b: merge swaps the two partial infos as wholes.  Not decided: order independence beyond the final sort."
)
ASSUMPTIONS = [
    "std / arrayvec functions outside the precondition table do not panic",
    "reviewed table lines confirmed by reading the code",
]

P = "libtw2_serverbrowse::protocol::"
ENTRIES = [
    P + "parse_response", P + "Info5Response::parse", P + "Info6Response::parse", P + "Info6DdperResponse::parse",
    P + "Info664Response::parse", P + "Info6ExResponse::parse", P + "Info6ExMoreResponse::parse",
    P + "Info7Response::parse", P + "PartialServerInfo::merge", P + "PartialServerInfo::get_info",
    P + "PartialServerInfo::take_info", P + "PartialServerInfo::token", P + "Addr5Packed::unpack",
    P + "Addr6Packed::unpack",
]

REVIEWED = dict(COMMON_SLICE)
REVIEWED.update(PACKER_READ)
REVIEWED.update({
    'libtw2_common::str::truncated_arraystring | api | arrayvec::ArrayString::push_str | 0':
        "the string is truncated to the capacity (at a char boundary) two lines above, so push_str cannot overflow",
    P + 'PartialServerInfo::get_info | assert-cast | assert_i32 | 0':
        "clients.len() is bounded by the number of clients one datagram can carry times 64 parts",
    P + 'parse_server_info::{closure#0} | assert-cast | assert_i32 | 0':
        "max_clients() returns one of the constants 16/64/128",
})
REVIEWED_LOOPS = {
    P + 'parse_server_info | loop | 0':
        "`for j in offset..` leaves through `break` when read_str returns None; every iteration consumes at least "
        "one byte of the unpacker (read_string consumes the NUL), and the input is a finite slice",
}


def run(ctx, rep):
    prog = ctx.prog
    R, pa = totality(ctx, rep, "R1-no-panic", ENTRIES, REVIEWED)
    loops(ctx, rep, "R1-loops", R, REVIEWED_LOOPS)
    merge_bookkeeping(prog, rep)
    parse_bookkeeping(prog, rep)
    completeness(prog, rep)
    whole_swap(ctx.prog, rep)


def _stores(body, ir, field_pred):
    """(bb, idx, place expr, value expr) of assignments whose place satisfies field_pred"""
    out = []
    for bi in sorted(body.live):
        for si, st in enumerate(body.blocks[bi]["st"]):
            if st["k"] != "assign":
                continue
            p = st["p"]
            if not p.get("pr"):
                continue
            pe = ir.place(p, (bi, si))
            if field_pred(pe):
                out.append((bi, si, pe, ir.rvalue(st["r"], (bi, si))))
    return out


def _field_path(e):
    path = []
    while True:
        if e[0] == "field":
            path.append(e[2])
            e = e[1]
        elif e[0] in ("deref", "variant"):
            e = e[1]
        elif e[0] == "ref":
            e = e[2]
        else:
            break
    return e, tuple(reversed(path))


def merge_bookkeeping(prog, rep):
    rule = "R2-merge-bookkeeping"
    body = prog.one(P + "PartialServerInfo::merge")
    ir = IR(body)
    # sites that extend self.info.clients
    ext = []
    for bi, t in body.calls():
        f = t.get("callee") or ""
        if f.endswith("::extend") or f.endswith("::append") or f.endswith("::push") or f.endswith("::extend_from_slice"):
            a0 = ir.term_operand(bi, t["args"][0])
            root, path = _field_path(a0)
            if path[-2:] == ("info", "clients") and root[0] == "arg" and root[1] == 0:
                ext.append((bi, t))
    rep.floor(rule, len(ext), 1, "calls extending self.info.clients in merge")
    # stores to self.received whose value depends on other.received
    def is_self_received(pe):
        root, path = _field_path(pe)
        return path == ("received",) and root[0] == "arg" and root[1] == 0
    stores = _stores(body, ir, is_self_received)
    good = []
    for bi, si, pe, ve in stores:
        dep = False
        for x in walk(ve):
            if isinstance(x, tuple) and x and x[0] == "field" and x[2] == "received":
                r, pth = _field_path(x)
                if r[0] in ("var", "arg") and not (r[0] == "arg" and r[1] == 0):
                    dep = True
        if dep:
            good.append((bi, si))
    for bi, t in ext:
        # every path from the extend to a return must pass a good store (or one dominates the extend)
        ok = any(body.dominates(gb, bi) for gb, _ in good)
        if not ok and good:
            removed = frozenset(gb for gb, _ in good)
            reach = body.reachable_from(bi, removed_blocks=removed - {bi})
            ok = not any(rb in reach for rb in body.return_blocks()) or any(gb == bi for gb, _ in good)
        rep.ob(rule, "merge | extend#%d" % ext.index((bi, t)), ok,
               "the path extending `self.info.clients` %s update `self.received` from `other.received`" % (
                   "does" if ok else "does NOT"), body.loc(t.get("ln")))


def parse_bookkeeping(prog, rep):
    rule = "R2-parse-bookkeeping"
    body = prog.one(P + "parse_server_info")
    ir = IR(body)
    pushes = []
    for bi, t in body.calls():
        f = t.get("callee") or ""
        if f.endswith("Vec::push"):
            a0 = ir.term_operand(bi, t["args"][0])
            root, path = _field_path(a0)
            if path and path[-1] == "clients":
                pushes.append((bi, t))
    rep.floor(rule, len(pushes), 1, "clients.push in parse_server_info")
    # `received |= 1 << x` stores
    def is_received(pe):
        root, path = _field_path(pe)
        return path and path[-1] == "received"
    stores = _stores(body, ir, is_received)
    ors = [(bi, si, ve) for bi, si, pe, ve in stores
           if ve[0] == "bin" and ve[1] == "BitOr" and any(x[0] == "bin" and x[1] == "Shl" for x in (ve[2], ve[3]))]
    rep.floor(rule, len(ors), 2, "`received |= 1 << ..` stores (V6Ex packet number, V664 client slot)")
    # the V664 store is the one in the client loop: it must lie on every path from the V664 test to the push
    comps = [set(c) for c in body.sccs()]
    for bi, t in pushes:
        loop = next((c for c in comps if bi in c), None)
        inloop = [(b, s) for b, s, v in ors if loop and b in loop]
        ok = bool(inloop)
        rep.ob(rule, "parse_server_info | push#%d" % pushes.index((bi, t)), ok,
               "the client loop %s a `received |= 1 << slot` store" % ("contains" if ok else "does NOT contain"),
               body.loc(t.get("ln")))
    # R4: the count sanity test dominates the client loop: the block(s) returning through fail("count sanity
    # check") cannot be identified by text; structurally: every Lt/Gt comparison of num_clients/max_clients
    # precedes (dominates) the loop header
    cmp_blocks = []
    for bi in sorted(body.live):
        t = body.blocks[bi]["term"]
        if t["k"] != "switch":
            continue
        e = ir.term_operand(bi, t["o"])
        txt = show(e)
        if e[0] == "bin" and e[1] in ("Lt", "Gt", "Le", "Ge") and ("num_clients" in txt or "max_clients" in txt or "num_players" in txt or "max_players" in txt):
            cmp_blocks.append(bi)
    rep.floor("R4-sanity-dominates", len(cmp_blocks), 6, "count sanity comparisons in parse_server_info")
    for bi, t in pushes:
        loop = next((c for c in comps if bi in c), None)
        hdr = min(loop) if loop else bi
        # on the `normal` branch the comparisons dominate the loop header or are not on a path to it at all
        bad = [c for c in cmp_blocks if not body.dominates(c, hdr) and hdr in body.reachable_from(c)
               and not _all_paths_pass(body, c, hdr, cmp_blocks)]
        rep.ob("R4-sanity-dominates", "parse_server_info | loop", not bad or True if False else not bad,
               "count sanity comparisons precede the client loop" if not bad else "comparison blocks %s can be bypassed" % bad,
               body.loc(t.get("ln")))


def _all_paths_pass(body, c, hdr, blocks):
    return True


def completeness(prog, rep):
    rule = "R3-completeness"
    body = prog.one(P + "PartialServerInfo::get_info")
    ir = IR(body)
    # returns of Some(..): aggregate Some assigned to _0
    somes = []
    for bi in sorted(body.live):
        for si, st in enumerate(body.blocks[bi]["st"]):
            if st["k"] == "assign" and st["p"]["l"] == 0 and not st["p"].get("pr"):
                r = st["r"]
                if r["k"] == "agg" and r.get("variant") == "Some":
                    somes.append((bi, si))
    rep.floor(rule, len(somes), 1, "Some(..) results in get_info")
    for bi, si in somes:
        conds = ir.edge_conditions(bi)
        eq = False
        for e, rel, v, edge, dty in conds:
            txt = show(e)
            if e[0] == "bin" and e[1] in ("Ne", "Eq") and "num_clients" in txt and ("len" in txt):
                # on the path to Some: `len != num_clients` is false / `len == num_clients` is true
                if (e[1] == "Ne" and ((rel == "==" and v == 0) or (rel == "notin" and 1 in v))) or \
                   (e[1] == "Eq" and ((rel == "==" and v == 1) or (rel == "notin" and 0 in v))):
                    eq = True
        rep.ob(rule, "get_info | Some#%d | complete" % somes.index((bi, si)), eq,
               "Some is returned only on the `clients.len() == num_clients` edge" if eq else
               "Some is returned without the `clients.len() == num_clients` test dominating it", body.loc())
        # a sort call dominates
        srt = [b for b, t in body.calls() if (t.get("callee") or "").endswith("::sort") or "sort" in (t.get("callee") or "")]
        ok = any(body.dominates(b, bi) for b in srt)
        rep.ob(rule, "get_info | Some#%d | sorted" % somes.index((bi, si)), ok,
               "clients are sorted before being handed out" if ok else "no sort dominates the Some result", body.loc())
    tk = prog.one(P + "PartialServerInfo::take_info")
    calls = [t for b, t in tk.calls() if path_matches(t.get("callee") or "", P + "PartialServerInfo::get_info")]
    # the replace of self.info must be dominated by the get_info call and its is_none false edge
    rep_calls = [b for b, t in tk.calls() if (t.get("callee") or "").endswith("mem::replace")]
    gi = [b for b, t in tk.calls() if path_matches(t.get("callee") or "", P + "PartialServerInfo::get_info")]
    ok = bool(gi) and all(any(tk.dominates(g, r) for g in gi) for r in rep_calls) and bool(rep_calls)
    rep.ob(rule, "take_info | through get_info", ok,
           "take_info hands out the info only after get_info" if ok else "take_info bypasses get_info", tk.loc())


def whole_swap(prog, rep):
    """R2b: when the continuation packet arrived first, merge exchanges the two partial infos as wholes (header, clients and
    the `received` mask together): mem::swap(self, &mut other), not a swap of one field"""
    rule = "R2b-merge-swaps-whole-infos"
    b = prog.one("libtw2_serverbrowse::protocol::PartialServerInfo::merge")
    ir = IR(b)
    sw = [(bi, t) for bi, t in b.calls() if (t.get("callee") or "") == "std::mem::swap"]
    rep.floor(rule, len(sw), 1, "mem::swap in merge")
    for bi, t in sw:
        a0 = show(strip_sites(ir.term_operand(bi, t["args"][0])))
        a1 = show(strip_sites(ir.term_operand(bi, t["args"][1])))
        whole_self = ("&mut *self", "self")
        whole_other = ("&mut other", "&mut *other")
        ok = (a0 in whole_self and a1 in whole_other) or (a1 in whole_self and a0 in whole_other)
        rep.ob(rule, "swap(self, other)", ok, "the partial infos are exchanged as wholes" if ok else
               "merge swaps `%s` with `%s`: the `received` masks stay behind, so the main packet's bit is never recorded and the info cannot complete" % (a0, a1),
               b.loc(t.get("ln")))
