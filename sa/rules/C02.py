"""C02 -- connection makes progress: every call returns, timers are armed."""
from .common import loops, resolve_entries
from .entries import pub_fns
from . import tables as T
from ..facts import AnchorLost, path_matches
from ..ir import IR, show, walk, strip_sites
from ..effects import effects, strip_not, bool_edge
from .C04 import _can_fit_defs_ok, _can_fit_locals

LEVEL = "other"
EXPLANATION = (
    "Decides (a) termination of every call into Connection / Net and (b) the timer-arming mechanisms; does not decide "
    "liveness under a fair suffix.  R1 (loop inventory): every CFG cycle in every body reachable from the public API of "
    "connection, connection7 and net is driven by a finite iterator / consuming reader or is a reviewed line with its variant.  "
    "R2 (resend progress): the one cycle of Connection::resend that does not advance its counter flushes instead; it is accepted "
    "only if afterwards the chunk is admitted: either the budget inequality Amax + Hv <= B holds for the constants extracted from "
    "send() and can_fit_chunk(), or the admission test in resend has an `empty packet` disjunct and OnlineState::flush clears the "
    "packet on every path.  R3 (timer arming): ResendChunk::new passes start_timeout on every path; resend re-arms every queued "
    "chunk before rebuilding; in tick_action every arm that sends a control packet or flushes passes send.set first; flush, "
    "send_connless and new_accept_token arm the send timer; needs_tick returns `inactive` outright only for "
    "Unconnected|Disconnected and otherwise min(send, oldest resend timer); Timestamp's OptOrd is plain cmp; Net::needs_tick is the "
    "min over peers.  R3b: Net's Tick iterator ticks every peer (shared with C20 R6).  R2b: can_fit_chunk bounds the 8-bit chunk counter (shared with C04 B7).  R4 (resend request plumbing): request_resend is set on the non-Current edge of the sequence update and "
    "feed_impl reaches resend on the request_resend && Online edge."
)
EXPLANATION += ("  Round 4: R3 (c') has_triggered_edge consumes the send timer -- in tick() every path from such a call to a return takes its `not fired` edge or reaches tick_action (a consumed timer whose action is skipped is never armed again); the trigger relation deadline <= now is looked for in the closure form and in the match form.  The resend admission analysis (shared with C04 B7) no longer depends on the local's name: admission edges are the true edges of tests of can_fit_chunk(..), of `<sent packet>.num_chunks == 0`, or of a bool local that holds such a decision.")
ASSUMPTIONS = [
    "the `optional` crate's none value for u64 is u64::MAX and Optioned orders by OptOrd (external crate, not analysed)",
    "caller-supplied Callback implementations return",
    "reviewed loop lines confirmed by reading the code",
]
PREFIXES = ["libtw2_net::connection::", "libtw2_net::connection7::", "libtw2_net::net::"]


def run(ctx, rep):
    prog = ctx.prog
    ents = pub_fns(prog, PREFIXES)
    R = ctx.cg.reachable(ents)
    rep.extra["entry_points"] = len(ents)
    rep.extra["reachable_bodies"] = len(R)
    loops(ctx, rep, "R1-loops", R, T.loops("looptable"))
    for ver, mod, pmod in (("0.6", "libtw2_net::connection", "libtw2_net::protocol"),
                           ("0.7", "libtw2_net::connection7", "libtw2_net::protocol7")):
        resend_progress(ctx, rep, ver, mod, pmod)
        timers(prog, rep, ver, mod)
        plumbing(prog, rep, ver, mod)
    net_min(prog, rep)
    # a timer armed on a peer is of no use if Net::tick does not reach that peer: the Tick iterator visits every peer
    # (shared with C20 R6), and the chunk counter cannot overflow while queueing (shared with C04 B7: the call would not return)
    from .C20 import tick as tick_every_peer
    from .C04 import chunk_count
    from ..report import Report
    sub = Report("C02", rep.tier, rep.seed)
    tick_every_peer(prog, sub)
    for ver, mod in (("0.6", "libtw2_net::connection"), ("0.7", "libtw2_net::connection7")):
        chunk_count(prog, sub, ver, mod)
    for o in sub.obs:
        tail = o["key"].split(" | ", 2)[2]
        rep.ob("R3b-every-peer-ticked" if o["rule"].startswith("R6") else "R2b-chunk-counter-bounded", tail, o["ok"], o["detail"], o["at"])


def resend_progress(ctx, rep, ver, mod, pmod):
    rule = "R2-resend-progress"
    prog = ctx.prog
    b = prog.one(mod + "::Connection::resend")
    ir = IR(b)
    comps = [set(c) for c in b.sccs()]
    # the rebuilding loop: the component containing the write_chunk call
    wc = [bi for bi, t in b.calls() if (t.get("callee") or "").endswith("PacketContents::write_chunk")]
    fl = [bi for bi, t in b.calls() if (t.get("callee") or "").endswith("OnlineState::flush")]
    loop = next((c for c in comps if wc and wc[0] in c), None)
    if loop is None or not fl:
        raise AnchorLost("%s resend: rebuilding loop with write_chunk and flush not found" % ver)
    # (0) the loop guard is exactly `i < resend_queue.len()`: the element access queue[len - i - 1] (reviewed under C04 R3
    # against this very guard) is inside the range only for i < len
    idx = [bi for bi, t in b.calls() if (t.get("callee") or "").endswith("as std::ops::Index>::index") and bi in loop]
    okg = False
    for bi in idx:
        for c, rel, v, edge, dty in ir.edge_conditions(bi):
            if edge[0] not in loop or c[0] != "bin" or c[1] not in ("Lt", "Le", "Gt", "Ge"):
                continue
            txt_l, txt_r = show(strip_sites(c[2])), show(strip_sites(c[3]))
            truth = (rel == "==" and v == 1) or (rel == "notin" and 0 in v)
            op = c[1] if truth else {"Lt": "Ge", "Le": "Gt", "Gt": "Le", "Ge": "Lt"}[c[1]]
            if "resend_queue" in txt_l and "len" in txt_l:
                op = {"Lt": "Gt", "Le": "Ge", "Gt": "Lt", "Ge": "Le"}[op]
                txt_l, txt_r = txt_r, txt_l
            if "resend_queue" in txt_r and "len" in txt_r and op == "Lt":
                okg = True
    rep.ob(rule, "%s | the rebuilding loop runs while i < resend_queue.len()" % ver, okg and bool(idx),
           "the element access is dominated by i < len" if okg else
           "the loop guard is not `i < resend_queue.len()`: with `<=` the access queue[len - i - 1] underflows after the last chunk", b.loc())
    # (1) the counter compared in the loop guard is advanced in the block of write_chunk's branch
    adv = False
    for bi in loop:
        for si, st in enumerate(b.blocks[bi]["st"]):
            if st["k"] == "assign" and not st["p"].get("pr") and (ir.lname(st["p"]["l"]) or "") == "i":
                adv = True
    # every cycle through the loop passes either the advance (same arm as write_chunk) or the flush
    rest = loop - set(wc) - set(fl)
    # the two tests `if can_fit {..}` / `if !can_fit {..}` read the same variable (no assignment in between):
    # check the two consistent valuations separately
    cfl = _can_fit_locals(ir)
    tests = []
    for bi in loop:
        t = b.blocks[bi]["term"]
        if t["k"] == "switch":
            e, neg = strip_not(ir.term_operand(bi, t["o"]))
            if t.get("dty") == "bool":
                tests.append((bi, neg, e))
    # keep the tests whose operand is read by at least two switches (exactly the same value: same
    # expression, same epoch, same call site)
    cnt = {}
    for _, _, e in tests:
        cnt[e] = cnt.get(e, 0) + 1
    grp = [e for e, n_ in cnt.items() if n_ >= 2]
    tests = [(bi, neg, e) for bi, neg, e in tests if grp and e == grp[0]]
    acyclic = True
    same_version = bool(tests)
    for tv in (True, False):
        removed = set()
        if same_version:
            for bi, neg, e in tests:
                # edge taken when the variable has value tv: operand value = tv != neg
                take = bool_edge(b, bi, tv != neg)
                for sdst in b.succ[bi]:
                    if sdst != take:
                        removed.add((bi, sdst))
        if _has_cycle(b, rest, removed):
            acyclic = False
    rep.ob(rule, "%s | every cycle advances or flushes" % ver, adv and acyclic,
           "each iteration of the rebuilding loop writes a chunk (i += 1) or flushes" if adv and acyclic else
           "the rebuilding loop of resend has a cycle that neither advances nor flushes", b.loc())
    # (2) after a flush the chunk is admitted
    c = lambda n: prog.constv(pmod + "::" + n)
    from .C04 import budgets
    # budget form
    from ..guards import Reasoner, Lin
    send = prog.one(mod + "::Connection::send")
    sir = IR(send)
    rs = Reasoner(sir, prog)
    amax = None
    for bi, t in send.calls():
        if (t.get("callee") or "") == mod + "::Connection::queue":
            facts, nes = rs.facts_at(bi)
            ll = rs.len_lin(sir.term_operand(bi, t["args"][2]))
            for cand in sorted(set([c("MAX_PAYLOAD"), 1023, 4095, 1400, 2048])):
                if rs.prove(ll.sub(Lin.const(cand)), facts):
                    amax = cand
                    break
    B = c("MAX_PAYLOAD")
    hv = c("CHUNK_HEADER_SIZE_VITAL")
    budget_ok = amax is not None and amax + hv <= B
    from .C04 import resend_admission, _sent_field
    _adm, _defs_ok, _has_empty = resend_admission(b, ir, mod, _sent_field(prog, mod))
    disj = _defs_ok and _has_empty
    fb = prog.one(mod + "::OnlineState::flush")
    fir = IR(fb)
    clears = [show(fir.term_operand(bi, t["args"][0])) for bi, t in fb.calls() if (t.get("callee") or "").endswith("PacketContents::clear")]
    # clear() on every path that sends: the clears post-dominate the builder.send call
    sends = [bi for bi, t in fb.calls() if (t.get("callee") or "").endswith("PacketBuilder::send")]
    clear_blocks = [bi for bi, t in fb.calls() if (t.get("callee") or "").endswith("PacketContents::clear") and show(fir.term_operand(bi, t["args"][0])).endswith(".packet")]
    clears_ok = bool(sends) and bool(clear_blocks) and all(
        not any(rb in fb.reachable_from(s, removed_blocks=frozenset(clear_blocks) - {s}) for rb in fb.return_blocks()) for s in sends)
    ok = budget_ok or (disj and clears_ok)
    rep.ob(rule, "%s | a flushed packet admits the chunk" % ver, ok,
           ("budget: Amax %s + Hv %d <= B %d is %s; empty-packet disjunct in resend: %s; flush clears the packet on every sending path: %s"
            % (amax, hv, B, budget_ok, disj, clears_ok)) if ok else
           ("resend can spin: a chunk of up to %s bytes + %d header exceeds the admission bound %d, resend has %s empty-packet "
            "disjunct and flush clears=%s" % (amax, hv, B, "an" if disj else "NO", clears_ok)), b.loc())


def _has_empty_disjunct(b, ir):
    for l in _can_fit_locals(ir):
        for (bi, si, kind, node) in ir.defs.get(l, []):
            if kind == "assign":
                e = ir.rvalue(node["r"], (bi, si))
                if e[0] == "bin" and e[1] == "Eq" and "num_chunks" in show(e) and e[3][0] == "c" and e[3][1] == 0:
                    return True
                if e[0] == "call" and e[1].endswith("is_empty") and "packet" in show(e):
                    return True
    return False


def _has_cycle(body, nodes, removed=frozenset()):
    color = {}

    def succ(v):
        return [w for w in body.succ[v] if w in nodes and (v, w) not in removed]

    def dfs(v):
        st = [(v, iter(succ(v)))]
        color[v] = 1
        while st:
            u, it = st[-1]
            adv = False
            for w in it:
                if color.get(w) == 1:
                    return True
                if color.get(w) is None:
                    color[w] = 1
                    st.append((w, iter(succ(w))))
                    adv = True
                    break
            if not adv:
                color[u] = 2
                st.pop()
        return False

    for v in nodes:
        if color.get(v) is None and dfs(v):
            return True
    return False


def _must_pass(body, targets, sinks):
    """every path from entry to any block in `sinks` passes a block in `targets`"""
    reach = body.reachable_from(0, removed_blocks=frozenset(targets) - set(sinks))
    bad = [s for s in sinks if s in reach and s not in targets]
    return not bad


def timers(prog, rep, ver, mod):
    rule = "R3-timer-arming"
    # (a) ResendChunk::new -> start_timeout on every path
    b = prog.one(mod + "::ResendChunk::new")
    st = [bi for bi, t in b.calls() if (t.get("callee") or "") == mod + "::ResendChunk::start_timeout"]
    ok = bool(st) and _must_pass(b, st, b.return_blocks())
    rep.ob(rule, "%s | ResendChunk::new arms the retransmit timer" % ver, ok,
           "every path to the return of ResendChunk::new passes start_timeout", b.loc())
    stb = prog.one(mod + "::ResendChunk::start_timeout")
    sets = [bi for bi, t in stb.calls() if (t.get("callee") or "").endswith("TimeoutExt>::set") or (t.get("nf") or "").endswith("TimeoutExt::set")]
    ok = bool(sets) and _must_pass(stb, sets, stb.return_blocks())
    rep.ob(rule, "%s | start_timeout sets next_send" % ver, ok, "start_timeout calls next_send.set(..) on every path", stb.loc())
    # (a') a timer has triggered when its deadline is not after the current time (`deadline <= now`): the application is told
    # to tick *at* the deadline (needs_tick), so `<` would never fire there and the endpoint would spin without progress
    from ..bits import BitEval, Unsupported
    lv = [b_ for k_, b_ in prog.bodies.items() if k_.endswith("TimeoutExt>::has_triggered_level") and k_.startswith("<" + mod.split("::")[0]) and (mod + "::") in k_]
    if not lv:
        lv = [b_ for k_, b_ in prog.bodies.items() if "has_triggered_level" in k_ and "closure" not in k_ and (mod + "::") in k_]
    if not lv:
        raise AnchorLost("%s: TimeoutExt::has_triggered_level not found" % ver)
    hb = lv[0]
    hir = IR(hb)
    be = BitEval(prog)
    # the comparison may sit in a closure handed to Option::map or in the body itself (`match self.to_opt() { Some(d) => .. }`)
    cands = []
    for bi, t in hb.calls():
        if (t.get("callee") or "") == "std::option::Option::map":
            e = hir.call_expr(bi, t)
            for x in walk(e):
                if isinstance(x, tuple) and x and x[0] == "agg" and x[1] == "closure":
                    try:
                        ce, rb = be.ret_expr(x[2])
                        cands.append(ce)
                    except Unsupported:
                        pass
        f_ = (t.get("callee") or "")
        if f_.split("::")[-1] in ("le", "ge", "lt", "gt") and ("PartialOrd" in f_ or "cmp::" in f_):
            cands.append(hir.call_expr(bi, t))
    for bi in sorted(hb.live):
        for si, st in enumerate(hb.blocks[bi]["st"]):
            if st["k"] == "assign" and st["r"]["k"] == "bin" and st["r"].get("op") in ("Le", "Ge", "Lt", "Gt"):
                cands.append(hir.rvalue(st["r"], (bi, si)))
    verdicts = []
    for ce in cands:
        op = None
        if ce[0] == "bin" and ce[1] in ("Le", "Ge", "Lt", "Gt"):
            op = ce[1]
            now_left = "time(" in show(strip_sites(ce[2])) or "Callback" in show(strip_sites(ce[2]))
        elif ce[0] == "call" and ce[1].split("::")[-1] in ("le", "ge", "lt", "gt") and len(ce[2]) == 2:
            op = {"le": "Le", "ge": "Ge", "lt": "Lt", "gt": "Gt"}[ce[1].split("::")[-1]]
            a0 = show(strip_sites(ce[2][0]))
            now_left = "time(" in a0 or "Callback" in a0
        if op is None:
            continue
        if now_left:
            op = {"Le": "Ge", "Ge": "Le", "Lt": "Gt", "Gt": "Lt"}[op]
        verdicts.append(op == "Le")
    okl = bool(verdicts) and all(verdicts)
    rep.ob(rule, "%s | a timer has triggered when deadline <= now" % ver, okl,
           "has_triggered_level = deadline.map(|t| t <= cb.time())" if okl else
           "has_triggered_level does not fire at the deadline itself: ticking at the time needs_tick() reports makes no progress", hb.loc())
    # (b) resend re-arms every chunk before rebuilding
    r = prog.one(mod + "::Connection::resend")
    rst = [bi for bi, t in r.calls() if (t.get("callee") or "") == mod + "::ResendChunk::start_timeout"]
    wc = [bi for bi, t in r.calls() if (t.get("callee") or "").endswith("PacketContents::write_chunk")]
    ok = bool(rst) and bool(wc) and any(any(rb in c for rb in rst) for c in r.sccs()) and \
        all(_reaches_before(r, rst[0], w) for w in wc)
    rep.ob(rule, "%s | resend re-arms the queued chunks" % ver, ok,
           "resend calls start_timeout in a loop over the resend queue before it rebuilds the packet", r.loc())
    # (c) tick_action: send.set precedes every send_control / flush
    ta = prog.one(mod + "::Connection::tick_action")
    tir = IR(ta)
    sets = []
    for bi, t in ta.calls():
        f = (t.get("callee") or "")
        if f.endswith("TimeoutExt>::set"):
            a0 = tir.term_operand(bi, t["args"][0])
            if "self.send" in show(a0):
                sets.append(bi)
    sinks = [bi for bi, t in ta.calls() if (t.get("callee") or "").endswith("::send_control") or (t.get("callee") or "").endswith("OnlineState::flush")
             or (t.get("callee") or "").endswith("::send_control_with_token")]
    ok = bool(sinks) and bool(sets) and _must_pass(ta, sets, sinks)
    rep.ob(rule, "%s | tick_action re-arms before every send" % ver, ok,
           "every path to a control send / flush in tick_action passes send.set (%d sets, %d sends)" % (len(sets), len(sinks)), ta.loc())
    # (c') has_triggered_edge *consumes* the send timer (it disarms it when it fires).  In tick() every path from such a call to
    # a return must either take the `not fired` edge of the test on its result or reach tick_action (which re-arms): a consumed
    # timer whose action is skipped (e.g. because a resend took precedence) is never armed again -- no keep-alives, no resends.
    tk = prog.one(mod + "::Connection::tick")
    kir = IR(tk)
    edge_calls = [(bi, t) for bi, t in tk.calls() if "has_triggered_edge" in (t.get("callee") or t.get("nf") or "")]
    acts = frozenset(bi for bi, t in tk.calls() if (t.get("callee") or "").endswith("::tick_action"))
    rep.floor(rule, len(edge_calls), 1, "%s: calls of has_triggered_edge in Connection::tick" % ver)
    for n_, (cbi, ct) in enumerate(edge_calls):
        dl = ct["dest"]["l"] if ct.get("dest") else None
        notfired = set()
        for bi in sorted(tk.live):
            t = tk.blocks[bi]["term"]
            if t["k"] != "switch":
                continue
            o = t["o"].get("mv") or t["o"].get("cp")
            e, neg = strip_not(kir.term_operand(bi, t["o"]))
            direct = o is not None and o.get("l") == dl and not o.get("pr")
            viaexpr = e[0] == "call" and "has_triggered_edge" in e[1]
            if direct or viaexpr:
                fe = bool_edge(tk, bi, neg)         # edge on which the (possibly negated) operand is false = not fired
                if fe is not None:
                    notfired.add((bi, fe))
        ok = bool(notfired) and bool(acts)
        if ok:
            reach = tk.reachable_from(ct.get("t"), removed_edges=frozenset(notfired), removed_blocks=acts)
            ok = not any(r_ in reach for r_ in tk.return_blocks())
        rep.ob(rule, "%s | a consumed send timer is followed by tick_action | %d" % (ver, n_), ok,
               "every path from has_triggered_edge() == true to the end of tick() passes tick_action" if ok else
               "tick() can return after has_triggered_edge() consumed the send timer without calling tick_action: the timer is never re-armed",
               tk.loc(ct.get("ln")))
    # every state with an action: the arms of the match -- count them against the needs_tick inactive set
    nt = prog.one(mod + "::Connection::needs_tick")
    nir = IR(nt)
    adt = prog.adt(mod + "::State")
    names = [v["name"] for v in adt["variants"]]
    inactive_arm = set()
    for bi in sorted(nt.live):
        t = nt.blocks[bi]["term"]
        if t["k"] == "switch":
            e = nir.term_operand(bi, t["o"])
            if e[0] == "discr" and nir.access_path(e[1])[1][-1:] == ("state",):
                # targets that lead straight to a return of Timeout::inactive()
                for v, tb in t["targets"]:
                    if _returns_inactive(nt, tb):
                        inactive_arm.add(names[v])
                break
    want = {"Unconnected", "Disconnected"}
    rep.ob(rule, "%s | needs_tick is inactive outright only when idle" % ver, inactive_arm == want,
           "needs_tick returns Timeout::inactive() immediately exactly for %s" % sorted(inactive_arm), nt.loc())
    mins = [bi for bi, t in nt.calls() if (t.get("callee") or "") in ("std::cmp::min", "std::cmp::Ord::min")]
    okm = False
    for bi in mins:
        t = nt.blocks[bi]["term"]
        a = [show(nir.term_operand(bi, x)) for x in t["args"]]
        if any(x.endswith("self.send") for x in a) and t["dest"]["l"] == 0:
            okm = True
    rep.ob(rule, "%s | needs_tick = min(send, oldest resend timer)" % ver, okm,
           "the result of needs_tick is cmp::min(self.send, resends)", nt.loc())
    # resends comes from resend_queue.back().next_send
    backs = [bi for bi, t in nt.calls() if (t.get("callee") or "").endswith("VecDeque::back")]
    rep.ob(rule, "%s | resends is the oldest queued chunk's timer" % ver, bool(backs),
           "needs_tick looks at resend_queue.back()", nt.loc())
    # flush / send_connless / new_accept_token arm the send timer
    for fn in ("flush", "send_connless", "new_accept_token", "connect"):
        if not prog.find(mod + "::Connection::" + fn):
            continue
        fb = prog.one(mod + "::Connection::" + fn)
        fir = IR(fb)
        direct = [bi for bi, t in fb.calls() if (t.get("callee") or "").endswith("TimeoutExt>::set")]
        via = [bi for bi, t in fb.calls() if (t.get("callee") or "").endswith("::tick_action")]
        ok = bool(direct or via) and _must_pass(fb, direct + via, fb.return_blocks())
        rep.ob(rule, "%s | %s arms the send timer" % (ver, fn), ok,
               "every path through Connection::%s passes send.set (directly or through tick_action)" % fn, fb.loc())


def _reaches_before(body, a, b):
    return b in body.reachable_from(a)


def _returns_inactive(body, bb):
    seen = set()
    while bb is not None and bb not in seen:
        seen.add(bb)
        t = body.blocks[bb]["term"]
        if t["k"] == "call":
            if (t.get("callee") or "").endswith("Timeout::inactive") and t["dest"]["l"] == 0:
                return True
            return False
        if t["k"] == "goto":
            bb = t["t"]
        else:
            return False
    return False


def plumbing(prog, rep, ver, mod):
    rule = "R4-resend-request"
    c = prog.one(mod + "::ReceivePacket::connected")
    ir = IR(c)
    n = 0
    for bi in sorted(c.live):
        for si, st in enumerate(c.blocks[bi]["st"]):
            if st["k"] == "assign" and st["p"].get("pr"):
                pe = ir.place(st["p"], (bi, si))
                if ir.access_path(pe)[1][-1:] == ("request_resend",):
                    n += 1
                    v = ir.rvalue(st["r"], (bi, si))
                    ok = False
                    for e, rel, val, edge, dty in ir.edge_conditions(bi):
                        e2, neg = strip_not(e)
                        txt = show(e2)
                        if "Sequence::update" in txt and ("ne" in txt or "eq" in txt or e2[0] == "bin"):
                            ok = True
                    rep.ob(rule, "%s | request_resend set on the non-Current edge" % ver, ok and v[0] == "c" and v[1] == 1,
                           "request_resend = true is dominated by `ack.update(seq) != Current`", c.loc(st.get("ln")))
    rep.floor(rule, n, 1, "%s: stores to request_resend in ReceivePacket::connected" % ver)
    f = prog.one(mod + "::Connection::feed_impl")
    fir = IR(f)
    rs = [(bi, t) for bi, t in f.calls() if (t.get("callee") or "") == mod + "::Connection::resend"]
    rep.floor(rule, len(rs), 1, "%s: feed_impl -> resend" % ver)
    adt = prog.adt(mod + "::State")
    online = [i for i, v in enumerate(adt["variants"]) if v["name"] == "Online"][0]
    for bi, t in rs:
        conds = fir.edge_conditions(bi)
        okr = any("Chunks).0" in show(e) and ((rel == "==" and v == 1) or (rel == "notin" and 0 in v)) for e, rel, v, _, _ in conds)
        oko = any(e[0] == "discr" and fir.access_path(e[1])[1][-1:] == ("state",) and rel == "==" and v == online for e, rel, v, _, _ in conds)
        rep.ob(rule, "%s | feed_impl resends on request_resend && Online" % ver, okr and oko,
               "the call to resend in feed_impl is dominated by the packet's resend flag and the Online state", f.loc(t.get("ln")))


def net_min(prog, rep):
    rule = "R3-timer-arming"
    b = prog.one("libtw2_net::net::Net::needs_tick")
    ir = IR(b)
    okmin = any((t.get("callee") or "").endswith("::min") for _, t in b.calls())
    cl = [prog.bodies[k] for k in prog.bodies if k.startswith("libtw2_net::net::Net::needs_tick::{closure")]
    okc = any(any((t.get("callee") or "") == "libtw2_net::connection::Connection::needs_tick" for _, t in c.calls()) for c in cl)
    if not okc:
        # written as a loop: conn.needs_tick() is called inside a cycle of the body that is driven by the peers iterator
        inloop = set(x for comp in b.sccs() for x in comp)
        okc = any((t.get("callee") or "") == "libtw2_net::connection::Connection::needs_tick" and bi in inloop for bi, t in b.calls())
    rep.ob(rule, "net | Net::needs_tick is the min over peers", okmin and okc,
           "Net::needs_tick maps every peer to conn.needs_tick() and takes the minimum", b.loc())
    oc = prog.one("<libtw2_net::time::Timestamp as optional::OptOrd>::opt_cmp")
    okp = any((t.get("callee") or "").endswith("::cmp") for _, t in oc.calls()) and not oc.sccs() and \
        len([1 for bi in oc.live if oc.blocks[bi]["term"]["k"] == "switch"]) == 0
    rep.ob(rule, "time | OptOrd is plain cmp", okp, "Timestamp::opt_cmp is self.cmp(other) without special cases (none = largest value)", oc.loc())
