"""C16 -- datafile and map readers are total; accepted files are fully traversable."""
from .common import standard_totality
from ..facts import AnchorLost, path_matches, norm_path
from ..ir import IR, show, walk, strip_sites
from ..effects import strip_not

LEVEL = "other"
EXPLANATION = (
    "R1 (no panic, no loop for open + every accessor): every panic site reachable from the public API of datafile (raw, format, "
    "file, bitmagic), map (reader, format) and zlib-minimal follows from its dominating guards or is a reviewed line that names "
    "the validation clause it rests on.  R2a (validation-clause table): Reader::check must still contain, as comparisons on "
    "error-returning edges, the clauses the accessor sites are tied to (type ids in range and increasing, 0 <= num <= num_items - "
    "start, start == expected, last type ends at num_items, item offsets non-negative and contiguous, header and body inside "
    "size_items, item size non-negative and divisible by 4, data offsets non-decreasing within size_data, ...) and Reader::new must "
    "call check on every path to Ok.  R2b (validate before arithmetic): inside Reader::check every checked arithmetic operation on a "
    "value loaded from the file tables (t.start, t.num, item_offsets[i], item sizes, data offsets) is dominated by a comparison "
    "that mentions that same value.  R3 (OnlyI32 inventory): every `unsafe impl OnlyI32` is for i32 or for a repr(C) struct all of "
    "whose fields are i32 / OnlyI32 types (from the ADT facts), which is what the word-reinterpreting accessors rely on.  "
    "R2c: inside check, item_header(i) is called only after the clause that bounds the item header passed for this i.  R4: map::reader::get_index_impl returns Some(i) only with i < indices.end.  Not decided: `returns exactly what was stored` (value level)."
)
ASSUMPTIONS = [
    "zlib uncompress is bounded by the destination length passed (FFI boundary)",
    "reviewed table lines confirmed by reading the code; SUSPECT lines are not trusted",
]
TABLES = ["datafile", "map", "common", "buffer", "looptable", "postfix"]
R = "libtw2_datafile::raw::Reader::"


def run(ctx, rep):
    standard_totality(ctx, rep, "C16", TABLES, rule="R1-no-panic")
    clauses(ctx.prog, rep)
    validate_before_arithmetic(ctx.prog, rep)
    only_i32(ctx.prog, rep)
    accessor_after_clause(ctx.prog, rep)
    index_helper_postcondition(ctx.prog, rep)
    from .common import check_refusal_inventory
    check_refusal_inventory(ctx.prog, rep, "R5-refusal-inventory", ("libtw2_datafile::", "libtw2_map::", "libtw2_zlib_minimal::"))


def _error_clauses(body, ir, variant="Malformed"):
    """conditions (normalised text, op) under which `check` returns Err(Malformed): the closest
    dominating comparison of every block that builds the error value"""
    out = []
    for bi in sorted(body.live):
        for si, st in enumerate(body.blocks[bi]["st"]):
            if st["k"] == "assign" and st["r"]["k"] == "agg" and st["r"].get("variant") == variant:
                conds = ir.edge_conditions(bi)
                # conditions are ordered from the closest dominator outwards
                for e, rel, v, edge, dty in conds[:3]:
                    e2, neg = strip_not(e)
                    truth = ((rel == "==" and v == 1) or (rel == "notin" and 0 in v)) != neg
                    out.append((e2, truth, st.get("ln")))
    return out


# ---- exact clause table -------------------------------------------------------------------------------------
# Reader::check is a pure validator: every comparison it branches on either lets the file pass or refuses it.  For each
# comparison the *refusal relation* `A op B` is recovered (the operands as written, the operator folded with the negations
# and with the side of the branch from which Ok(()) is no longer reachable) and put into a canonical orientation (the
# operand that is a value of the file tables on the left).  Each line below names a clause by the shape of its operands
# (struct fields of the format, constants) and gives the operator under which the file must be refused.
from .common import FLIP, NEGATE, SYM, _is0, _txt, refusal_relations, _orient, exact_clauses


RANGE_CONST = "libtw2_datafile::format::ITEMTYPE_ID_RANGE"
# (clause, left-operand predicate, right-operand predicate, refusal operator, how many times)
EXACT = [
    ("type_id < 0", lambda a: _txt(a).endswith(".type_id"), _is0, "Lt", 1),
    ("type_id >= ITEMTYPE_ID_RANGE", lambda a: _txt(a).endswith(".type_id"),
     lambda b: (b[0] == "c" and len(b) > 3 and (b[3] or "").endswith("ITEMTYPE_ID_RANGE")) or _txt(b).startswith("*&i32") or "ITEMTYPE_ID_RANGE" in _txt(b), "Ge", 1),
    ("type_id <= previous type_id (ids strictly increasing)", lambda a: _txt(a).endswith(".type_id") and "next" in _txt(a), lambda b: b[0] != "c" and not _txt(b).endswith(".type_id") and "type_id" not in _txt(b).split(".")[-1], "Le", 1),
    ("type_id == an earlier type's type_id", lambda a: _txt(a).endswith(".type_id"), lambda b: _txt(b).endswith(".type_id"), "Eq", 1),
    ("start != running total of the previous types", lambda a: _txt(a).endswith(".start"), lambda b: b[0] != "c" and "num_items" not in _txt(b), "Ne", 1),
    ("num < 0", lambda a: _txt(a).endswith(".num"), _is0, "Lt", 1),
    ("num > num_items - start", lambda a: _txt(a).endswith(".num"), lambda b: "num_items" in _txt(b) and ".start" in _txt(b), "Gt", 1),
    ("types do not end at num_items", lambda a: _txt(a).endswith(".num_items"), lambda b: b[0] != "c" and ".num" not in _txt(b) and ".start" not in _txt(b), "Ne", 1),
    ("item offset < 0", lambda a: "item_offsets" in _txt(a) and a[0] != "cast", _is0, "Lt", 1),
    ("item offset != running offset", lambda a: "item_offsets" in _txt(a), lambda b: not _is0(b) and "size_items" not in _txt(b), "Ne", 1),
    ("running offset > size_items", lambda a: "size_items" in _txt(a), lambda b: "item_offsets" not in _txt(b), "Lt", 2),
    ("item size < 0", lambda a: _txt(a).endswith(".size") and "item_header" in _txt(a), _is0, "Lt", 1),
    ("item size % 4 != 0", lambda a: a[0] == "bin" and a[1] == "Rem" and ".size" in _txt(a[2]) and a[3][0] == "c" and a[3][1] == 4, _is0, "Ne", 1),
    ("items do not fill size_items exactly", lambda a: "size_items" in _txt(a), lambda b: "item_offsets" not in _txt(b), "Ne", 1),
    ("data offset > size_data", lambda a: "size_data" in _txt(a), lambda b: True, "Lt", 1),
    ("data offset < 0", lambda a: "data_offsets" in _txt(a), _is0, "Lt", 1),
    ("data offset < previous data offset (offsets non-decreasing)", lambda a: "data_offsets" in _txt(a), lambda b: not _is0(b) and "size_data" not in _txt(b), "Lt", 1),
    ("uncompressed data size < 0", lambda a: "uncomp_data_sizes" in _txt(a), _is0, "Lt", 1),
    ("item's type id != its type's id", lambda a: "ItemHeader::type_id" in _txt(a) or "type_id(" in _txt(a), lambda b: ".type_id" in _txt(b), "Ne", 1),
]


def clauses(prog, rep):
    rule = "R2a-validation-clauses"
    b = prog.one(R + "check")
    ir = IR(b)
    exact_clauses(rep, rule, "check", b, ir, EXACT, floor=15)
    # HeaderVersion::check: WrongMagic iff the magic is neither spelling, UnsupportedVersion iff the version is neither 3 nor 4
    from .common import holds_at, rel_text
    hv = prog.one("libtw2_datafile::format::HeaderVersion::check")
    hvir = IR(hv)
    for variant, field in (("WrongMagic", "magic"), ("UnsupportedVersion", "version")):
        for bi in sorted(hv.live):
            for si, st in enumerate(hv.blocks[bi]["st"]):
                if st["k"] == "assign" and st["r"]["k"] == "agg" and st["r"].get("variant") == variant:
                    rels = holds_at(hvir, bi)
                    nes = [r for r in rels if r[0] != "bool" and r[1] == "Ne" and field in show(strip_sites(r[0]))]
                    eqs = [r for r in rels if r[0] != "bool" and r[1] == "Eq" and field in show(strip_sites(r[0]))]
                    want = 2
                    ok = len(nes) >= want and (variant == "WrongMagic" or True)
                    rep.ob(rule, "HeaderVersion::check | %s" % variant, ok,
                           "%s is returned when `%s` differs from both accepted values" % (variant, field) if ok else
                           "%s is returned under %s" % (variant, "; ".join(rel_text(r) for r in rels) or "no condition"), hv.loc(st.get("ln")))
    # HeaderRest::check: non-negative counts and size_items divisible by 4
    h = prog.one("libtw2_datafile::format::HeaderRest::check")
    hir = IR(h)
    hc = []
    for bi in sorted(h.live):
        t = h.blocks[bi]["term"]
        if t["k"] == "switch":
            e2, neg = strip_not(hir.term_operand(bi, t["o"]))
            if e2[0] == "bin":
                hc.append(e2)
    for fld in ("size", "swaplen", "num_item_types", "num_items", "num_data", "size_items", "size_data"):
        ok = any(e[1] in ("Lt", "Ge") and show(e[2]).endswith("self." + fld) and e[3][0] == "c" and e[3][1] == 0 for e in hc)
        rep.ob(rule, "HeaderRest::check | %s >= 0" % fld, ok, "negative `%s` is rejected" % fld, h.loc())
    okd = any(e[1] in ("Ne", "Eq") and e[2][0] == "bin" and e[2][1] == "Rem" and "size_items" in show(e[2]) for e in hc)
    rep.ob(rule, "HeaderRest::check | size_items divisible by 4", okd, "`size_items % 4 != 0` is rejected", h.loc())
    # the divisibility clause must precede the next item's header access: it lies inside the item loop, after
    # item_header(i) of the same iteration and before the offset is advanced
    n = prog.one(R + "new")
    calls = [bi for bi, t in n.calls() if (t.get("callee") or "") == R + "check"]
    ok = False
    if calls:
        # every Ok(..) return is dominated by the Ok edge of check()
        nir = IR(n)
        oks = []
        for bi in sorted(n.live):
            for si, st in enumerate(n.blocks[bi]["st"]):
                if st["k"] == "assign" and st["p"]["l"] == 0 and st["r"]["k"] == "agg" and st["r"].get("variant") == "Ok":
                    oks.append(bi)
        ok = bool(oks) and all(any(n.dominates(c, o) for c in calls) for o in oks)
    rep.ob(rule, "Reader::new validates before returning Ok", ok, "every Ok(reader) is dominated by the call to check()", n.loc())


def validate_before_arithmetic(prog, rep):
    rule = "R2b-validate-before-arithmetic"
    b = prog.one(R + "check")
    ir = IR(b)
    n = 0
    for bi in sorted(b.live):
        t = b.blocks[bi]["term"]
        if t["k"] != "assert" or not t["msg"].startswith("Overflow:"):
            continue
        ops = [ir.term_operand(bi, o) for o in t["ops"]]
        for o in ops:
            # a value loaded from the file tables: a deref/index rooted in self.{item_types,item_offsets,data_offsets,items_raw,...}
            raw = None
            for x in walk(o):
                if isinstance(x, tuple) and x and x[0] in ("field", "deref", "index") and any(
                        s in show(x) for s in ("item_types", "item_offsets", "data_offsets", "uncomp_data_sizes", "item_header(")):
                    raw = x
                    break
                if isinstance(x, tuple) and x and x[0] == "field" and x[2] in ("start", "num", "type_id", "size") and "next(" in show(x):
                    raw = x
                    break
            if raw is None or "header.hr" in show(raw):
                continue   # header fields are validated by HeaderRest::check before the Reader exists
            if _validated_by_earlier_pass(b, ir, bi, raw):
                continue
            n += 1
            key = strip_sites(raw)
            ok = False
            for e, rel, v, edge, dty in ir.edge_conditions(bi):
                for y in walk(e):
                    if isinstance(y, tuple) and strip_sites(y) == key:
                        ok = True
            if not ok:
                # the block itself may be the continuation of a comparison on the same value in the same expression
                pass
            rep.ob(rule, "check | %s of `%s`" % (t["msg"].split(":")[1], show(raw)[:60]) + " | %d" % n, ok,
                   "arithmetic on the file value `%s` happens after a comparison that looked at it" % show(raw)[:70] if ok else
                   "Reader::check does arithmetic on the unvalidated file value `%s` (%s) before any test mentions it" % (show(raw)[:70], show(o)[:70]),
                   b.loc(t.get("ln")))
    rep.floor(rule, n, 2, "arithmetic on file-table values in Reader::check")


def _validated_by_earlier_pass(b, ir, bi, raw):
    """the value comes from iterating a table that an earlier, completed loop of check already validated"""
    it = None
    for x in walk(raw):
        if isinstance(x, tuple) and x and x[0] == "call" and x[1].endswith("::next") and x[2]:
            a = x[2][0]
            while a[0] in ("ref", "deref"):
                a = a[2] if a[0] == "ref" else a[1]
            if a[0] == "var":
                it = a[1]
    if it is None:
        return False
    init = ir.var_init(it)
    if init is None:
        return False
    table = None
    for nm in ("item_types", "item_offsets", "data_offsets"):
        if nm in show(init):
            table = nm
    if table is None:
        return False
    # another iterator over the same table whose loop is finished before this block
    loop_iters = set()
    for cb, ct in b.calls():
        if (ct.get("callee") or "").endswith("::next") and ct["args"]:
            a = ir.term_operand(cb, ct["args"][0])
            while a[0] in ("ref", "deref"):
                a = a[2] if a[0] == "ref" else a[1]
            if a[0] == "var":
                loop_iters.add(a[1])
    for l, ds in ir.defs.items():
        if l == it or len(ds) != 1 or l not in loop_iters:
            continue
        e = ir.var_init(l)
        if e is None or table not in show(e) or "iter" not in show(e):
            continue
        dbi = ds[0][0]
        if b.dominates(dbi, bi) and dbi != ir.defs[it][0][0]:
            # and that loop's body cannot be re-entered from here
            if dbi not in b.reachable_from(bi):
                return True
    return False


def only_i32(prog, rep):
    rule = "R3-only-i32-inventory"
    impls = [i for i in prog.impls if norm_path(i.get("trait") or "").endswith("format::OnlyI32") and not i.get("test")]
    rep.floor(rule, len(impls), 20, "unsafe impl OnlyI32")
    only = set()
    for i in impls:
        only.add(norm_path(i["self_ty"]))
    for i in sorted(impls, key=lambda x: x["self_ty"]):
        ty = norm_path(i["self_ty"])
        if ty == "i32":
            rep.ob(rule, "impl OnlyI32 for i32", True, "the base case", None)
            continue
        a = prog.adts.get(ty)
        ok = False
        why = "type not found"
        if a is not None and a["kind"] == "Struct":
            fields = a["variants"][0]["fields"]
            bad = []
            for f in fields:
                fty = norm_path(f["ty"])
                import re
                m = re.match(r"^\[(.+); (\d+)\]$", fty)
                base = m.group(1) if m else fty
                if base != "i32" and base not in only:
                    if ty.endswith("format::HeaderVersion") and f["n"] == "magic" and fty == "[u8; 4]":
                        rep.exempt("C16 | %s | HeaderVersion.magic" % rule, "four magic bytes occupy exactly one 32-bit word at offset 0 (size 8, align 4: no padding)")
                        continue
                    bad.append("%s: %s" % (f["n"], f["ty"]))
            size_ok = a.get("size") is not None and a["size"] % 4 == 0 and (a.get("align") == 4 or a["size"] == 0)
            ok = not bad and a.get("repr_c") and size_ok
            why = "repr(C)=%s, size %s, align %s, non-i32 fields: %s" % (a.get("repr_c"), a.get("size"), a.get("align"), bad)
        rep.ob(rule, "impl OnlyI32 for " + ty, ok, why, "%s:%s" % (i.get("file"), i.get("ln")))


def accessor_after_clause(prog, rep):
    """R2c: inside Reader::check the item loop calls item_header(i) -- whose slicing is reviewed against the clause `item
    header inside size_items` -- only after that clause passed for this i: the comparison of the advanced offset with
    size_items dominates the call, and the offset was advanced by the header size before the comparison"""
    rule = "R2c-accessor-after-clause"
    b = prog.one(R + "check")
    ir = IR(b)
    hsz = prog.adt("libtw2_datafile::format::ItemHeader").get("size")
    loops_ = b.sccs()
    n = 0
    for bi, t in b.calls():
        if (t.get("callee") or "") != R + "item_header":
            continue
        comp = [c for c in loops_ if bi in c]
        comp = min(comp, key=len) if comp else None
        if comp is None:
            continue
        # the size_items comparison inside the same loop
        clause = None
        for e, rel, v, edge, dty in ir.edge_conditions(bi):
            if e[0] == "bin" and e[1] in ("Gt", "Le", "Lt", "Ge") and "size_items" in show(e) and edge[0] in comp:
                clause = (e, edge)
        has_loop_clause = False
        for cb_ in comp:
            tt = b.blocks[cb_]["term"]
            if tt["k"] == "switch":
                ce = ir.term_operand(cb_, tt["o"])
                if ce[0] == "bin" and "size_items" in show(ce) and "item_offsets" not in show(ce):
                    has_loop_clause = True
        if not has_loop_clause:
            continue            # the second pass over the types: validated by the first loop (reviewed under R1)
        n += 1
        ok = clause is not None
        adv = False
        if ok:
            e, edge = clause
            lhs = e[2] if "size_items" in show(e[3]) else e[3]
            l = lhs[1] if lhs[0] == "var" else None
            # `let end = offset + size_of::<ItemHeader>(); if end > size_items ..`: the compared value already includes the header
            ltxt = show(strip_sites(lhs))
            if l is None and lhs[0] in ("bin", "field") and "Add" in ltxt and (str(hsz) in ltxt or "size_of" in ltxt):
                adv = True
            for (dbi, dsi, kind, node) in ir.defs.get(l, []) if l is not None else []:
                if kind == "assign" and dbi in comp and b.dominates(dbi, edge[0]):
                    de = ir.rvalue(node["r"], (dbi, dsi))
                    txt = show(strip_sites(de))
                    if de[0] in ("bin", "field") and ("Add" in txt) and (str(hsz) in txt or "size_of" in txt):
                        adv = True
        rep.ob(rule, "item_header(i) in the item loop", ok and adv,
               "called only after `offset + size_of::<ItemHeader>() <= size_items` was established for this item" if ok and adv else
               "item_header(i) is called before the check that the header lies inside the item area%s: a truncated item table panics in check()"
               % ("" if not ok else " (offset not advanced by the header size first)"), b.loc(t.get("ln")))
    rep.floor(rule, n, 1, "item_header calls inside the validating item loop of check")


def index_helper_postcondition(prog, rep):
    """R4: map::reader::get_index_impl returns Some(i) only with i < indices.end (the accessors index the data table with it)"""
    from ..guards import Reasoner, Lin
    rule = "R4-index-helper-postcondition"
    b = prog.one("libtw2_map::reader::get_index_impl")
    ir = IR(b)
    rs = Reasoner(ir, prog)
    n = 0
    for bi in sorted(b.live):
        for si, st in enumerate(b.blocks[bi]["st"]):
            if st["k"] == "assign" and st["r"]["k"] == "agg" and st["r"].get("variant") == "Some":
                e = ir.rvalue(st["r"], (bi, si))
                val = e[4][0][1]
                n += 1
                facts, nes = rs.facts_at(bi)
                end = None
                for c, rel, v, edge, dty in ir.edge_conditions(bi):
                    for x in walk(c):
                        if isinstance(x, tuple) and x and x[0] == "field" and x[2] == "end":
                            end = x
                lv, le = rs.lin(val), rs.lin(end) if end is not None else None
                ok = lv is not None and le is not None and rs.prove(lv.sub(le).add(Lin.const(1)), facts)
                rep.ob(rule, "Some(index) implies index < indices.end", ok,
                       "the returned index is strictly below the end of the index range" if ok else
                       "get_index_impl can return index == indices.end (or the bound is not established): the accessors index one past the table",
                       b.loc(st.get("ln")))
    rep.floor(rule, n, 1, "Some(..) in get_index_impl")
    # get_index_opt: -1 (and only -1) means "absent"; everything else goes through get_index
    from .common import holds_at, want_relations
    o = prog.one("libtw2_map::reader::get_index_opt")
    oir = IR(o)
    k = 0
    for bi in sorted(o.live):
        for si, st in enumerate(o.blocks[bi]["st"]):
            if st["k"] == "assign" and st["r"]["k"] == "agg" and st["r"].get("variant") == "None" and o.blocks[bi]["st"][si:]:
                rels = holds_at(oir, bi)
                if any(r[0] != "bool" and r[1] == "Eq" for r in rels):
                    k += 1
                    want_relations(rep, rule, "get_index_opt | Ok(None) exactly for -1", rels, [("index", "Eq", -1)], o.loc(st.get("ln")), "absent index")
    for bi, t in o.calls():
        if (t.get("callee") or "").endswith("reader::get_index") or (t.get("callee") or "").endswith("get_index_impl"):
            k += 1
            want_relations(rep, rule, "get_index_opt | every other value is range-checked", holds_at(oir, bi), [("index", "Ne", -1)], o.loc(t.get("ln")), "present index")
    rep.floor(rule, k, 2, "branches of get_index_opt")
    # Reader::item_type_indices returns the range of the type whose id EQUALS the requested one
    it = prog.one(R + "item_type_indices")
    iir = IR(it)
    hits = 0
    for bi in sorted(it.live):
        for si, st in enumerate(it.blocks[bi]["st"]):
            if st["k"] == "assign" and st["r"]["k"] == "agg" and (st["r"].get("adt") or "").endswith("ops::Range"):
                e = iir.rvalue(st["r"], (bi, si))
                if ".start" in show(strip_sites(e)):
                    hits += 1
                    want_relations(rep, rule, "item_type_indices | range of the type with the requested id", holds_at(iir, bi),
                                   [(".type_id", "Eq", "type_id")], it.loc(st.get("ln")), "t.start..t.start + t.num")
    rep.floor(rule, hits, 1, "range built from an item type in item_type_indices")
