"""C10 -- a snapshot survives serialisation, including UUID-typed items (registry and layout agreement)."""
from ..facts import AnchorLost, path_matches
from ..ir import IR, show, walk, strip_sites
from ..bits import BitEval, Unsupported, flatten, bit_str

LEVEL = "other"
EXPLANATION = (
    "R1 (UUID registry agreement between the building and the reading side).  Writer (Builder::add_item): the value stored in "
    "`extended_types` for a new UUID is the same SSA value as the *id* argument of the type-0 registry item it adds.  Reader "
    "(Snap::build_from_raw): the value inserted into `extended_types` for an item of type TYPE_ID_EX is key_to_id(item_key) of "
    "that very item.  Snap::recycle re-inserts each registry item with id = the stored type number.  R2 (layout agreement of "
    "RawSnap::write_impl and read_from_ints): both sides use (data_size, num_items, offsets.., then key + data per item), data_size "
    "and the offsets are in bytes (x size_of::<i32>() on the writer, / 4 and % 4 tests on the reader), and keys are written in "
    "unsigned order.  R3: Snap::type_id's unwrap of the registry lookup is justified by the MissingUuidType clause of "
    "build_from_raw (the clause must test exactly the key key(TYPE_ID_EX, raw_type_id)).  R4: key / key_to_raw_type_id / "
    "key_to_id are mutually inverse bit packings (bit-provenance evaluation).  R1b: build_from_raw clears the registry before rebuilding it.  R2b (tight guards): read_from_ints admits items of length 0 (the guards give start <= end and do not force start < end) and recycle counts the registry id OFFSET_EXTENDED_TYPE_ID itself.  R2c: RawSnap::read_from_ints refuses exactly on the relations the writer never produces (exact clause table).  Not decided: indistinguishability of all "
    "snapshots after a round trip (value level)."
)
EXPLANATION += ('  Round 4: R1b also requires that no Ok return of build_from_raw is reachable without passing the reset (a fast path for empty snapshots would keep stale UUID types).')
ASSUMPTIONS = ["BTreeMap iteration order is key order (std)"]

S = "libtw2_snapshot::snap::"
F = "libtw2_snapshot::format::"


def run(ctx, rep):
    prog = ctx.prog
    writer_side(prog, rep)
    reader_side(prog, rep)
    recycle_side(prog, rep)
    layout(prog, rep)
    type_id_clause(prog, rep)
    key_bijection(prog, rep)
    registry_rebuilt(prog, rep)
    boundaries_admitted(prog, rep)
    reader_clauses(prog, rep)


def _is_type_ex(prog, e):
    return e[0] == "c" and e[1] == prog.constv(F + "TYPE_ID_EX")


def writer_side(prog, rep):
    rule = "R1-registry-agreement"
    b = prog.one(S + "Builder::add_item")
    ir = IR(b)
    ins = [(bi, t) for bi, t in b.calls() if (t.get("callee") or "").endswith("VacantEntry::insert")]
    adds = [(bi, t) for bi, t in b.calls() if (t.get("callee") or "") == S + "RawSnap::add_item" and _is_type_ex(prog, ir.term_operand(bi, t["args"][1]))]
    rep.floor(rule, len(ins), 1, "extended_types insert in Builder::add_item")
    rep.floor(rule, len(adds), 1, "registry item add in Builder::add_item")
    for bi, t in ins:
        stored = ir.term_operand(bi, t["args"][1])
        ok = any(ir.term_operand(ab, at["args"][2]) == stored for ab, at in adds)
        rep.ob(rule, "writer | stored number == id of the registry item", ok,
               "Builder::add_item stores `%s` for the UUID and adds the registry item with id `%s`" % (
                   show(stored), [show(ir.term_operand(ab, at["args"][2])) for ab, at in adds]), b.loc(t.get("ln")))


def reader_side(prog, rep):
    rule = "R1-registry-agreement"
    b = prog.one(S + "Snap::build_from_raw")
    ir = IR(b)
    ins = [(bi, t) for bi, t in b.calls() if (t.get("callee") or "").endswith("BTreeMap::insert")]
    rep.floor(rule, len(ins), 1, "extended_types insert in build_from_raw")
    for bi, t in ins:
        v = ir.term_operand(bi, t["args"][2])
        # must be key_to_id(<the loop's item key>)
        ok = v[0] == "call" and v[1] == F + "key_to_id"
        key_expr = v[2][0] if ok else None
        # and the branch is the TYPE_ID_EX one, tested on key_to_raw_type_id of the same key
        okb = False
        for e, rel, val, edge, dty in ir.edge_conditions(bi):
            if e[0] == "bin" and e[1] in ("Eq", "Ne"):
                for x, y in ((e[2], e[3]), (e[3], e[2])):
                    if _is_type_ex(prog, y) and x[0] == "call" and x[1] == F + "key_to_raw_type_id":
                        truth = (rel == "==" and val == 1) or (rel == "notin" and 0 in val)
                        if (e[1] == "Eq") == truth and (key_expr is None or strip_sites(x[2][0]) == strip_sites(key_expr)):
                            okb = True
        rep.ob(rule, "reader | inserted number is the registry item's id", ok and okb,
               "build_from_raw inserts `%s` on the `raw_type_id == TYPE_ID_EX` branch" % show(v) if ok and okb else
               "build_from_raw inserts `%s` for a registry item: it must be key_to_id(item_key) (the id slot carries the type number)" % show(v),
               b.loc(t.get("ln")))


def recycle_side(prog, rep):
    rule = "R1-registry-agreement"
    b = prog.one(S + "Snap::recycle")
    ir = IR(b)
    adds = [(bi, t) for bi, t in b.calls() if (t.get("callee") or "") == S + "RawSnap::add_item"]
    rep.floor(rule, len(adds), 1, "registry re-insert in Snap::recycle")
    for bi, t in adds:
        ty = ir.term_operand(bi, t["args"][1])
        idv = ir.term_operand(bi, t["args"][2])
        data = ir.term_operand(bi, t["args"][3])
        # id = value of the (uuid, number) pair from iterating extended_types; data = uuid_to_item_data(uuid of the same pair)
        okt = _is_type_ex(prog, ty)
        pair_v = None
        for x in walk(idv):
            if isinstance(x, tuple) and x and x[0] == "field" and x[2] == 1:
                pair_v = x[1]
        pair_u = None
        for x in walk(data):
            if isinstance(x, tuple) and x and x[0] == "call" and x[1] == F + "uuid_to_item_data":
                for y in walk(x[2][0]):
                    if isinstance(y, tuple) and y and y[0] == "field" and y[2] == 0:
                        pair_u = y[1]
        ok = okt and pair_v is not None and pair_u is not None and strip_sites(pair_v) == strip_sites(pair_u) and "extended_types" in show(pair_v) + show(ir.var_init(pair_v[1][2][1]) if False else "extended_types")
        src_ok = False
        for bi2, t2 in b.calls():
            if (t2.get("callee") or "").endswith("into_iter") and "extended_types" in show(ir.term_operand(bi2, t2["args"][0])):
                src_ok = True
        rep.ob(rule, "recycle | registry item (0, number) carries its own uuid", ok and src_ok,
               "recycle adds (TYPE_ID_EX, %s, %s) for each (uuid, number) of extended_types" % (show(idv)[:50], show(data)[:70]), b.loc(t.get("ln")))


def layout(prog, rep):
    rule = "R2-layout-agreement"
    w = prog.one(S + "RawSnap::write_impl")
    wir = IR(w)
    r = prog.one(S + "RawSnap::read_from_ints")
    rir = IR(r)
    # writer: sort by `k as u32`
    sk = [(bi, t) for bi, t in w.calls() if "sort" in (t.get("callee") or "")]
    oks = False
    for bi, t in sk:
        for a in t["args"]:
            e = wir.term_operand(bi, a)
            if e[0] == "agg" and e[1] == "closure":
                cb = prog.bodies.get(e[2])
                if cb is not None:
                    cir = IR(cb)
                    for rb in cb.return_blocks():
                        rv = cir.place({"l": 0}, (rb, 0))
                        if rv[0] == "cast" and rv[2] == "u32":
                            oks = True
    rep.ob(rule, "writer | keys sorted by unsigned key", oks, "write_impl sorts the keys by `k as u32`", w.loc())
    # writer: data_size = (buf.len() + offsets.len()) * size_of::<i32>(); per item (end - start + 1) * size_of::<i32>()
    txts = []
    for bi, t in w.calls():
        f = t.get("callee") or ""
        if f.endswith("checked_mul"):
            a = wir.term_operand(bi, t["args"][1])
            txts.append(show(a))
    okw = len([x for x in txts if "size_of" in x]) >= 2
    rep.ob(rule, "writer | sizes are in bytes", okw, "data_size and the running offset are multiplied by size_of::<i32>(): %s" % txts, w.loc())
    # reader: data_size % 4 and / 4; offsets % 4 and / 4
    rems, divs = 0, 0
    for bi in sorted(r.live):
        for si, st in enumerate(r.blocks[bi]["st"]):
            if st["k"] == "assign" and st["r"]["k"] == "bin" and st["r"]["op"] in ("Rem", "Div"):
                e = rir.rvalue(st["r"], (bi, si))
                if e[3][0] == "c" and e[3][1] == 4:
                    if e[1] == "Rem":
                        rems += 1
                    else:
                        divs += 1
    for cb in [prog.bodies[k] for k in prog.bodies if k.startswith(S + "RawSnap::read_from_ints::{closure")]:
        cir = IR(cb)
        for bi in sorted(cb.live):
            for si, st in enumerate(cb.blocks[bi]["st"]):
                if st["k"] == "assign" and st["r"]["k"] == "bin" and st["r"]["op"] == "Div":
                    e = cir.rvalue(st["r"], (bi, si))
                    if e[3][0] == "c" and e[3][1] == 4:
                        divs += 1
    okr = rems >= 2 and divs >= 2
    rep.ob(rule, "reader | sizes are in bytes", okr,
           "read_from_ints tests `%% 4` (%d times) and converts with `/ 4` (%d times) for data_size and offsets" % (rems, divs), r.loc())
    # order of header words: writer writes data_size then num_items; reader decodes SnapHeader {data_size, num_items}
    wi = []
    for bi, t in w.calls():
        f = t.get("callee") or ""
        if "call_mut" in f or "FnMut" in f or f.startswith(S + "RawSnap::write_impl::{closure"):
            for a in t["args"][1:]:
                wi.append(show(wir.term_operand(bi, a)))
    names = [x for x in wi]
    first_two = [n for n in names[:2]]
    ok = (len(first_two) == 2 and "checked_mul" in first_two[0] and ".buf" in first_two[0]
          and "offsets" in first_two[1] and "checked_mul" not in first_two[1] and ".buf" not in first_two[1])
    hd = prog.one(F + "SnapHeader::decode_obj")
    hir = IR(hd)
    order = []
    for bi in sorted(hd.live):
        for si, st in enumerate(hd.blocks[bi]["st"]):
            if st["k"] == "assign" and st["r"]["k"] == "agg" and (st["r"].get("adt") or "").endswith("SnapHeader"):
                e = hir.rvalue(st["r"], (bi, si))
                order = [(n, v) for n, v in e[4]]
    okh = False
    if len(order) == 2:
        # the first read_int feeds data_size, the second num_items: call sites ordered by block domination
        sites = {}
        for n, v in order:
            for x in walk(v):
                if isinstance(x, tuple) and x and x[0] == "call" and x[1].endswith("read_int") and isinstance(x[3], tuple):
                    sites[n] = x[3][1]
        if "data_size" in sites and "num_items" in sites:
            okh = hd.dominates(sites["data_size"], sites["num_items"]) and sites["data_size"] != sites["num_items"]
    rep.ob(rule, "header word order", ok and okh,
           "writer emits (data_size, num_items) first: %s; reader reads data_size before num_items: %s" % (first_two, okh), w.loc())


def type_id_clause(prog, rep):
    rule = "R3-type-id-clause"
    b = prog.one(S + "Snap::build_from_raw")
    ir = IR(b)
    # the block returning Err(MissingUuidType) is dominated by `offsets.get(&key(TYPE_ID_EX, raw_type_id)).is_none()`
    found = False
    ok = False
    for bi in sorted(b.live):
        for si, st in enumerate(b.blocks[bi]["st"]):
            if st["k"] == "assign" and st["r"]["k"] == "agg" and st["r"].get("variant") == "MissingUuidType":
                found = True
                for e, rel, v, edge, dty in ir.edge_conditions(bi):
                    txt = show(e)
                    if "is_none" in txt and "BTreeMap::get" in txt:
                        for x in walk(e):
                            if isinstance(x, tuple) and x and x[0] == "call" and x[1] == F + "key" and _is_type_ex(prog, x[2][0]):
                                if x[2][1][0] == "call" and x[2][1][1] == F + "key_to_raw_type_id":
                                    ok = True
    rep.ob(rule, "build_from_raw | MissingUuidType clause", found and ok,
           "items of an extended type are accepted only if the registry holds key(TYPE_ID_EX, raw_type_id)", b.loc())
    t = prog.one(S + "Snap::type_id")
    tir = IR(t)
    uw = [(bi, tt) for bi, tt in t.calls() if (tt.get("callee") or "").endswith("Option::unwrap")]
    okq = False
    for bi, tt in uw:
        a = tir.term_operand(bi, tt["args"][0])
        if a[0] == "call" and a[1] == S + "RawSnap::item" and _is_type_ex(prog, a[2][1]) and a[2][2][0] == "arg":
            okq = True
    rep.ob(rule, "type_id | unwrap looks up the same key", okq,
           "Snap::type_id unwraps raw.item(TYPE_ID_EX, raw_type_id): the key the clause above guarantees", t.loc())
    # the clause must cover every type number for which type_id unwraps: both sides split at OFFSET_EXTENDED_TYPE_ID, and
    # the checking side leaves the boundary value itself inside the checked range
    from ..guards import Reasoner, Lin
    off = prog.constv(F + "OFFSET_EXTENDED_TYPE_ID")
    trs = Reasoner(tir, prog)
    dom_ok = False
    for bi, tt in uw:
        facts, nes = trs.facts_at(bi)
        lv = trs.lin(("arg", 1, "raw_type_id"))
        if lv is not None and trs.prove(Lin.const(off).sub(lv), facts) and not trs.prove(Lin.const(off + 1).sub(lv), facts):
            dom_ok = True
    brs = Reasoner(ir, prog)
    chk_ok = False
    n = 0
    for bi, tt in b.calls():
        if not (tt.get("callee") or "").endswith("BTreeMap::get"):
            continue
        e = ir.call_expr(bi, tt)
        rt = None
        for x in walk(e):
            if isinstance(x, tuple) and x and x[0] == "call" and x[1] == F + "key" and _is_type_ex(prog, x[2][0]):
                rt = x[2][1]
        if rt is None:
            continue
        n += 1
        # the lookup may be skipped only for a type number that was just checked (`Some(raw_type_id) == prev_checked`)
        from .common import holds_at, want_relations
        want_relations(rep, rule, "registry lookup skipped only for the type checked last", holds_at(ir, bi),
                       [("key_to_raw_type_id", "Ne", "prev_checked")], b.loc(tt.get("ln")), "registry lookup")
        facts, nes = brs.facts_at(bi)
        lv = brs.lin(rt)
        if lv is not None and brs.prove(Lin.const(off).sub(lv), facts) and not brs.prove(Lin.const(off + 1).sub(lv), facts):
            chk_ok = True
    rep.ob(rule, "registry checked for every type number type_id unwraps", dom_ok and chk_ok,
           "type_id unwraps exactly for raw_type_id >= %#x, and build_from_raw looks the registry up for every raw_type_id >= %#x (the boundary included)" % (off, off)
           if dom_ok and chk_ok else
           "the range for which build_from_raw checks the registry (%s) does not cover the range for which type_id unwraps (%s): an item of type %#x without a registry entry is accepted and items() panics"
           % ("ok" if chk_ok else "boundary excluded or not established", "ok" if dom_ok else "not established", off), b.loc())


def key_bijection(prog, rep):
    rule = "R4-key-bijection"
    try:
        ev = BitEval(prog)
        ty = ev.symbolic("u16", "t")
        idv = ev.symbolic("u16", "i")
        ke, _ = ev.ret_expr(F + "key")
        k = ev.eval(ke, {0: ty, 1: idv}, ev.ir(F + "key"))
        te, _ = ev.ret_expr(F + "key_to_raw_type_id")
        ie, _ = ev.ret_expr(F + "key_to_id")
        t2 = ev.eval(te, {0: k}, ev.ir(F + "key_to_raw_type_id"))
        i2 = ev.eval(ie, {0: k}, ev.ir(F + "key_to_id"))
        rep.ob(rule, "key_to_raw_type_id(key(t, i)) == t", t2 == ty, "all 16 type bits survive: %s" % [bit_str(x) for x in t2][:4], prog.bodies[F + "key"].loc())
        rep.ob(rule, "key_to_id(key(t, i)) == i", i2 == idv, "all 16 id bits survive", prog.bodies[F + "key"].loc())
        kk = ev.symbolic("i32", "k")
        k2 = ev.eval(ke, {0: ev.eval(te, {0: kk}, ev.ir(F + "key_to_raw_type_id")), 1: ev.eval(ie, {0: kk}, ev.ir(F + "key_to_id"))}, ev.ir(F + "key"))
        rep.ob(rule, "key(type(k), id(k)) == k", k2 == kk, "all 32 key bits survive", prog.bodies[F + "key"].loc())
    except Unsupported as e:
        rep.ob(rule, "analysable", False, "bit-level evaluation refused: %s" % e, None)


def registry_rebuilt(prog, rep):
    """R1b: Snap::build_from_raw rebuilds the UUID registry from scratch: extended_types.clear() dominates every insert
    (a Snap object that is read into twice must not keep the previous registry)"""
    rule = "R1b-registry-rebuilt"
    b = prog.one(S + "Snap::build_from_raw")
    ir = IR(b)
    clears = [bi for bi, t in b.calls() if (t.get("callee") or "").endswith("BTreeMap::clear") and "extended_types" in show(ir.term_operand(bi, t["args"][0]))]
    # `self.extended_types = BTreeMap::new()` resets it just as well
    for bi in sorted(b.live):
        for si, st in enumerate(b.blocks[bi]["st"]):
            if st["k"] == "assign" and st["p"].get("pr"):
                pe = ir.place(st["p"], (bi, si))
                if ir.access_path(pe)[1] == ("extended_types",):
                    v = ir.rvalue(st["r"], (bi, si))
                    if v[0] == "call" and v[1].endswith("::new") or (v[0] == "call" and v[1].endswith("::default")):
                        clears.append(bi)
        t = b.blocks[bi]["term"]
        if t["k"] == "call" and (t.get("callee") or "").split("::")[-1] in ("new", "default") and t.get("dest"):
            pass
    ins = [(bi, t) for bi, t in b.calls() if (t.get("callee") or "").endswith("BTreeMap::insert") and "extended_types" in show(ir.term_operand(bi, t["args"][0]))]
    rep.floor(rule, len(ins), 1, "extended_types.insert in build_from_raw")
    for bi, t in ins:
        ok = any(b.dominates(c, bi) for c in clears)
        rep.ob(rule, "insert after clear", ok, "the registry is emptied before it is rebuilt from the registry items" if ok else
               "build_from_raw inserts into extended_types without clearing it first: re-reading into a used Snap keeps stale UUID types", b.loc(t.get("ln")))


    # ... and on every path to a successful return at all: a fast path that returns Ok before the reset (e.g. for an empty
    # snapshot) leaves the previous snapshot's UUID types in a reused Snap
    oks = [bi for bi in sorted(b.live) for st in b.blocks[bi]["st"]
           if st["k"] == "assign" and st["p"]["l"] == 0 and not st["p"].get("pr") and st["r"]["k"] == "agg" and st["r"].get("variant") == "Ok"]
    reach = b.reachable_from(0, removed_blocks=frozenset(clears))
    bad = [o for o in oks if o in reach]
    rep.ob(rule, "every Ok return passes the reset", bool(oks) and bool(clears) and not bad,
           "build_from_raw cannot return Ok without having emptied extended_types" if not bad else
           "build_from_raw can return Ok without resetting extended_types: a reused Snap keeps stale UUID types", b.loc())


def boundaries_admitted(prog, rep):
    """R2b: two guards that must be tight for the round trip.  (a) read_from_ints accepts an item of length 0 (the writer
    emits one: consecutive offsets differ by exactly one word): at the add_item call the dominating guards imply
    start <= end for the data range but do not imply start < end.  (b) Snap::recycle counts the first id the builder
    hands out (OFFSET_EXTENDED_TYPE_ID) as used: at the store next_type_id = id + 1 the guards imply id >= OFFSET but not
    id > OFFSET."""
    from ..guards import Reasoner, Lin
    rule = "R2b-boundaries-admitted"
    b = prog.one(S + "RawSnap::read_from_ints")
    ir = IR(b)
    rs = Reasoner(ir, prog)
    n = 0
    for bi, t in b.calls():
        if (t.get("callee") or "") != S + "RawSnap::add_item":
            continue
        e = ir.call_expr(bi, t)
        rng = None
        for x in walk(e[2][3]):
            if isinstance(x, tuple) and x and x[0] == "agg" and (x[2] or "").endswith("ops::Range") and len(x[4]) == 2:
                rng = dict(x[4])
        if rng is None:
            continue
        n += 1
        st, en = rs.lin(rng.get("start")), rs.lin(rng.get("end"))
        facts, nes = rs.facts_at(bi)
        nonneg = st is not None and en is not None and rs.prove(st.sub(en), facts)
        forced = st is not None and en is not None and rs.prove(st.sub(en).add(Lin.const(1)), facts)
        rep.ob(rule, "read_from_ints admits empty items", nonneg and not forced,
               "the guards give start <= end for item_data[start..end] and leave start == end possible" if nonneg and not forced else
               ("the guards force end > start: an item without payload, which the writer emits, is rejected" if forced else
                "start <= end does not follow from the guards"), b.loc(t.get("ln")))
    rep.floor(rule, n, 1, "add_item(.., &item_data[a..b]) in read_from_ints")
    r = prog.one(S + "Snap::recycle")
    rir = IR(r)
    rrs = Reasoner(rir, prog)
    off = prog.constv(F + "OFFSET_EXTENDED_TYPE_ID")
    m = 0
    for bi in sorted(r.live):
        for si, st_ in enumerate(r.blocks[bi]["st"]):
            if st_["k"] != "assign" or st_["p"].get("pr") or st_["r"]["k"] not in ("bin", "use"):
                continue
            e = rir.rvalue(st_["r"], (bi, si))
            if not (e[0] == "bin" and e[1] == "Add" and e[3][0] == "c" and e[3][1] == 1 and "key_to_id" in show(e[2])):
                continue
            m += 1
            idl = rrs.lin(e[2])
            facts, nes = rrs.facts_at(bi)
            ge = idl is not None and rrs.prove(Lin.const(off).sub(idl), facts)
            gt = idl is not None and rrs.prove(Lin.const(off + 1).sub(idl), facts)
            from .common import holds_at, want_relations
            want_relations(rep, rule, "recycle scans the registry items (type TYPE_ID_EX)", holds_at(rir, bi),
                           [("key_to_raw_type_id", "Eq", 0)], r.loc(st_.get("ln")), "next_type_id is advanced for registry items, the scan stops at the first other type")
            rep.ob(rule, "recycle counts id OFFSET_EXTENDED_TYPE_ID", ge and not gt,
                   "next_type_id = id + 1 for every registry id >= %#x" % off if ge and not gt else
                   ("registry id %#x (the first one the builder hands out) is skipped: the recycled builder hands it out again" % off if gt else
                    "the store is not guarded by id >= OFFSET_EXTENDED_TYPE_ID"), r.loc(st_.get("ln")))
    rep.floor(rule, m, 1, "next_type_id = id + 1 in Snap::recycle")


def reader_clauses(prog, rep):
    """R2c: the exact relations under which RawSnap::read_from_ints refuses its input -- what the writer emits (data_size a
    multiple of 4 and within the data, offsets in bytes, multiples of 4, starting at 0, strictly increasing, ending at
    data_size) is accepted, anything else refused.  Operator and orientation are normalised; see common.exact_clauses."""
    from .common import exact_clauses, _txt, _is0
    b = prog.one(S + "RawSnap::read_from_ints")
    ir = IR(b)
    is_off = lambda a: "offsets" in _txt(a) and "Iterator>::next" in _txt(a)
    table = [
        ("fewer ints than announced offsets", lambda a: a[0] == "len", lambda b_: "num_items" in _txt(b_), "Lt", 1),
        ("data_size is not a multiple of 4", lambda a: a[0] == "bin" and a[1] == "Rem" and "data_size" in _txt(a[2]) and a[3][0] == "c" and a[3][1] == 4, _is0, "Ne", 1),
        ("an offset is negative", lambda a: is_off(a) and a[0] != "bin" and "unwrap_or" not in _txt(a), _is0, "Lt", 1),
        ("an offset is not a multiple of 4", lambda a: a[0] == "bin" and a[1] == "Rem" and is_off(a[2]) and a[3][0] == "c" and a[3][1] == 4, _is0, "Ne", 1),
        ("an offset does not exceed its predecessor", lambda a: is_off(a) and "unwrap_or" in _txt(a), lambda b_: "prev" in _txt(b_) or b_[0] == "unwrapped", "Le", 1),
        ("an offset lies beyond the item data", lambda a: is_off(a) and "unwrap_or" in _txt(a), lambda b_: "data_size" in _txt(b_), "Gt", 1),
        ("the first offset is not 0", lambda a: is_off(a) and "unwrap_or" in _txt(a), _is0, "Ne", 1),
    ]
    exact_clauses(rep, "R2c-reader-clauses", "read_from_ints", b, ir, table, floor=7)
    # the announced sizes against the data actually present: `Greater` is an error, `Less` only a warning
    cmpc = [(bi, t) for bi, t in b.calls() if (t.get("callee") or "").endswith("::cmp")]
    ok = False
    for bi, t in cmpc:
        e = ir.call_expr(bi, t)
        if "len(" in _txt(e[2][1]) and "num_items" in _txt(e[2][0]) and "data_size" in _txt(e[2][0]):
            # the block building ItemsUnpacking is on the Greater arm (discriminant 1)
            for b2 in sorted(b.live):
                for st in b.blocks[b2]["st"]:
                    if st["k"] == "assign" and st["r"]["k"] == "agg" and st["r"].get("variant") == "ItemsUnpacking":
                        for c, rel, v, edge, dty in ir.edge_conditions(b2):
                            if c[0] in ("discr", "call") and "cmp" in _txt(c) and rel == "==" and v == 1:
                                ok = True
    rep.ob("R2c-reader-clauses", "read_from_ints | refuses when offsets + items exceed the data", ok,
           "(num_items + data_size / 4).cmp(&data.len()) == Greater is ItemsUnpacking" if ok else
           "the ItemsUnpacking error is not on the Greater arm of the size comparison", b.loc())
