"""C01 -- vital chunks are delivered exactly once, in order (anchored mechanisms, structurally)."""
from ..facts import AnchorLost, path_matches
from ..ir import IR, show, walk, strip_sites
from ..effects import strip_not, cmp_call

LEVEL = "other"
EXPLANATION = (
    "Decides the four anchored mechanisms structurally; does not decide the behaviour over lossy histories.  R1 (acceptance-rule "
    "sibling agreement): the eager site (ReceivePacket::connected) and the lazy site (ReceiveChunks::next's closure) of 0.6 and 0.7 "
    "all compute ack.update(Sequence::from_u16(seq)) and branch on `!= SequenceOrdering::Current` -- eager: set request_resend, "
    "lazy: skip the chunk; the lazy iterator's ack is the copy of online.ack taken before the eager loop runs.  R2 (sequence "
    "arithmetic): in Sequence::update the store to *self is dominated by the `== Current` edge; Sequence::next is "
    "(seq + 1) % SEQUENCE_MODULUS; SEQUENCE_MODULUS == 1 << SEQUENCE_BITS and SEQUENCE_BITS is the width of the ack / sequence bit "
    "fields (the pack asserts); compare returns Current exactly on the Equal arm of a three-way cmp.  R3 (handshake transition "
    "relation): every assignment to Connection.state in feed_impl / connect / disconnect, with the state variant and the packet "
    "kind that dominate it, belongs to the allowed relation frozen in the table; ReceivePacket::ready() is constructed only on the "
    "Connecting -> Online edge.  R4 (sender bookkeeping): in queue the sequence stored in the ResendChunk and the one written into "
    "the chunk header are the same value; ack_chunks truncates at the position found by an equality test on the sequence.  "
    "R1 also requires the eager scan to visit every chunk (its loop ends only on the iterator's None edge) and R4 that resend writes each retransmitted chunk with its own stored sequence number.  Not decided: ordering / duplication over loss, reordering and wrap-around."
)
EXPLANATION += ("  Round 4: the lazy site may be the closure of ReceiveChunks::next or, written as a loop, next itself: from the non-Current edge no chunk is yielded before the next one is fetched; `ack advances only on Current` also accepts a match on the ordering's discriminant.")
ASSUMPTIONS = ["the application drains every event iterator (lazy replay relies on it)"]

# allowed (state variant before, dominating packet kind or API, new state variant)
ALLOWED = {
    "0.6": {
        ("Pending", "Chunks", "Online"), ("Unconnected", "Connect", "Pending"), ("Connecting", "ConnectAccept", "Online"),
        ("*", "Close", "Disconnected"),
    },
    "0.7": {
        ("Pending", "Chunks", "Online"), ("Unconnected", "Token", "PendingConnect"), ("Token", "Token", "Connecting"),
        ("PendingConnect", "Connect", "Pending"), ("Connecting", "Accept", "Online"), ("*", "Close", "Disconnected"),
    },
}


def run(ctx, rep):
    prog = ctx.prog
    for ver, mod, pmod in (("0.6", "libtw2_net::connection", "libtw2_net::protocol"),
                           ("0.7", "libtw2_net::connection7", "libtw2_net::protocol7")):
        acceptance(prog, rep, ver, mod)
        sequence(prog, rep, ver, mod, pmod)
        handshake(prog, rep, ver, mod, pmod)
        sender(prog, rep, ver, mod)


def _update_tests(body, ir, mod):
    """switches on `Sequence::update(ack, Sequence::from_u16(seq)) != Current`: (bb, ack expr, seq expr, ne?)"""
    out = []
    for bi in sorted(body.live):
        t = body.blocks[bi]["term"]
        if t["k"] != "switch":
            continue
        e, neg = strip_not(ir.term_operand(bi, t["o"]))
        c = cmp_call(e)
        if c is None:
            continue
        is_eq, a, b = c
        for x, y in ((a, b), (b, a)):
            if x[0] == "call" and x[1] == mod + "::Sequence::update":
                if True:
                    seq = x[2][1]
                    out.append((bi, x[2][0], seq, not is_eq if not neg else is_eq, y))
    return out


def acceptance(prog, rep, ver, mod):
    rule = "R1-acceptance-agreement"
    eager = prog.one(mod + "::ReceivePacket::connected")
    lazy = None
    for k, b in prog.bodies.items():
        if k.startswith("<" + mod + "::ReceiveChunks as std::iter::Iterator>::next::{closure"):
            lazy = b
    if lazy is None:
        # written as a loop instead of a closure + tail call: the test sits in `next` itself
        lazy = prog.bodies.get("<" + mod + "::ReceiveChunks as std::iter::Iterator>::next")
    if lazy is None:
        raise AnchorLost("%s: ReceiveChunks::next (or its closure) not found" % ver)
    sites = []
    for name, b in (("eager", eager), ("lazy", lazy)):
        ir = IR(b)
        ts = _update_tests(b, ir, mod)
        rep.floor(rule, len(ts), 1, "%s %s acceptance test" % (ver, name))
        for bi, ack, seq, is_ne, cur in ts:
            okf = seq[0] == "call" and seq[1] == mod + "::Sequence::from_u16"
            okc = _is_current_const(prog, cur, mod)
            sites.append((name, is_ne))
            rep.ob(rule, "%s | %s | ack.update(from_u16(seq)) != Current" % (ver, name), okf and okc and is_ne,
                   "%s site tests `%s.update(%s) %s Current`" % (name, show(ack)[:40], show(seq)[:40], "!=" if is_ne else "=="), b.loc())
            if name == "eager":
                # the true edge stores request_resend = true
                ok = False
                for b2 in sorted(b.live):
                    for si, st in enumerate(b.blocks[b2]["st"]):
                        if st["k"] == "assign" and st["p"].get("pr") and "request_resend" in show(ir.place(st["p"], (b2, si))):
                            for e, rel, v, edge, dty in ir.edge_conditions(b2):
                                if edge[0] == bi and ((rel == "==" and v == 1) or (rel == "notin" and 0 in v)):
                                    ok = True
                rep.ob(rule, "%s | eager | non-Current sets request_resend" % ver, ok, "request_resend = true on the non-Current edge", b.loc())
                # the ack updated is online.ack; the lazy copy is taken before the loop
                ok2 = "ack" in show(ack) and "online" in show(ack)
                clone_ok = False
                for b2 in sorted(b.live):
                    for si, st in enumerate(b.blocks[b2]["st"]):
                        if st["k"] == "assign" and st["r"]["k"] == "agg" and (st["r"].get("adt") or "").endswith("ReceiveChunks"):
                            e = ir.rvalue(st["r"], (b2, si))
                            av = dict(e[4]).get("ack")
                            # the value is a load of online.ack at the epoch of function entry (before the loop's updates)
                            if av is not None and "ack" in show(av):
                                for x in walk(av):
                                    if isinstance(x, tuple) and x and x[0] == "deref" and x[2] == ("init",):
                                        clone_ok = True
                rep.ob(rule, "%s | lazy ack is the pre-loop copy" % ver, ok2 and clone_ok,
                       "ReceiveChunks.ack is online.ack as it was before the eager loop updated it", b.loc())
            else:
                # lazy: from the non-Current edge no chunk is yielded before the next one is fetched (tail call of next, or
                # `continue` to the fetch at the loop head)
                fetch = frozenset(b2 for b2, t in b.calls() if (t.get("callee") or "").endswith("ReceiveChunks as std::iter::Iterator>::next")
                                  or "ChunksIter" in (t.get("callee") or "") and (t.get("callee") or "").rsplit("::", 1)[-1] in ("next", "next_warn"))
                yields = [b2 for b2 in sorted(b.live) for st in b.blocks[b2]["st"]
                          if st["k"] == "assign" and st["r"]["k"] == "agg" and (st["r"].get("adt") or "").endswith("ReceiveChunk") and st["r"].get("variant") == "Connected"]
                from ..effects import bool_edge
                tgt = bool_edge(b, bi, bool(is_ne))
                ok = bool(fetch) and bool(yields) and tgt is not None and not any(y in b.reachable_from(tgt, removed_blocks=fetch) for y in yields)
                rep.ob(rule, "%s | lazy | non-Current chunk is skipped" % ver, ok, "the lazy replay skips chunks that are not the next in sequence", b.loc())
    # the eager scan visits every chunk of the datagram: its loop is left only through the chunk iterator's None edge
    # (an early `break` would let the lazy replay deliver chunks the bookkeeping never saw)
    eir = IR(eager)
    tests = _update_tests(eager, eir, mod)
    for comp in eager.sccs():
        if not any(t_[0] in comp for t_ in tests):
            continue
        cs = set(comp)
        exits = []
        for bi in comp:
            for s_ in eager.succ[bi]:
                if s_ not in cs:
                    exits.append((bi, s_))
        bad = []
        for bi, s_ in exits:
            t = eager.blocks[bi]["term"]
            ok_exit = False
            if t["k"] == "switch":
                e = eir.term_operand(bi, t["o"])
                if e[0] == "discr" and "next" in show(e[1]):
                    ok_exit = True
            if not ok_exit:
                # leaving towards a panic / unwind-only block is not an early exit of the scan
                tt = eager.blocks[s_]["term"]
                if tt["k"] in ("unreachable",) or (tt["k"] == "call" and "panic" in (tt.get("callee") or "")):
                    ok_exit = True
            if not ok_exit:
                bad.append((bi, s_))
        rep.ob(rule, "%s | eager scan covers every chunk" % ver, not bad,
               "the acceptance loop ends only when the chunk iterator is exhausted" if not bad else
               "the acceptance loop can be left early (bb%d -> bb%d): later chunks of the datagram are replayed to the application without being recorded in ack" % bad[0],
               eager.loc())
    pol = set(p for _, p in sites)
    rep.ob(rule, "%s | both sites use the same polarity" % ver, len(pol) == 1 and len(sites) >= 2, "acceptance tests: %s" % sites, None)


def _is_current_const(prog, e, mod):
    """e denotes SequenceOrdering::Current (an aggregate, or a promoted constant identified by its bytes)"""
    adt = prog.adts.get(mod + "::SequenceOrdering")
    for x in walk(e):
        if isinstance(x, tuple) and x and x[0] == "agg" and x[3] == "Current":
            return True
        if isinstance(x, tuple) and x and x[0] == "k" and (x[1] or "").endswith("SequenceOrdering") and (x[2] or "").startswith("bytes:") and adt:
            d = int(x[2][6:8], 16)
            for v in adt["variants"]:
                if str(v["discr"]) == str(d) and v["name"] == "Current":
                    return True
    return False


def sequence(prog, rep, ver, mod, pmod):
    rule = "R2-sequence-arithmetic"
    u = prog.one(mod + "::Sequence::update")
    ir = IR(u)
    st = []
    for bi in sorted(u.live):
        for si, s in enumerate(u.blocks[bi]["st"]):
            if s["k"] == "assign" and s["p"].get("pr") and any(x == "*" for x in s["p"]["pr"]):
                pe = ir.place(s["p"], (bi, si))
                if ir.access_path(pe) == (("a", 0), ()):
                    st.append(bi)
    rep.floor(rule, len(st), 1, "%s: store to *self in Sequence::update" % ver)
    for bi in st:
        ok = False
        for e, rel, v, edge, dty in ir.edge_conditions(bi):
            e2, neg = strip_not(e)
            c = cmp_call(e2)
            if c is not None:
                truth = ((rel == "==" and v == 1) or (rel == "notin" and 0 in v)) != neg
                if c[0] == truth and (_is_current_const(prog, c[1], mod) or _is_current_const(prog, c[2], mod)):
                    ok = True
            elif e2[0] == "discr" and not neg and (ir.type_of(e2[1]) or "").endswith("SequenceOrdering"):
                # `match result { Current => .., _ => .. }`: the discriminant identifies the variant
                adt = prog.adts.get(mod + "::SequenceOrdering")
                if adt:
                    all_d = {int(v_["discr"]): v_["name"] for v_ in adt["variants"]}
                    if rel == "==":
                        left = {v} & set(all_d)
                    else:
                        left = set(all_d) - set(v)
                    if left and all(all_d[d] == "Current" for d in left):
                        ok = True
        rep.ob(rule, "%s | ack advances only on Current" % ver, ok, "*self = next_self is dominated by `result == Current`", u.loc())
    n = prog.one(mod + "::Sequence::next")
    nir = IR(n)
    ok = False
    mod_c = prog.constv(pmod + "::SEQUENCE_MODULUS")
    for bi in sorted(n.live):
        for si, s in enumerate(n.blocks[bi]["st"]):
            if s["k"] == "assign" and s["p"].get("pr"):
                v = nir.rvalue(s["r"], (bi, si))
                if v[0] == "bin" and v[1] == "Rem" and v[3][0] == "c" and v[3][1] == mod_c and v[2][0] == "bin" and v[2][1] == "Add" and v[2][3][0] == "c" and v[2][3][1] == 1:
                    ok = True
    rep.ob(rule, "%s | next = (seq + 1) %% SEQUENCE_MODULUS" % ver, ok, "Sequence::next stores (seq + 1) %% %d" % mod_c, n.loc())
    bits = prog.constv(pmod + "::SEQUENCE_BITS")
    rep.ob(rule, "%s | SEQUENCE_MODULUS == 1 << SEQUENCE_BITS" % ver, mod_c == 1 << bits, "%d == 1 << %d" % (mod_c, bits), None)
    # the pack asserts of ack and sequence use SEQUENCE_BITS
    for fn in (pmod + "::PacketHeader::pack", pmod + "::ChunkHeaderVital::pack"):
        b = prog.one(fn)
        bir = IR(b)
        ok = False
        for bi in sorted(b.live):
            t = b.blocks[bi]["term"]
            if t["k"] == "switch":
                e = bir.term_operand(bi, t["o"])
                for x in walk(e):
                    if isinstance(x, tuple) and x and x[0] == "bin" and x[1] == "Shr" and x[3][0] == "c" and x[3][3] == pmod + "::SEQUENCE_BITS" and \
                       ("ack" in show(x[2]) or "sequence" in show(x[2])):
                        ok = True
        rep.ob(rule, "%s | %s bounds the field by SEQUENCE_BITS" % (ver, fn.rsplit("::", 2)[-2]), ok,
               "the header field carrying sequence numbers is asserted to fit SEQUENCE_BITS", b.loc())
    c = prog.one(mod + "::Sequence::compare")
    cir = IR(c)
    ok = False
    for bi in sorted(c.live):
        for si, s in enumerate(c.blocks[bi]["st"]):
            if s["k"] == "assign" and s["p"]["l"] == 0 and s["r"]["k"] == "agg" and s["r"].get("variant") == "Current":
                for e, rel, v, edge, dty in cir.edge_conditions(bi):
                    if e[0] == "discr" and "cmp" in show(e[1]) and rel == "==" and v == 0:
                        ok = True
    rep.ob(rule, "%s | compare returns Current exactly on Equal" % ver, ok, "Current is returned on the Equal arm of seq.cmp(other.seq)", c.loc())


def _variant(prog, adt_path, idx):
    a = prog.adts.get(adt_path)
    if a and idx < len(a["variants"]):
        return a["variants"][idx]["name"]
    return None


def handshake(prog, rep, ver, mod, pmod):
    rule = "R3-handshake-relation"
    f = prog.one(mod + "::Connection::feed_impl")
    ir = IR(f)
    n = 0
    for bi in sorted(f.live):
        for si, st in enumerate(f.blocks[bi]["st"]):
            if st["k"] != "assign" or not st["p"].get("pr"):
                continue
            pe = ir.place(st["p"], (bi, si))
            if ir.access_path(pe) != (("a", 0), ("state",)):
                continue
            v = ir.rvalue(st["r"], (bi, si))
            new = v[3] if v[0] == "agg" else None
            if new is None:
                continue
            n += 1
            before, kind = "*", None
            for e, rel, val, edge, dty in ir.edge_conditions(bi):
                if e[0] == "discr" and rel == "==":
                    if ir.access_path(e[1]) == (("a", 0), ("state",)) and before == "*":
                        before = _variant(prog, mod + "::State", val) or "*"
                    ty = ir.type_of(e[1]) or ""
                    if "ControlPacket" in ty and kind is None:
                        kind = _variant(prog, pmod + "::ControlPacket", val)
                    elif "ConnectedPacketType" in ty and kind is None:
                        k2 = _variant(prog, pmod + "::ConnectedPacketType", val)
                        if k2 == "Chunks":
                            kind = "Chunks"
            if new == "Disconnected":
                before = "*"
            ok = (before, kind, new) in ALLOWED[ver]
            rep.ob(rule, "%s | %s -%s-> %s" % (ver, before, kind, new), ok,
                   "state transition %s --%s--> %s is in the allowed relation" % (before, kind, new) if ok else
                   "state transition %s --%s--> %s is NOT in the allowed handshake relation" % (before, kind, new), f.loc(st.get("ln")))
    rep.floor(rule, n, len(ALLOWED[ver]), "%s: state assignments in feed_impl" % ver)
    # ready() only on the Connecting -> Online edge
    rd = [(bi, t) for bi, t in f.calls() if (t.get("callee") or "") == mod + "::ReceivePacket::ready"]
    rep.floor(rule, len(rd), 1, "%s: ReceivePacket::ready()" % ver)
    for bi, t in rd:
        ok = False
        for e, rel, val, edge, dty in ir.edge_conditions(bi):
            if e[0] == "discr" and rel == "==" and ir.access_path(e[1]) == (("a", 0), ("state",)) and _variant(prog, mod + "::State", val) == "Connecting":
                ok = True
        rep.ob(rule, "%s | ready only when leaving Connecting" % ver, ok, "ReceivePacket::ready() is built on the `state is Connecting` edge, which is left on the same path", f.loc(t.get("ln")))


def sender(prog, rep, ver, mod):
    rule = "R4-sender-bookkeeping"
    q = prog.one(mod + "::Connection::queue")
    ir = IR(q)
    rc = [(bi, t) for bi, t in q.calls() if (t.get("callee") or "") == mod + "::ResendChunk::new"]
    rep.floor(rule, len(rc), 1, "%s: ResendChunk::new in queue" % ver)
    for bi, t in rc:
        seq = ir.term_operand(bi, t["args"][1])
        # the header value: Some((sequence.to_u16(), false)) built from the same `sequence`
        ok = False
        for b2 in sorted(q.live):
            for si, st in enumerate(q.blocks[b2]["st"]):
                if st["k"] == "assign" and st["r"]["k"] == "agg" and st["r"].get("variant") == "Some":
                    e = ir.rvalue(st["r"], (b2, si))
                    for x in walk(e):
                        if isinstance(x, tuple) and x and x[0] == "call" and x[1] == mod + "::Sequence::to_u16" and strip_sites(x[2][0]) == strip_sites(seq):
                            ok = True
        okn = seq[0] == "call" and seq[1] == mod + "::Sequence::next" or "Sequence::next" in show(seq)
        rep.ob(rule, "%s | stored and transmitted sequence are the same value" % ver, ok and okn,
               "queue stores `%s` in the ResendChunk and sends its to_u16() in the chunk header" % show(seq)[:60], q.loc(t.get("ln")))
        data = ir.term_operand(bi, t["args"][2])
        rep.ob(rule, "%s | retained data is the submitted buffer" % ver, data[0] == "arg" or show(data).strip("&*") == "buffer",
               "ResendChunk::new(cb, sequence, %s)" % show(data), q.loc(t.get("ln")))
    # resend: each retransmitted chunk is written with its *own* stored sequence number and data (same queue element)
    rs = prog.one(mod + "::Connection::resend")
    rir = IR(rs)
    wc = [(bi, t) for bi, t in rs.calls() if (t.get("callee") or "").endswith("PacketContents::write_chunk")]
    rep.floor(rule, len(wc), 1, "%s: write_chunk in resend" % ver)
    for bi, t in wc:
        e = rir.call_expr(bi, t)
        data, vit = strip_sites(e[2][1]), strip_sites(e[2][2])
        def elem_of(x, field):
            for y in walk(x):
                if isinstance(y, tuple) and y and y[0] == "field" and y[2] == field:
                    return y[1]
            return None
        d_el, s_el = elem_of(data, "data"), elem_of(vit, "sequence")
        ok = d_el is not None and s_el is not None and d_el == s_el and "resend_queue" in show(d_el)
        rep.ob(rule, "%s | resend labels a chunk with its own stored sequence" % ver, ok,
               "write_chunk(&chunk.data, Some((chunk.sequence.to_u16(), true))) for the same queue element" if ok else
               "resend writes data of `%s` under the sequence `%s`: a retransmission carries another chunk's number" % (show(d_el) if d_el else show(data)[:60], show(s_el) if s_el else show(vit)[:80]),
               rs.loc(t.get("ln")))
    pf = [bi for bi, t in q.calls() if (t.get("callee") or "").endswith("VecDeque::push_front")]
    rep.ob(rule, "%s | newest chunk goes to the front of the queue" % ver, bool(pf), "resend_queue.push_front(..)", q.loc())
    a = prog.one(mod + "::OnlineState::ack_chunks")
    air = IR(a)
    pos = [bi for bi, t in a.calls() if (t.get("callee") or "").endswith("::position")]
    tr = [bi for bi, t in a.calls() if (t.get("callee") or "").endswith("VecDeque::truncate")] or \
         [k for k in prog.bodies if k.startswith(mod + "::OnlineState::ack_chunks::{closure")]
    eqc = False
    for k, b in prog.bodies.items():
        if k.startswith(mod + "::OnlineState::ack_chunks::{closure"):
            for bi, t in b.calls():
                f = t.get("callee") or ""
                if f.endswith("::eq") and "sequence" in show(IR(b).term_operand(bi, t["args"][0])):
                    eqc = True
            for blk in b.blocks:
                for st in blk["st"]:
                    if st["k"] == "assign" and st["r"]["k"] == "bin" and st["r"]["op"] == "Eq":
                        eqc = True
    rep.ob(rule, "%s | ack truncates at the acknowledged sequence" % ver, bool(pos) and bool(tr) and eqc,
           "ack_chunks finds the position by `chunk.sequence == ack` (an equality) and truncates the queue there", a.loc())
