"""C06 -- the packet reader is total and stays inside its buffers."""
from .common import totality, loops
from .shared_tables import BUFFER, HUFFMAN_DECOMPRESS, HUFFMAN_DECOMPRESS_LOOPS

LEVEL = "other"
EXPLANATION = (
    "Static totality argument over the type-checked MIR of the current tree.  R1: every construct that can "
    "panic (bounds/overflow/div asserts, panic!/assert!/unreachable!, unwrap/expect, split_at, range indexing, "
    "asserting casts, exported preconditions of callees) in every body reachable from Packet::read, "
    "Packet::is_initial and ChunksIter (0.6 and 0.7) must follow from the branch conditions dominating it "
    "(integer linear reasoner over slice lengths, constants and parameters, with memory epochs) or be a reviewed "
    "table line.  R2: every CFG cycle in those bodies is driven by a finite std iterator or is a reviewed line.  "
    "Slice provenance is guaranteed by safe Rust; the reachable unsafe is the buffer/huffman set audited under "
    "C19/C07.  Not decided: re-written packets read back equal (value level)."
)
ASSUMPTIONS = [
    "std / arrayvec / zerocopy functions not listed in the precondition table of sa/panics.py do not panic",
    "caller-supplied Warn / Callback implementations do not panic",
    "the reviewed table lines (sa/rules/C06.py, shared_tables.py) were confirmed by reading the code",
    "allocation failure and stack exhaustion are out of scope",
]

ENTRIES = [
    "libtw2_net::protocol::Packet::read", "libtw2_net::protocol::Packet::is_initial",
    "libtw2_net::protocol::ChunksIter::new", "libtw2_net::protocol::ChunksIter::next_warn",
    "<libtw2_net::protocol::ChunksIter as std::iter::Iterator>::next",
    "libtw2_net::protocol7::Packet::read", "libtw2_net::protocol7::ChunksIter::new",
    "libtw2_net::protocol7::ChunksIter::next_warn",
    "<libtw2_net::protocol7::ChunksIter as std::iter::Iterator>::next",
]

REVIEWED = dict(BUFFER)
REVIEWED.update(HUFFMAN_DECOMPRESS)
for _m in ("protocol", "protocol7"):
    _p = "libtw2_net::%s::" % _m
    REVIEWED.update({
        _p + 'ChunksIter::next_warn | overflow | Sub | 0':
            "i32 counter initialised from a u8 (<= 255) and decremented once per parsed chunk; every chunk consumes "
            ">= 2 bytes of a payload of at most 1400 bytes, so it stays above -700",
        _p + 'Packet::decompress::{closure#0} | precondition | ' + _p + 'Packet::decompress_impl | 0':
            "decompress is called from read_impl only after ref_and_rest_from(bytes) returned Some for the same bytes",
        _p + 'Packet::decompress_impl | panic-call | assert! | 0':
            "documented scratch-buffer contract of Packet::read (`buffer` needs MAX_PACKETSIZE bytes)",
        _p + 'Packet::decompress_impl | panic-call | assert! | 1':
            "internal consistency assert: read_impl calls decompress only on the COMPRESSION && !CONNLESS branch of the same header",
        _p + 'Packet::decompress_impl | panic-call | assert! | 2':
            "same: the CONNLESS branch of read_impl returns before decompression",
        _p + 'Packet::decompress_impl | panic-call | assert! | 3':
            "same: decompress is reached only under `flags & COMPRESSION != 0`",
        _p + 'Packet::decompress_impl | unwrap | unwrap<-BufferRef::write | 0':
            "3..7 header bytes into a buffer asserted to hold MAX_PACKETSIZE bytes two lines above",
        _p + 'Packet::read_impl | panic-call | assert! | 0':
            "documented scratch-buffer contract of Packet::read (`buffer` needs MAX_PACKETSIZE bytes)",
        _p + 'Packet::read_impl | unwrap | expect<-arg | 0':
            "read_panic_on_decompression panics on compressed input by contract (it is in its name); Packet::read always passes Some",
        _p + 'Packet::read_impl | unwrap | unwrap<-FromBytesExt::ref_and_rest_from | 0':
            "decompress_impl writes the packed header first, so its output is at least HEADER_SIZE long",
    })
REVIEWED.update({
    'libtw2_net::protocol::ChunksIter::pos | overflow | Sub | 0':
        "data is only ever replaced by a suffix of itself (or the empty slice), so data.len() <= initial_len",
    'libtw2_net::protocol::has_token_heuristic | overflow | Add | 3':
        "payload_end_heuristic is a position inside the payload (<= 1400) or 1 + nul + 1 with nul <= payload.len()",
})
REVIEWED_LOOPS = dict(HUFFMAN_DECOMPRESS_LOOPS)


def run(ctx, rep):
    R, pa = totality(ctx, rep, "R1-no-panic", ENTRIES, REVIEWED)
    loops(ctx, rep, "R2-loops", R, REVIEWED_LOOPS)
    if ctx.tier == "thorough":
        from .. import witness
        n = witness.run(ctx, rep, "R3-compile-fail-witnesses", ("W7", "W8"))
        rep.floor("R3-compile-fail-witnesses", n, 2, "type-level witnesses W7-W8 of witness/src/lib.rs (parsed packets borrow the datagram and the scratch buffer)")
