"""C06 -- the packet reader is total and stays inside its buffers."""
from ..facts import AnchorLost
from ..ir import IR, show, strip_sites
from .common import totality, loops
from .shared_tables import BUFFER, HUFFMAN_DECOMPRESS, HUFFMAN_DECOMPRESS_LOOPS

LEVEL = "other"
EXPLANATION = (
    "Static totality argument over the type-checked MIR of the current tree.  R1: every construct that can "
    "panic (bounds/overflow/div asserts, panic!/assert!/unreachable!, unwrap/expect, split_at, range indexing, "
    "asserting casts, exported preconditions of callees) in every body reachable from Packet::read, "
    "Packet::is_initial and ChunksIter (0.6 and 0.7) must follow from the branch conditions dominating it "
    "(integer linear reasoner over slice lengths, constants and parameters, with memory epochs) or be a reviewed "
    "table line.  R2: every CFG cycle in those bodies is driven by a finite std iterator or is a reviewed line.  "
    "Slice provenance is guaranteed by safe Rust; the reachable unsafe is the buffer/huffman set audited under "
    "C19/C07.  R4 (accepted payload bounded): the over-long-payload guard of read_impl tests the payload after decompression against MAX_PACKETSIZE - HEADER_SIZE (shared with C05 R4).  R5: the flag tests decompress_impl asserts are implied by needs_decompression() == true, the predicate decompress_if_needed / read_impl test first.  R3 (thorough): compile-fail witnesses W7/W8 -- a parsed packet borrows the datagram and the scratch buffer.  Not decided: re-written packets read back equal (value level)."
)
ASSUMPTIONS = [
    "std / arrayvec / zerocopy functions not listed in the precondition table of sa/panics.py do not panic",
    "caller-supplied Warn / Callback implementations do not panic",
    "the reviewed table lines (sa/rules/C06.py, shared_tables.py) were confirmed by reading the code",
    "allocation failure and stack exhaustion are out of scope",
]

ENTRIES = [
    "libtw2_net::protocol::Packet::read", "libtw2_net::protocol::Packet::is_initial",
    "libtw2_net::protocol::ChunksIter::new", "libtw2_net::protocol::ChunksIter::next_warn",
    "<libtw2_net::protocol::ChunksIter as std::iter::Iterator>::next",
    "libtw2_net::protocol7::Packet::read", "libtw2_net::protocol7::ChunksIter::new",
    "libtw2_net::protocol7::ChunksIter::next_warn",
    "<libtw2_net::protocol7::ChunksIter as std::iter::Iterator>::next",
]

REVIEWED = dict(BUFFER)
REVIEWED.update(HUFFMAN_DECOMPRESS)
for _m in ("protocol", "protocol7"):
    _p = "libtw2_net::%s::" % _m
    REVIEWED.update({
        _p + 'ChunksIter::next_warn | overflow | Sub | 0':
            "i32 counter initialised from a u8 (<= 255) and decremented once per parsed chunk; every chunk consumes "
            ">= 2 bytes of a payload of at most 1400 bytes, so it stays above -700",
        _p + 'Packet::decompress::{closure#0} | precondition | ' + _p + 'Packet::decompress_impl | 0':
            "decompress is called from read_impl only after ref_and_rest_from(bytes) returned Some for the same bytes",
        _p + 'Packet::decompress_impl | panic-call | assert! | 0':
            "documented scratch-buffer contract of Packet::read (`buffer` needs MAX_PACKETSIZE bytes)",
        _p + 'Packet::decompress_impl | panic-call | assert! | 1':
            "internal consistency assert: read_impl calls decompress only on the COMPRESSION && !CONNLESS branch of the same header",
        _p + 'Packet::decompress_impl | panic-call | assert! | 2':
            "same: the CONNLESS branch of read_impl returns before decompression",
        _p + 'Packet::decompress_impl | panic-call | assert! | 3':
            "same: decompress is reached only under `flags & COMPRESSION != 0`",
        _p + 'Packet::decompress_impl | unwrap | unwrap<-BufferRef::write | 0':
            "3..7 header bytes into a buffer asserted to hold MAX_PACKETSIZE bytes two lines above",
        _p + 'Packet::read_impl | panic-call | assert! | 0':
            "documented scratch-buffer contract of Packet::read (`buffer` needs MAX_PACKETSIZE bytes)",
        _p + 'Packet::read_impl | unwrap | expect<-arg | 0':
            "read_panic_on_decompression panics on compressed input by contract (it is in its name); Packet::read always passes Some",
        _p + 'Packet::read_impl | unwrap | unwrap<-FromBytesExt::ref_and_rest_from | 0':
            "decompress_impl writes the packed header first, so its output is at least HEADER_SIZE long",
    })
REVIEWED.update({
    'libtw2_net::protocol::ChunksIter::pos | overflow | Sub | 0':
        "data is only ever replaced by a suffix of itself (or the empty slice), so data.len() <= initial_len",
    'libtw2_net::protocol::has_token_heuristic | overflow | Add | 3':
        "payload_end_heuristic is a position inside the payload (<= 1400) or 1 + nul + 1 with nul <= payload.len()",
})
REVIEWED_LOOPS = dict(HUFFMAN_DECOMPRESS_LOOPS)


def run(ctx, rep):
    R, pa = totality(ctx, rep, "R1-no-panic", ENTRIES, REVIEWED)
    loops(ctx, rep, "R2-loops", R, REVIEWED_LOOPS)
    from .C05 import reader_size_limit
    for mod in ("libtw2_net::protocol", "libtw2_net::protocol7"):
        reader_size_limit(ctx.prog, rep, "R4-accepted-payload-bounded", mod)
        decompress_agreement(ctx.prog, rep, mod)
        writer_preconditions(ctx.prog, rep, mod)
    if ctx.tier == "thorough":
        from .. import witness
        n = witness.run(ctx, rep, "R3-compile-fail-witnesses", ("W7", "W8"))
        rep.floor("R3-compile-fail-witnesses", n, 2, "type-level witnesses W7-W8 of witness/src/lib.rs (parsed packets borrow the datagram and the scratch buffer)")


def _flag_atom(e, truth):
    """(mask, must_be_zero) for Eq/Ne(BitAnd(<header>.flags, mask), 0) with the given truth value"""
    if e[0] != "bin" or e[1] not in ("Eq", "Ne"):
        return None
    a, b = e[2], e[3]
    if not (b[0] == "c" and b[1] == 0 and a[0] == "bin" and a[1] == "BitAnd" and a[3][0] == "c"):
        return None
    if not show(strip_sites(a[2])).endswith(".flags"):
        return None
    return (a[3][1], (e[1] == "Eq") == truth)


def _truth(rel, v):
    if rel == "==" and v in (0, 1):
        return bool(v)
    if rel == "notin" and len(v) == 1 and v[0] in (0, 1):
        return not bool(v[0])
    return None


def decompress_agreement(prog, rep, mod):
    """R5: the flag tests that decompress_impl asserts (reviewed lines of R1 rest on them) are exactly implied by
    needs_decompression() == true, the predicate decompress_if_needed and read_impl test first"""
    rule = "R5-decompress-precondition-agreement"
    tag = mod.split("::")[-1]
    nd = prog.one(mod + "::Packet::needs_decompression")
    di = prog.one(mod + "::Packet::decompress_impl")
    nir, dir_ = IR(nd), IR(di)
    true_atoms = None
    for bi in sorted(nd.live):
        for si, st in enumerate(nd.blocks[bi]["st"]):
            if st["k"] == "assign" and st["p"]["l"] == 0 and not st["p"].get("pr"):
                e = nir.rvalue(st["r"], (bi, si))
                if e[0] == "c" and e[1] == 0:
                    continue
                atoms = set()
                if not (e[0] == "c" and e[1] == 1):
                    a = _flag_atom(e, True)
                    if a is None:
                        atoms.add(("?", show(strip_sites(e))[:60]))
                    else:
                        atoms.add(a)
                for c, rel, v, edge, dty in nir.edge_conditions(bi):
                    t = _truth(rel, v)
                    a = _flag_atom(c, t) if t is not None else None
                    if a is not None:
                        atoms.add(a)
                true_atoms = atoms if true_atoms is None else (true_atoms & atoms)
    if true_atoms is None:
        raise AnchorLost("%s needs_decompression: no path returns true" % tag)
    asserted = set()
    for bi, t in di.calls():
        if "panicking::panic" not in (t.get("callee") or ""):
            continue
        conds = dir_.edge_conditions(bi)
        if not conds:
            continue
        c, rel, v, edge, dty = conds[0]
        tr = _truth(rel, v)
        if tr is None:
            continue
        a = _flag_atom(c, not tr)      # the assert demands the opposite of what leads to the panic
        if a is not None:
            asserted.add(a)
    rep.floor(rule, len(asserted), 1, "%s: flag asserts in decompress_impl" % tag)
    # needs_decompression and read_impl agree on the length limit: both give up only for len > MAX_PACKETSIZE, so a compressed
    # datagram of exactly MAX_PACKETSIZE bytes that read_impl sends to decompress_impl passes the assert there
    from .common import holds_at, want_relations
    mp = prog.constv(mod + "::MAX_PACKETSIZE")
    falses = []
    for bi in sorted(nd.live):
        for si, st in enumerate(nd.blocks[bi]["st"]):
            if st["k"] == "assign" and st["p"]["l"] == 0 and not st["p"].get("pr"):
                e = nir.rvalue(st["r"], (bi, si))
                if e[0] == "c" and e[1] == 0:
                    rels = holds_at(nir, bi)
                    if rels and rels[0][0] != "bool" and rels[0][0][0] == "len":
                        falses.append((bi, rels, st.get("ln")))
    rep.floor(rule, len(falses), 1, "%s: length test of needs_decompression" % tag)
    for bi, rels, ln in falses:
        want_relations(rep, rule, "%s | needs_decompression gives up only above MAX_PACKETSIZE" % tag, rels[:1], [("len(", "Gt", mp)], nd.loc(ln),
                       "return false for an over-long datagram")
    fmt = lambda s_: sorted("flags & %#x %s 0" % (m, "==" if z else "!=") for m, z in s_ if m != "?")
    ok = asserted <= true_atoms
    rep.ob(rule, "%s | needs_decompression implies decompress_impl's asserts" % tag, ok,
           "needs_decompression() == true establishes %s; decompress_impl asserts %s" % (fmt(true_atoms), fmt(asserted)) if ok else
           "decompress_impl asserts %s but needs_decompression() == true only establishes %s: decompress_if_needed can reach the assert on attacker bytes"
           % (fmt(asserted), fmt(true_atoms)), nd.loc())


def writer_preconditions(prog, rep, mod):
    """R6: "whatever they accept can be written out again" -- the structural half: every value the control-packet writer
    asserts against (`assert!(field != CONST)`) must be refused by the reader for that variant, otherwise a packet returned by
    Packet::read makes Packet::write panic"""
    rule = "R6-writer-preconditions-are-reader-postconditions"
    tag = mod.split("::")[-1]
    w = prog.bodies.get(mod + "::ControlPacket::write")
    if w is None:
        raise AnchorLost(mod + "::ControlPacket::write not found")
    wir = IR(w)
    asserts = []
    for bi, t in w.calls():
        if "panicking::panic" not in (t.get("callee") or ""):
            continue
        conds = wir.edge_conditions(bi)
        if not conds:
            continue
        c, rel, v, edge, dty = conds[0]
        if c[0] == "call" and c[1].split("::")[-1] in ("ne", "eq") and len(c[2]) == 2:
            txt = [show(strip_sites(a)) for a in c[2]]
            k = [x for x in txt if x.startswith("&bytes:")]
            f = [x for x in txt if " as " in x]
            if k and f:
                variant = f[0].split(" as ")[1].split(")")[0]
                asserts.append((variant, k[0][len("&bytes:"):], t.get("ln")))
    if tag == "protocol7":
        rep.floor(rule, len(asserts), 2, "protocol7: value asserts in ControlPacket::write")
    r = prog.one(mod + "::Packet::read_impl")
    bodies = [r] + [b for b in prog.bodies.values() if b.id.startswith(mod + "::Packet::read_impl::{closure")]
    tested = set()
    for b in bodies:
        ir = IR(b)
        for bi, t in b.calls():
            f = t.get("callee") or ""
            if f.split("::")[-1] in ("ne", "eq") and "PartialEq" in f:
                e = ir.call_expr(bi, t)
                txt = [show(strip_sites(a)) for a in e[2]]
                k = [x for x in txt if x.startswith("&bytes:")]
                o = [x for x in txt if not x.startswith("&bytes:")]
                if k and o and "header.token" not in o[0] and ".token" not in o[0].split("(")[-1]:
                    tested.add(k[0][len("&bytes:"):])
    for variant, k, ln in asserts:
        ok = k in tested
        rep.ob(rule, "%s | %s != %s" % (tag, variant, k), ok,
               "the reader refuses %s(%s), which the writer asserts against" % (variant, k) if ok else
               "Packet::read accepts a control packet %s whose payload token is %s, and ControlPacket::write asserts `!= %s`: the accepted packet cannot be written out again"
               % (variant, k, k), w.loc(ln))
