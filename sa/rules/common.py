"""Rule helpers shared by the per-property modules."""
from ..facts import AnchorLost, path_matches
from ..panics import PanicAnalysis
from ..ir import IR, show


def resolve_entries(prog, patterns):
    """patterns: body-id suffixes; each must resolve to at least one body (fail closed)"""
    out = []
    for pat in patterns:
        r = prog.find(pat)
        if not r:
            raise AnchorLost("entry point `%s` not found" % pat)
        out.extend(b.id for b in r)
    return sorted(set(out))


STD_FINITE_ITERS = (
    "std::slice::iter::Iter", "std::slice::Iter", "std::slice::iter::IterMut", "std::slice::IterMut",
    "std::ops::Range", "std::ops::range::Range", "std::ops::RangeInclusive", "std::ops::range::RangeInclusive",
    "std::iter::Enumerate", "std::iter::adapters::enumerate::Enumerate", "std::iter::Map", "std::iter::adapters::map::Map",
    "std::iter::Zip", "std::iter::adapters::zip::Zip", "std::iter::Chain", "std::iter::adapters::chain::Chain",
    "std::iter::Cloned", "std::iter::adapters::cloned::Cloned", "std::iter::Copied", "std::iter::adapters::copied::Copied",
    "std::iter::Rev", "std::iter::adapters::rev::Rev", "std::iter::Take", "std::iter::adapters::take::Take",
    "std::iter::Skip", "std::iter::Filter", "std::iter::FilterMap", "std::iter::Peekable", "std::iter::StepBy",
    "std::iter::adapters", "std::iter::Once", "std::iter::sources::once::Once",
    "std::collections::vec_deque", "std::collections::btree_map", "std::collections::btree", "std::collections::hash",
    "std::collections::BTreeMap", "std::collections::HashMap", "std::vec::IntoIter", "std::vec::Drain",
    "std::vec::into_iter::IntoIter", "std::vec::drain::Drain", "std::str::Chars", "std::str::iter", "std::str::Bytes",
    "std::slice::Chunks", "std::slice::iter::Chunks", "std::slice::ChunksExact", "std::slice::Windows",
    "std::array::IntoIter", "std::array::iter::IntoIter", "std::option::IntoIter", "std::option::Iter",
    "arrayvec::", "linear_map::", "vec_map::", "itertools::", "std::iter::Fuse", "std::iter::Flatten", "std::iter::FlatMap",
    "std::char::", "std::iter::Scan", "std::iter::TakeWhile", "std::iter::SkipWhile", "std::iter::Inspect",
    "std::slice::Split", "std::slice::iter::Split", "std::str::Split", "std::str::Lines", "std::str::SplitN",
    "std::path::", "std::env::", "std::fs::ReadDir", "std::io::Lines", "std::io::Bytes",
)


def totality(ctx, rep, rule, entries, reviewed, exempt_fns=(), trusted_fns=(), skip_fns=(), api_preconditions=()):
    """A3+A4: every panic site reachable from the entry points is discharged by its dominating
    guards (or, through exported preconditions, by the guards at every call site), or is a
    reviewed table line.  Returns the reachable set."""
    prog = ctx.prog
    cg = ctx.cg
    eids = resolve_entries(prog, entries)
    R = cg.reachable(eids)
    R = set(f for f in R if not any(path_matches(f, s) or f.startswith(s) for s in skip_fns))
    pa = PanicAnalysis(prog, exempt_fns=exempt_fns, trusted_fns=trusted_fns)
    used = set()
    nsites = 0
    for fid in sorted(R):
        s = pa.summary(fid)
        if s is None:
            continue
        body = prog.bodies[fid]
        for site in s.sites:
            nsites += 1
            key = site.key()
            at = body.loc(site.ln)
            if site.status == "discharged":
                rep.ob(rule, key, True, "%s `%s` discharged: %s" % (site.kind, site.desc, site.why or "dominating guards"), at)
                continue
            if site.status == "exported" and fid not in eids and fid not in cg.indirect_targets:
                rep.ob(rule, key, True, "%s `%s` is a precondition over the parameters, discharged at each call site" % (site.kind, site.desc), at)
                continue
            why = reviewed.get(key)
            if why is not None:
                used.add(key)
                rep.exempt(rep.pid + " | " + rule + " | " + key, why)
                rep.ob(rule, key, True, "%s `%s` reviewed: %s" % (site.kind, site.desc, why), at)
                continue
            kind = "API precondition of an entry point / indirectly called function" if site.status == "exported" else "not implied by any dominating guard"
            rep.ob(rule, key, False, "possible panic: %s `%s` in %s: %s" % (site.kind, site.desc, fid, kind), at)
    stale = sorted(set(reviewed) - used)
    rep.extra.setdefault("stale_table_lines", {})[rule] = stale
    rep.extra.setdefault("reachable_bodies", {})[rule] = len(R)
    rep.extra.setdefault("entry_points", {})[rule] = eids
    rep.extra.setdefault("panic_stats", {})[rule] = dict(pa.stats)
    return R, pa


def loops(ctx, rep, rule, R, reviewed, finite_iters=()):
    """A1: every CFG cycle of every reachable body is driven by a finite iterator (leaves on the
    `None` of an `Iterator::next` of a std / arrayvec / reviewed workspace iterator) or is a
    reviewed table line with its variant."""
    prog = ctx.prog
    n = 0
    used = set()
    for fid in sorted(R):
        body = prog.bodies[fid]
        comps = body.sccs()
        if not comps:
            continue
        ir = None
        for ci, comp in enumerate(sorted(comps, key=lambda c: c[0])):
            n += 1
            cs = set(comp)
            key = "%s | loop | %d" % (fid, ci)
            ln = body.blocks[comp[0]]["term"].get("ln")
            at = body.loc(ln)
            ok = False
            why = ""
            for bi in comp:
                t = body.blocks[bi]["term"]
                if t["k"] != "call":
                    continue
                f = t.get("callee") or ""
                raw = t.get("rf") or t.get("f") or ""
                std_impl = (f.startswith("std::") and (f.endswith("::next") or f.endswith("::next_back"))
                            and f != "std::iter::Iterator::next")
                if not (f.endswith("as std::iter::Iterator>::next") or f == "std::iter::Iterator::next"
                        or f.endswith("as std::iter::DoubleEndedIterator>::next_back") or std_impl):
                    continue
                if any(x in raw for x in ("RangeFrom", "Repeat", "Cycle", "FromFn", "Successors")):
                    continue
                # the result must be tested and the None edge must leave the component
                if ir is None:
                    ir = IR(body)
                if not _none_edge_leaves(body, ir, bi, t, cs):
                    continue
                self_ty = f[1:].split(" as ")[0] if f.startswith("<") else ""
                if self_ty.startswith("&mut "):
                    self_ty = self_ty[5:]
                if std_impl:
                    ok = True
                    why = "driven by %s, leaves on None" % raw
                    break
                if any(self_ty.startswith(p) for p in STD_FINITE_ITERS) or any(self_ty.startswith(p) for p in finite_iters):
                    ok = True
                    why = "driven by %s::next, leaves on None" % self_ty
                    break
                if f == "std::iter::Iterator::next":
                    # generic iterator supplied by the caller: its finiteness is the caller's
                    ok = True
                    why = "driven by a caller-supplied iterator, leaves on None"
                    break
            if ok:
                rep.ob(rule, key, True, "cycle " + why, at)
                continue
            r = reviewed.get(key)
            if r is not None:
                used.add(key)
                rep.exempt(rep.pid + " | " + rule + " | " + key, r)
                rep.ob(rule, key, True, "cycle reviewed: " + r, at)
            else:
                rep.ob(rule, key, False, "cycle without a recognised progress argument in %s (blocks %s)" % (fid, comp[:6]), at)
    rep.extra.setdefault("loops_examined", {})[rule] = n
    rep.extra.setdefault("stale_table_lines", {})[rule + ":loops"] = sorted(set(reviewed) - used)
    return n


def _none_edge_leaves(body, ir, bi, t, cs):
    """the Option returned by the call in block bi is switched on, and the None edge exits cs"""
    d = t["dest"]
    if d.get("pr"):
        return False
    l = d["l"]
    tgt = t.get("t")
    seen = set()
    work = [tgt]
    steps = 0
    while work and steps < 12:
        b = work.pop()
        steps += 1
        if b is None or b in seen:
            continue
        seen.add(b)
        blk = body.blocks[b]
        tt = blk["term"]
        if tt["k"] == "switch":
            e = ir.term_operand(b, tt["o"])
            if e[0] == "discr":
                base = e[1]
                while base[0] in ("deref", "ref"):
                    base = base[1] if base[0] == "deref" else base[2]
                if (base[0] == "call" and base[3] == (body.id, bi)) or (base[0] == "var" and base[1] == l):
                    # None is discriminant 0
                    none_t = None
                    for v, tb in tt["targets"]:
                        if v == 0:
                            none_t = tb
                    if none_t is None:
                        none_t = tt["otherwise"]
                    # the None target must not be able to come back without leaving: it is outside cs
                    return none_t not in cs
            return False
        if tt["k"] == "goto":
            work.append(tt["t"])
        elif tt["k"] in ("drop",):
            work.append(tt["t"])
    return False
