"""Rule helpers shared by the per-property modules."""
from ..facts import AnchorLost, path_matches
from ..panics import PanicAnalysis
from ..ir import IR, show


def resolve_entries(prog, patterns):
    """patterns: body-id suffixes; each must resolve to at least one body (fail closed)"""
    out = []
    for pat in patterns:
        r = prog.find(pat)
        if not r:
            raise AnchorLost("entry point `%s` not found" % pat)
        out.extend(b.id for b in r)
    return sorted(set(out))


# workspace iterators reviewed as finite (a loop driven by their `next` that leaves on None terminates)
REVIEWED_FINITE_ITERS = {
    "libtw2_net::protocol::ChunksIter": "every Some replaces self.data by a strictly shorter suffix (the chunk header is at least 2 bytes); "
                                        "an empty slice or a malformed chunk yields None (loops inside it: C06 R2)",
    "libtw2_net::protocol7::ChunksIter": "as in 0.6: every Some consumes at least the 2-byte chunk header of self.data",
}

STD_FINITE_ITERS = (
    "std::slice::iter::Iter", "std::slice::Iter", "std::slice::iter::IterMut", "std::slice::IterMut",
    "std::ops::Range", "std::ops::range::Range", "std::ops::RangeInclusive", "std::ops::range::RangeInclusive",
    "std::iter::Enumerate", "std::iter::adapters::enumerate::Enumerate", "std::iter::Map", "std::iter::adapters::map::Map",
    "std::iter::Zip", "std::iter::adapters::zip::Zip", "std::iter::Chain", "std::iter::adapters::chain::Chain",
    "std::iter::Cloned", "std::iter::adapters::cloned::Cloned", "std::iter::Copied", "std::iter::adapters::copied::Copied",
    "std::iter::Rev", "std::iter::adapters::rev::Rev", "std::iter::Take", "std::iter::adapters::take::Take",
    "std::iter::Skip", "std::iter::Filter", "std::iter::FilterMap", "std::iter::Peekable", "std::iter::StepBy",
    "std::iter::adapters", "std::iter::Once", "std::iter::sources::once::Once",
    "std::collections::vec_deque", "std::collections::btree_map", "std::collections::btree", "std::collections::hash",
    "std::collections::BTreeMap", "std::collections::HashMap", "std::vec::IntoIter", "std::vec::Drain",
    "std::vec::into_iter::IntoIter", "std::vec::drain::Drain", "std::str::Chars", "std::str::iter", "std::str::Bytes",
    "std::slice::Chunks", "std::slice::iter::Chunks", "std::slice::ChunksExact", "std::slice::Windows",
    "std::array::IntoIter", "std::array::iter::IntoIter", "std::option::IntoIter", "std::option::Iter",
    "arrayvec::", "linear_map::", "vec_map::", "itertools::", "std::iter::Fuse", "std::iter::Flatten", "std::iter::FlatMap",
    "std::char::", "std::iter::Scan", "std::iter::TakeWhile", "std::iter::SkipWhile", "std::iter::Inspect",
    "std::slice::Split", "std::slice::iter::Split", "std::str::Split", "std::str::Lines", "std::str::SplitN",
    "std::path::", "std::env::", "std::fs::ReadDir", "std::io::Lines", "std::io::Bytes",
)


MODELLED = ("libtw2_common::num::cast::",)


def totality(ctx, rep, rule, entries, reviewed, exempt_fns=(), trusted_fns=(), skip_fns=(), api_preconditions=()):
    """A3+A4: every panic site reachable from the entry points is discharged by its dominating
    guards (or, through exported preconditions, by the guards at every call site), or is a
    reviewed table line.  Returns the reachable set."""
    prog = ctx.prog
    cg = ctx.cg
    eids = resolve_entries(prog, entries)
    R = cg.reachable(eids)
    # the asserting casts of common::num::cast are modelled at their call sites (exact range
    # preconditions, sa/panics.py), not analysed as bodies
    skip_fns = tuple(skip_fns) + MODELLED
    R = set(f for f in R if not any(path_matches(f, s) or f.startswith(s) or s in f for s in skip_fns))
    pa = PanicAnalysis(prog, exempt_fns=exempt_fns, trusted_fns=trusted_fns)
    used = set()
    pending = []
    nsites = 0
    for fid in sorted(R):
        s = pa.summary(fid)
        if s is None:
            continue
        body = prog.bodies[fid]
        for site in s.sites:
            nsites += 1
            key = site.key()
            at = body.loc(site.ln)
            if site.status == "discharged":
                rep.ob(rule, key, True, "%s `%s` discharged: %s" % (site.kind, site.desc, site.why or "dominating guards"), at)
                continue
            if site.status == "exported" and fid not in eids and (fid not in cg.indirect_targets or fid in pa.closure_instantiated):
                rep.ob(rule, key, True, "%s `%s` is a precondition over the parameters, discharged at each call site" % (site.kind, site.desc), at)
                continue
            why = reviewed.get(key)
            if why is not None:
                used.add(key)
                rep.exempt(rep.pid + " | " + rule + " | " + key, why)
                rep.ob(rule, key, True, "%s `%s` reviewed: %s" % (site.kind, site.desc, why), at)
                if site.kind == "panic-call" and "assert" in site.detail:
                    _check_assert_inventory(prog, rep, rule, fid, site, key, at)
                continue
            pending.append((fid, site, key, at))
    # Sites whose exact key is not in the table.  Keys end in an ordinal among the sites of the same (function, kind,
    # operator); an edit that adds or removes one such site renumbers the ones after it.  A pending site is therefore also
    # accepted when the table holds an *unused* line of the same descriptor in the same function (in ordinal order): the
    # function still has no more undischarged sites of that kind than were reviewed.  Exact matches are consumed first, so a
    # site whose guard is broken (and that was never a table line) is still reported unless a reviewed site of the same
    # kind disappeared from the same function in the same edit.
    def descriptor(k):
        return k.rsplit(" | ", 1)[0]
    spare = {}
    for k in sorted(reviewed, key=lambda x: (descriptor(x), int(x.rsplit(" | ", 1)[1]) if x.rsplit(" | ", 1)[1].isdigit() else 0)):
        if k not in used:
            spare.setdefault(descriptor(k), []).append(k)
    def family(d):
        # code moved between a function and its closures keeps its reviewed line
        import re as _re
        return _re.sub(r"::\{closure#\d+\}", "", d)
    spare_fam = {}
    for d, ks in spare.items():
        spare_fam.setdefault(family(d), []).append(ks)
    for fid, site, key, at in pending:
        lst = spare.get(descriptor(key)) or []
        if not lst:
            for ks in spare_fam.get(family(descriptor(key)), []):
                if ks:
                    lst = ks
                    break
        if lst:
            k2 = lst.pop(0)
            used.add(k2)
            why = reviewed[k2]
            rep.exempt(rep.pid + " | " + rule + " | " + key, "matched to the reviewed line `%s` of the same function and kind (sites renumbered): %s" % (k2, why))
            rep.ob(rule, key, True, "%s `%s` reviewed (as `%s`): %s" % (site.kind, site.desc, k2.rsplit(" | ", 1)[1], why), at)
            continue
        kind = "API precondition of an entry point / indirectly called function" if site.status == "exported" else "not implied by any dominating guard"
        rep.ob(rule, key, False, "possible panic: %s `%s` in %s: %s" % (site.kind, site.desc, fid, kind), at)
    stale = sorted(set(reviewed) - used)
    rep.extra.setdefault("stale_table_lines", {})[rule] = stale
    rep.extra.setdefault("reachable_bodies", {})[rule] = len(R)
    rep.extra.setdefault("entry_points", {})[rule] = eids
    rep.extra.setdefault("panic_stats", {})[rule] = dict(pa.stats)
    return R, pa


def loops(ctx, rep, rule, R, reviewed, finite_iters=()):
    """A1: every CFG cycle of every reachable body is driven by a finite iterator (leaves on the
    `None` of an `Iterator::next` of a std / arrayvec / reviewed workspace iterator) or is a
    reviewed table line with its variant."""
    prog = ctx.prog
    n = 0
    used = set()
    for fid in sorted(R):
        body = prog.bodies[fid]
        comps = body.sccs()
        if not comps:
            continue
        ir = None
        for ci, comp in enumerate(sorted(comps, key=lambda c: c[0])):
            n += 1
            cs = set(comp)
            key = "%s | loop | %d" % (fid, ci)
            ln = body.blocks[comp[0]]["term"].get("ln")
            at = body.loc(ln)
            ok = False
            why = ""
            for bi in comp:
                t = body.blocks[bi]["term"]
                if t["k"] != "call":
                    continue
                f = t.get("callee") or ""
                raw = t.get("rf") or t.get("f") or ""
                std_impl = (f.startswith("std::") and (f.endswith("::next") or f.endswith("::next_back"))
                            and f != "std::iter::Iterator::next")
                if not (f.endswith("as std::iter::Iterator>::next") or f == "std::iter::Iterator::next"
                        or f.endswith("as std::iter::DoubleEndedIterator>::next_back") or std_impl):
                    continue
                if any(x in raw for x in ("RangeFrom", "Repeat", "Cycle", "FromFn", "Successors")):
                    continue
                # the result must be tested and the None edge must leave the component
                if ir is None:
                    ir = IR(body)
                if not _none_edge_leaves(body, ir, bi, t, cs):
                    continue
                if f in prog.bodies and finite_wrapper(prog, f):
                    ok = True
                    why = "driven by %s, a loop-free wrapper that yields None when its inner std iterator does" % f
                    break
                self_ty = f[1:].split(" as ")[0] if f.startswith("<") else ""
                if self_ty.startswith("&mut "):
                    self_ty = self_ty[5:]
                if std_impl:
                    ok = True
                    why = "driven by %s, leaves on None" % raw
                    break
                if any(self_ty.startswith(p) for p in REVIEWED_FINITE_ITERS):
                    ok = True
                    why = "driven by %s::next (reviewed: %s), leaves on None" % (self_ty, [r for p, r in REVIEWED_FINITE_ITERS.items() if self_ty.startswith(p)][0])
                    break
                if any(self_ty.startswith(p) for p in STD_FINITE_ITERS) or any(self_ty.startswith(p) for p in finite_iters):
                    ok = True
                    why = "driven by %s::next, leaves on None" % self_ty
                    break
                if f == "std::iter::Iterator::next":
                    # generic iterator supplied by the caller: its finiteness is the caller's
                    ok = True
                    why = "driven by a caller-supplied iterator, leaves on None"
                    break
            if not ok:
                cw = _consuming_reader_loop(prog, body, ir or IR(body), cs)
                if cw:
                    ok = True
                    why = cw
            if ok:
                rep.ob(rule, key, True, "cycle " + why, at)
                continue
            r = reviewed.get(key)
            if r is not None:
                used.add(key)
                rep.exempt(rep.pid + " | " + rule + " | " + key, r)
                rep.ob(rule, key, True, "cycle reviewed: " + r, at)
            else:
                rep.ob(rule, key, False, "cycle without a recognised progress argument in %s (blocks %s)" % (fid, comp[:6]), at)
    rep.extra.setdefault("loops_examined", {})[rule] = n
    rep.extra.setdefault("stale_table_lines", {})[rule + ":loops"] = sorted(set(reviewed) - used)
    return n


def _none_edge_leaves(body, ir, bi, t, cs):
    """the Option returned by the call in block bi is switched on, and the None edge exits cs"""
    d = t["dest"]
    if d.get("pr"):
        return False
    l = d["l"]
    tgt = t.get("t")
    seen = set()
    work = [tgt]
    steps = 0
    while work and steps < 12:
        b = work.pop()
        steps += 1
        if b is None or b in seen:
            continue
        seen.add(b)
        blk = body.blocks[b]
        tt = blk["term"]
        if tt["k"] == "switch":
            e = ir.term_operand(b, tt["o"])
            if e[0] == "discr":
                base = e[1]
                while base[0] in ("deref", "ref"):
                    base = base[1] if base[0] == "deref" else base[2]
                n_ = 0
                while base[0] == "call" and base[2] and n_ < 4 and base[1].rsplit("::", 1)[-1] in (
                        "copied", "cloned", "map", "as_ref", "as_mut") and "option::Option" in base[1]:
                    base = base[2][0]
                    n_ += 1
                    while base[0] in ("deref", "ref"):
                        base = base[1] if base[0] == "deref" else base[2]
                if (base[0] == "call" and base[3] == (body.id, bi)) or (base[0] == "var" and base[1] == l):
                    # None is discriminant 0
                    none_t = None
                    for v, tb in tt["targets"]:
                        if v == 0:
                            none_t = tb
                    if none_t is None:
                        none_t = tt["otherwise"]
                    # the None target must not be able to come back without leaving: it is outside cs
                    return none_t not in cs
            return False
        if tt["k"] == "goto":
            work.append(tt["t"])
        elif tt["k"] in ("drop",):
            work.append(tt["t"])
    return False


def standard_totality(ctx, rep, pid, tables, rule="R-no-panic", extra_reviewed=None, loop_reviewed=None,
                      exempt_fns=(), trusted_fns=(), skip_fns=(), do_loops=True, entries=None):
    from .entries import entries_for
    from . import tables as T
    reviewed = T.load(*tables)
    if extra_reviewed:
        reviewed.update(extra_reviewed)
    ents = entries if entries is not None else entries_for(ctx.prog, pid)
    if not ents:
        raise AnchorLost("no entry points resolved for " + pid)
    R, pa = totality(ctx, rep, rule, ents, reviewed, exempt_fns=exempt_fns, trusted_fns=trusted_fns, skip_fns=skip_fns)
    if do_loops:
        lr = T.loops(*tables)
        if loop_reviewed:
            lr.update(loop_reviewed)
        loops(ctx, rep, rule.replace("no-panic", "loops") if "no-panic" in rule else rule + "-loops", R, lr)
    return R, pa


_FW = {}


def _is_std_finite_next(t):
    f = t.get("callee") or ""
    raw = t.get("rf") or t.get("f") or ""
    if any(x in raw for x in ("RangeFrom", "Repeat", "Cycle", "FromFn", "Successors")):
        return False
    if f.startswith("std::") and (f.endswith("::next") or f.endswith("::next_back")) and f != "std::iter::Iterator::next":
        return True
    if f.endswith("as std::iter::Iterator>::next") or f.endswith("as std::iter::DoubleEndedIterator>::next_back"):
        self_ty = f[1:].split(" as ")[0]
        if self_ty.startswith("&mut "):
            self_ty = self_ty[5:]
        return any(self_ty.startswith(p) for p in STD_FINITE_ITERS)
    return False


def finite_wrapper(prog, fid, depth=0):
    """workspace `Iterator::next` that has no loop of its own and whose every Some result is
    produced from the Some of a finite inner iterator (so it ends when the inner one ends)"""
    if fid in _FW and _FW[fid][0] is prog:
        return _FW[fid][1]
    _FW[fid] = (prog, False)
    body = prog.bodies.get(fid)
    res = False
    if body is not None and not body.sccs() and depth < 3:
        ir = IR(body)
        inner = []
        for bi, t in body.calls():
            f = t.get("callee") or ""
            if _is_std_finite_next(t) or (f in prog.bodies and f != fid and f.rsplit("::", 1)[-1] in ("next", "next_back")
                                          and finite_wrapper(prog, f, depth + 1)):
                inner.append(bi)
        if inner:
            # the returned Option is `inner.map(..)`-like, or every Some aggregate is dominated by inner's Some edge
            ok = True
            some_sites = []
            for bi in sorted(body.live):
                for si, st in enumerate(body.blocks[bi]["st"]):
                    if st["k"] == "assign" and st["p"]["l"] == 0 and not st["p"].get("pr"):
                        r = st["r"]
                        if r["k"] == "agg" and r.get("variant") == "Some":
                            some_sites.append(bi)
                        elif r["k"] == "agg" and r.get("variant") == "None":
                            pass
                        else:
                            ok = False
                t = body.blocks[bi]["term"]
                if t["k"] == "call" and t["dest"]["l"] == 0 and not t["dest"].get("pr"):
                    e = ir.call_expr(bi, t)
                    n_ = 0
                    while e[0] == "call" and e[2] and n_ < 5 and e[1].rsplit("::", 1)[-1] in ("map", "copied", "cloned", "and_then", "filter"):
                        e = e[2][0]
                        n_ += 1
                    if not (e[0] == "call" and isinstance(e[3], tuple) and e[3][0] == body.id and e[3][1] in inner):
                        ok = False
            for sb in some_sites:
                dom = False
                for e, rel, v, edge, dty in ir.edge_conditions(sb):
                    if e[0] == "discr":
                        base = e[1]
                        while base[0] in ("deref", "ref"):
                            base = base[1] if base[0] == "deref" else base[2]
                        if base[0] == "call" and isinstance(base[3], tuple) and base[3][1] in inner and (
                                (rel == "==" and v == 1) or (rel == "notin" and 0 in v)):
                            dom = True
                if not dom:
                    ok = False
            res = ok
    _FW[fid] = (prog, res)
    return res


# functions that consume at least one unit of a finite input on success and fail once it is exhausted
CONSUMERS = (
    "libtw2_packer::Unpacker::read_int", "libtw2_packer::Unpacker::read_string", "libtw2_packer::Unpacker::read_data",
    "libtw2_packer::IntUnpacker::read_int", "libtw2_snapshot::snap::read_int_err",
    "libtw2_snapshot::read_int::ReadInt::read_int", "libtw2_net::protocol::ChunksIter::next_warn",
    "libtw2_net::protocol7::ChunksIter::next_warn",
)


def _consuming_reader_loop(prog, body, ir, cs):
    """every cycle of the component passes a call to a consuming reader whose result is tested by
    a branch that can leave the component (the failure / None arm)"""
    cons = []
    for bi in cs:
        t = body.blocks[bi]["term"]
        if t["k"] == "call":
            f = t.get("callee") or ""
            if any(f == c or f.endswith(" as " + c.rsplit("::", 1)[0] + ">::" + c.rsplit("::", 1)[1]) for c in CONSUMERS) or \
               any(f == c for c in CONSUMERS):
                cons.append(bi)
    if not cons:
        return None
    # removing the consumer blocks must break every cycle
    rest = cs - set(cons)
    # DFS cycle detection on the induced subgraph
    color = {}

    def dfs(v):
        color[v] = 1
        for w in body.succ[v]:
            if w not in rest:
                continue
            if color.get(w) == 1:
                return True
            if color.get(w) is None and dfs(w):
                return True
        color[v] = 2
        return False

    import sys
    sys.setrecursionlimit(10000)
    for v in rest:
        if color.get(v) is None and dfs(v):
            return None
    # each consumer's result is tested with an exit
    for bi in cons:
        t = body.blocks[bi]["term"]
        seen = set()
        work = [t.get("t")]
        leaves = False
        steps = 0
        while work and steps < 30:
            b = work.pop()
            steps += 1
            if b is None or b in seen:
                continue
            seen.add(b)
            tt = body.blocks[b]["term"]
            if tt["k"] == "switch":
                if any(s not in cs for s in body.succ[b]):
                    leaves = True
                    break
                continue
            for s in body.succ[b]:
                work.append(s)
        if not leaves:
            return None
    names = sorted(set((body.blocks[b]["term"].get("callee") or "").rsplit("::", 2)[-2] + "::" +
                       (body.blocks[b]["term"].get("callee") or "").rsplit("::", 1)[-1] for b in cons))
    return "consumes its finite input: every cycle passes %s, whose failure arm leaves the loop" % ", ".join(names)


# ------------------------------------------------------------------------------------------------------------
# reuse discipline: an object that is refilled must not keep anything from its previous contents
def reset_complete(prog, rep, rule, fn_id, adt_path):
    """`fn_id` (a clear/reset method taking &mut self) clears or overwrites every field of `adt_path`"""
    from ..ir import IR
    from ..effects import effects
    b = prog.one(fn_id)
    ir = IR(b)
    a = prog.adt(adt_path)
    fields = [f["n"] for f in a["variants"][0]["fields"]]
    touched = set()
    for e in effects(b, ir, write_roots=[("a", 0)]):
        if e.kind in ("write", "mutcall"):
            for f in fields:
                if ("." + f) in e.desc:
                    touched.add(f)
    missing = [f for f in fields if f not in touched]
    rep.ob(rule, "%s resets every field" % fn_id.split("::", 1)[1], not missing,
           "fields %s are all cleared" % fields if not missing else
           "field(s) %s of %s survive %s: a reused object keeps part of its previous contents" % (missing, adt_path.split("::")[-1], fn_id.split("::")[-1]), b.loc())


def cleared_before_fill(prog, rep, rule, prefix, clear_fns, floor):
    """every function under `prefix` that calls one of clear_fns on *self does so before any other write to *self"""
    from ..ir import IR, show, strip_sites
    from ..effects import effects
    n = 0
    for b in sorted(prog.bodies.values(), key=lambda x: x.id):
        if b.is_test or not b.id.startswith(prefix) or b.id in clear_fns:
            continue
        cl = []
        ir = None
        for bi, t in b.calls():
            if (t.get("callee") or "") in clear_fns:
                ir = ir or IR(b)
                recv = show(strip_sites(ir.term_operand(bi, t["args"][0])))
                if recv in ("&mut *self", "&mut self", "self"):
                    cl.append(bi)
        if not cl:
            continue
        n += 1
        early = []
        for e in effects(b, ir, write_roots=[("a", 0)]):
            if e.kind in ("write", "mutcall") and e.bb not in cl and not any(b.dominates(c, e.bb) for c in cl):
                early.append(e.desc)
        rep.ob(rule, "%s clears first" % b.id.split("::", 1)[1], not early,
               "self.clear() precedes every other write to *self" if not early else
               "`%s` is written before (or without) the object being cleared" % early[0], b.loc())
    rep.floor(rule, n, floor, "functions under %s that refill *self after clear()" % prefix)


# ------------------------------------------------------------------------------------------------------------
# exact clause tables for validators: the relation under which a validator refuses its input
from ..ir import IR as _IR, show as _show, strip_sites as _strip_sites
from ..effects import strip_not as _strip_not

FLIP = {"Lt": "Gt", "Le": "Ge", "Gt": "Lt", "Ge": "Le", "Eq": "Eq", "Ne": "Ne"}
NEGATE = {"Lt": "Ge", "Le": "Gt", "Gt": "Le", "Ge": "Lt", "Eq": "Ne", "Ne": "Eq"}
SYM = {"Lt": "<", "Le": "<=", "Gt": ">", "Ge": ">=", "Eq": "==", "Ne": "!="}


def _is0(e):
    return e[0] == "c" and e[1] == 0


def _txt(e):
    return _show(_strip_sites(e))


def refusal_relations(body, ir, ok_variant="Ok"):
    """[(A, op, B, line)]: the input is refused when `A op B`"""
    oks = [bi for bi in sorted(body.live) for st in body.blocks[bi]["st"]
           if st["k"] == "assign" and st["p"]["l"] == 0 and not st["p"].get("pr") and st["r"]["k"] == "agg" and st["r"].get("variant") == ok_variant]
    out = []
    for bi in sorted(body.live):
        t = body.blocks[bi]["term"]
        if t["k"] != "switch":
            continue
        e, neg = _strip_not(ir.term_operand(bi, t["o"]))
        if e[0] == "call" and len(e[2]) == 2 and e[1].split("::")[-1] in ("eq", "ne", "lt", "le", "gt", "ge") and \
                ("PartialEq" in e[1] or "PartialOrd" in e[1] or "cmp::" in e[1] or "equality::" in e[1]):
            opn = {"eq": "Eq", "ne": "Ne", "lt": "Lt", "le": "Le", "gt": "Gt", "ge": "Ge"}[e[1].split("::")[-1]]
            a_, b_ = e[2]
            while a_[0] in ("ref", "deref"):
                a_ = a_[2] if a_[0] == "ref" else a_[1]
            while b_[0] in ("ref", "deref"):
                b_ = b_[2] if b_[0] == "ref" else b_[1]
            e = ("bin", opn, a_, b_)
        if e[0] != "bin" or e[1] not in NEGATE:
            continue
        # which raw value of the switch operand leads to a refusal (Ok(()) unreachable)?
        raw_refuse = None
        listed = set()
        for v, tb in t["targets"]:
            listed.add(bool(v))
            if not any(o in body.reachable_from(tb) for o in oks):
                raw_refuse = bool(v)
        if raw_refuse is None and len(listed) == 1 and not any(o in body.reachable_from(t["otherwise"]) for o in oks):
            raw_refuse = not next(iter(listed))
        if raw_refuse is None:
            continue
        holds = raw_refuse if not neg else (not raw_refuse)
        op = e[1] if holds else NEGATE[e[1]]
        out.append((e[2], op, e[3], t.get("ln")))
    return out


def _orient(a, op, b, left_pred):
    """put the operand satisfying left_pred on the left"""
    if left_pred(a):
        return a, op, b
    if left_pred(b):
        return b, FLIP[op], a
    return None




def exact_clauses(rep, rule, who, body, ir, table, floor=1, ok_variant="Ok"):
    """`table`: [(clause text, left-operand predicate, right-operand predicate, refusing operator, count)].  Every clause must be
    present among the comparisons on which `body` refuses (the side of the branch from which the Ok value is unreachable),
    with exactly that operator after normalisation; a comparison of the right shape that refuses on another operator is named."""
    rels = refusal_relations(body, ir, ok_variant)
    rep.floor(rule, len(rels), floor, "comparisons on which %s refuses its input" % who)
    for name, lp, rp, want, count in table:
        found = []
        wrong = []
        for idx, (a, op, b_, ln) in enumerate(rels):
            o = _orient(a, op, b_, lp)
            if o is None or not rp(o[2]):
                continue
            if o[1] == want:
                found.append((idx, ln))
            else:
                wrong.append((idx, o[1], ln))
        claimed_elsewhere = set()
        for name2, lp2, rp2, want2, c2 in table:
            if name2 == name:
                continue
            for idx, (a, op, b_, ln) in enumerate(rels):
                o = _orient(a, op, b_, lp2)
                if o is not None and rp2(o[2]) and o[1] == want2:
                    claimed_elsewhere.add(idx)
        wrong = [w for w in wrong if w[0] not in claimed_elsewhere]
        ok = len(found) >= count
        rep.ob(rule, "%s | refuses when %s" % (who, name), ok,
               "clause present %d time(s) with the refusing relation `%s`" % (len(found), SYM[want]) if ok else
               "%s must refuse its input when %s; found %d such comparison(s) (need %d)%s" % (
                   who, name, len(found), count,
                   "; a comparison of that shape refuses on `%s` instead" % SYM[wrong[0][1]] if wrong else ""),
               body.loc(found[0][1]) if found else (body.loc(wrong[0][2]) if wrong else body.loc()))
    return rels


# ------------------------------------------------------------------------------------------------------------
# relations that hold at a block (exact operators), for role-based exactness rules
_CALL_CMP = {"eq": "Eq", "ne": "Ne", "lt": "Lt", "le": "Le", "gt": "Gt", "ge": "Ge"}


def _peel_refs(e):
    while isinstance(e, tuple) and e and e[0] in ("ref", "deref", "unsize"):
        e = e[2] if e[0] == "ref" else e[1]
    return e


def relation_of(e, truth):
    """normalise one branch condition to (A, op, B) or ('bool', expr, truth)"""
    neg = False
    while e[0] == "un" and e[1] == "Not":
        e, neg = e[2], not neg
    t = truth != neg
    if e[0] == "bin" and e[1] in NEGATE:
        return (e[2], e[1] if t else NEGATE[e[1]], e[3])
    if e[0] == "call" and len(e[2]) == 2:
        last = e[1].split("::")[-1]
        if last in _CALL_CMP and ("PartialEq" in e[1] or "PartialOrd" in e[1] or "cmp::" in e[1] or "equality::" in e[1]):
            op = _CALL_CMP[last]
            return (_peel_refs(e[2][0]), op if t else NEGATE[op], _peel_refs(e[2][1]))
    return ("bool", e, t)


def holds_at(ir, bb):
    """[(A, op, B) | ('bool', e, truth)]: every branch condition on the dominating edges of block bb, operators exact"""
    out = []
    for c, rel, v, edge, dty in ir.edge_conditions(bb):
        t = None
        if rel == "==" and v in (0, 1):
            t = bool(v)
        elif rel == "notin" and len(v) == 1 and v[0] in (0, 1):
            t = not bool(v[0])
        if t is None:
            continue
        out.append(relation_of(c, t))
    return out


def has_relation(rels, a_pred, op, b_pred):
    """is `A op B` (either orientation, operator flipped accordingly) among the relations?"""
    for r in rels:
        if r[0] == "bool":
            continue
        a, o, b = r
        if o == op and a_pred(a) and b_pred(b):
            return True
        if FLIP[o] == op and a_pred(b) and b_pred(a):
            return True
    return False


def asserted_relations(body, ir):
    """[(relation, line)]: what each assert!/panic! site of `body` demands -- the negation of the closest condition leading to it"""
    out = []
    for bi, t in body.calls():
        if "panicking::" not in (t.get("callee") or ""):
            continue
        conds = ir.edge_conditions(bi)
        if not conds:
            continue
        c, rel, v, edge, dty = conds[0]
        tr = None
        if rel == "==" and v in (0, 1):
            tr = bool(v)
        elif rel == "notin" and len(v) == 1 and v[0] in (0, 1):
            tr = not bool(v[0])
        if tr is None:
            continue
        out.append((relation_of(c, not tr), t.get("ln")))
    return out


def rel_text(r):
    if r[0] == "bool":
        return "%s is %s" % (_txt(r[1])[:70], r[2])
    return "%s %s %s" % (_txt(r[0])[:70], SYM[r[1]], _txt(r[2])[:70])


def want_relations(rep, rule, key, rels, wants, at, what):
    """wants: [(a-substring, op, b-substring-or-int)]; every one must be among `rels` (orientation-insensitive)"""
    missing = []
    for a_sub, op, b_want in wants:
        def ap(x, a_sub=a_sub):
            return a_sub in _txt(x)
        def bp(x, b_want=b_want):
            if isinstance(b_want, int):
                return x[0] == "c" and x[1] == b_want
            return b_want in _txt(x)
        if op == "bool":
            ok = any(r[0] == "bool" and a_sub in _txt(r[1]) and r[2] == b_want for r in rels)
        else:
            ok = has_relation(rels, ap, op, bp)
        if not ok:
            missing.append("%s %s %s" % (a_sub, SYM.get(op, "is"), b_want))
    rep.ob(rule, key, not missing, "%s: %s" % (what, "; ".join(rel_text(r) for r in rels[:4])) if not missing else
           "%s must hold under `%s`, found: %s" % (what, "`, `".join(missing), "; ".join(rel_text(r) for r in rels[:5]) or "nothing"), at)
    return not missing


def disjunct_relations(body, ir, bb):
    """for a block reached through `a || b || ..` (a join): the relation on each incoming branch edge"""
    j = bb
    for _ in range(6):
        ps = body.pred[j]
        if len(ps) != 1 or body.blocks[ps[0]]["term"]["k"] == "switch":
            break
        j = ps[0]
    out = []
    for p_ in body.pred[j]:
        child = j
        cur = p_
        # walk back through straight-line blocks to the deciding switch
        for _ in range(6):
            t = body.blocks[cur]["term"]
            if t["k"] == "switch" or len(body.pred[cur]) != 1:
                break
            child, cur = cur, body.pred[cur][0]
        t = body.blocks[cur]["term"]
        if t["k"] != "switch":
            continue
        raw = None
        listed = set()
        for v, tb in t["targets"]:
            listed.add(bool(v))
            if tb == child:
                raw = bool(v)
        if raw is None and t["otherwise"] == child and len(listed) == 1:
            raw = not next(iter(listed))
        if raw is None:
            continue
        out.append(relation_of(ir.term_operand(cur, t["o"]), raw))
    return out


# ------------------------------------------------------------------------------------------------------------
# reviewed assert! sites: the asserted relation is frozen; strengthening it is a new way to panic
def _shape(e, depth=0):
    """rendering without local names: constants by name/value, fields, callee names, places as `_`"""
    if not isinstance(e, tuple) or not e or depth > 7:
        return "_"
    k = e[0]
    if k == "c":
        nm = e[3] if len(e) > 3 and e[3] else None
        return (nm.split("::")[-1] if nm else str(e[1]))
    if k == "arg":
        return "a%d" % e[1]
    if k == "var":
        return "_"
    if k in ("ref", "deref", "unsize", "cast", "unwrapped"):
        inner = e[2] if k == "ref" else (e[3] if k == "cast" else e[1])
        return _shape(inner, depth)
    if k == "field":
        return _shape(e[1], depth + 1) + "." + str(e[2])
    if k == "len":
        return "len(" + _shape(e[1], depth + 1) + ")"
    if k == "bin":
        a_, b_ = _shape(e[2], depth + 1), _shape(e[3], depth + 1)
        # arithmetic over locals and literals only: a named temporary more or less must not change the shape
        plain = lambda s_: s_ == "_" or s_.lstrip("-").isdigit() or s_ in ("size_of()", "align_of()")
        if plain(a_) and plain(b_) and (a_ == "_" or b_ == "_"):
            return "_"
        return "%s(%s,%s)" % (e[1], a_, b_)
    if k == "un":
        return "%s(%s)" % (e[1], _shape(e[2], depth + 1))
    if k == "call":
        if e[1].split("::")[-1] in ("size_of", "align_of"):
            return e[1].split("::")[-1] + "()"
        return e[1].split("::")[-1] + "(" + ",".join(_shape(a, depth + 1) for a in e[2]) + ")"
    if k in ("index", "cindex"):
        return _shape(e[1], depth + 1) + "[]"
    if k == "variant":
        return _shape(e[1], depth + 1) + " as " + str(e[2])
    if k == "discr":
        return "discr(" + _shape(e[1], depth + 1) + ")"
    return k


def assert_shape(rel):
    """canonical text of an asserted relation: operands ordered, operator flipped accordingly"""
    if rel[0] == "bool":
        return "%s is %s" % (_shape(rel[1]), rel[2])
    a, op, b = _shape(rel[0]), rel[1], _shape(rel[2])
    if b < a:
        a, b, op = b, a, FLIP[op]
    return "%s %s %s" % (a, SYM[op], b)


_WEAKER = {("Lt", "Le"), ("Lt", "Ne"), ("Gt", "Ge"), ("Gt", "Ne"), ("Eq", "Le"), ("Eq", "Ge")}


def relation_strengthened(old, new):
    """old/new: canonical texts `A op B` with the same operands; True when `new` is not implied by `old`"""
    if old == new:
        return False
    import re as _re
    m1 = _re.match(r"^(.*) (<=|>=|==|!=|<|>) (.*)$", old)
    m2 = _re.match(r"^(.*) (<=|>=|==|!=|<|>) (.*)$", new)
    if not m1 or not m2 or (m1.group(1), m1.group(3)) != (m2.group(1), m2.group(3)):
        return None         # different operands: cannot compare
    inv = {v: k for k, v in SYM.items()}
    o, n = inv[m1.group(2)], inv[m2.group(2)]
    return (o, n) not in _WEAKER


_ASSERT_IR = {}


def current_assert_relation(prog, fid, site):
    body = prog.bodies[fid]
    ir = _ASSERT_IR.get(fid)
    if ir is None:
        ir = _IR(body)
        _ASSERT_IR[fid] = ir
    conds = ir.edge_conditions(site.bb)
    if not conds:
        return None
    c, rel, v, edge, dty = conds[0]
    tr = None
    if rel == "==" and v in (0, 1):
        tr = bool(v)
    elif rel == "notin" and len(v) == 1 and v[0] in (0, 1):
        tr = not bool(v[0])
    if tr is None:
        return None
    return assert_shape(relation_of(c, not tr))


def _check_assert_inventory(prog, rep, rule, fid, site, key, at):
    """a reviewed assert! was reviewed with a particular relation; the table line does not cover a stronger one"""
    from .tables import asserts as _asserts
    want = _asserts.RELATIONS.get(key)
    if want is None:
        return
    cur = current_assert_relation(prog, fid, site)
    if cur is None or cur == want:
        return
    st = relation_strengthened(want, cur)
    if st is False or st is None:
        return          # weakened (fewer panics), or rewritten over other operands (not comparable): nothing to report here
    rep.ob(rule, key + " | asserted relation", False,
           "the reviewed assert demanded `%s`; it now demands `%s`%s: the review does not cover the stronger condition (a value on the old boundary now panics)"
           % (want, cur, "" if st else " (different operands)"), at)


# ------------------------------------------------------------------------------------------------------------
# refusal-relation inventory for the parsing / validating crates that have no tests of their own
REFUSAL_SCOPE = ("libtw2_datafile::", "libtw2_map::reader::", "libtw2_map::format::", "libtw2_demo::", "libtw2_zlib_minimal::",
                 "libtw2_snapshot::format::", "libtw2_teehistorian::format::", "libtw2_packer::")


def _success_variants(body):
    sig = body.raw.get("sig") or ""
    ret = sig.rsplit("->", 1)[-1] if "->" in sig else ""
    if "Result<" in ret:
        return ("Ok",)
    if "Option<" in ret:
        return ("Some",)
    return ()


def refusal_shapes(body, ir):
    """sorted canonical texts of the relations under which `body` fails (its success variant becomes unreachable)"""
    out = []
    for var in _success_variants(body):
        for a, op, b_, ln in refusal_relations(body, ir, var):
            sh = assert_shape((a, op, b_))
            if "max_level" in sh or "max_log_level" in sh:
                continue        # the level test inside the log macros
            out.append(sh)
    return sorted(out)


def check_refusal_inventory(prog, rep, rule, prefixes):
    """the functions under `prefixes` fail under the same comparisons as on the reviewed tree: a relation whose operands are
    still compared but with another operator is a changed acceptance condition; a relation that vanished is a dropped (or
    rewritten: then re-review and regenerate) clause.  New clauses are not reported."""
    import re as _re
    from .tables import refusals as _ref
    n = 0
    for fid, frozen in sorted(_ref.REFUSALS.items()):
        if not any(fid.startswith(p) or fid.startswith("<" + p) for p in prefixes):
            continue
        b = prog.bodies.get(fid)
        if b is None:
            rep.ob(rule, "%s | present" % fid, False, "function `%s` with %d reviewed refusal clauses no longer exists" % (fid, len(frozen)))
            continue
        cur = refusal_shapes(b, _IR(b))
        n += 1
        if cur == frozen:
            rep.ob(rule, fid, True, "%d refusal relation(s) as reviewed" % len(frozen), b.loc(), nontrivial=bool(frozen))
            continue
        curset = list(cur)
        problems = []
        for f in frozen:
            if f in curset:
                curset.remove(f)
                continue
            m = _re.match(r"^(.*) (<=|>=|==|!=|<|>) (.*)$", f)
            same = None
            if m:
                for c_ in curset:
                    m2 = _re.match(r"^(.*) (<=|>=|==|!=|<|>) (.*)$", c_)
                    if m2 and (m2.group(1), m2.group(3)) == (m.group(1), m.group(3)):
                        same = c_
                        break
            if same is not None:
                curset.remove(same)
                problems.append("refuses when `%s` instead of `%s`" % (same, f))
            else:
                problems.append("the clause `%s` is gone" % f)
        # A clause that vanished while a relation of another shape appeared was most likely *rewritten* (named temporaries, a
        # combinator chain turned into a match, operands the normaliser renders differently): the two cannot be compared, and
        # the rules of the property that are tied to this function decide it.  Reported are: an operator changed on the same
        # operands, and a clause that is gone with nothing new in its place (a dropped check).
        gone = [p_ for p_ in problems if p_.startswith("the clause")]
        flipped = [p_ for p_ in problems if not p_.startswith("the clause")]
        if gone and len(curset) >= len(gone) and not flipped:
            rep.ob(rule, fid, True, "%d clause(s) rewritten into another shape (%d new relation(s)): not comparable, left to the property's own rules"
                   % (len(gone), len(curset)), b.loc(), nontrivial=False)
            continue
        rep.ob(rule, fid, not problems, "refusal relations as reviewed (plus %d new)" % len(curset) if not problems else
               "; ".join(problems)[:400], b.loc())
    rep.floor(rule, n, 1, "functions with reviewed refusal relations under %s" % (prefixes,))
