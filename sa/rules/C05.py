"""C05 -- packet encoding and decoding are mutually inverse (header clause + table/ordering clauses)."""
from ..facts import AnchorLost, path_matches
from ..ir import IR, show, walk, strip_sites
from ..bits import BitEval, Unsupported, flatten, bit_str, sources_in, T
from ..effects import strip_not

LEVEL = "other"
EXPLANATION = (
    "R1 (header bijection, decided exhaustively in the bit domain): for PacketHeader, ChunkHeader, ChunkHeaderVital "
    "(0.6 and 0.7) and PacketHeaderConnless (0.7) the pack and unpack functions are evaluated over symbolic bits "
    "(known-bits lattice with provenance; callees inlined): unpack(pack(f)) = f for all field values within the "
    "ranges asserted by pack, i.e. every output bit of unpack∘pack is the same input bit (or the asserted 0); "
    "pack(unpack(b)) = b on every byte pattern except in the bits that pack drops or merges, and that set of bits "
    "equals the set of bits tested by the warning conditions of unpack_warn (the reader warns exactly on the "
    "non-canonical patterns), modulo listed exemptions.  R2: the variant->CTRLMSG_* map of ControlPacket::write and "
    "the constant->variant map of Packet::read_impl are inverse bijections.  R3: in write_impl the input of the "
    "Huffman compressor is the token-extended buffer and the compression flag is set on the same condition that "
    "selects the compressed payload; in read_impl the token is split off the decompressor's output.  Not decided: "
    "whole-packet round trips through the Huffman bit stream (value level)."
)
EXPLANATION += ('  Round 4: warning-tested bits are taken from the outermost bit expression of each condition; the resend-flag pair is recognised in closure and in match form.')
ASSUMPTIONS = ["the functions analysed are straight-line apart from assert!/warn diamonds (checked: otherwise the rule fails closed)"]

# (module, unpacked type, packed type)
PAIRS = [
    ("libtw2_net::protocol", "PacketHeader", "PacketHeaderPacked"),
    ("libtw2_net::protocol", "ChunkHeader", "ChunkHeaderPacked"),
    ("libtw2_net::protocol", "ChunkHeaderVital", "ChunkHeaderVitalPacked"),
    ("libtw2_net::protocol7", "PacketHeader", "PacketHeaderPacked"),
    ("libtw2_net::protocol7", "PacketHeaderConnless", "PacketHeaderConnlessPacked"),
    ("libtw2_net::protocol7", "ChunkHeader", "ChunkHeaderPacked"),
    ("libtw2_net::protocol7", "ChunkHeaderVital", "ChunkHeaderVitalPacked"),
]

# bits tested by a warning although pack does not drop them (reviewed, one line each)
WARN_EXEMPT = {
    ("libtw2_net::protocol", "PacketHeaderPacked"): {
        ("flags_padding_ack", 5): "the padding warning is suppressed for connectionless packets (PACKETFLAG_CONNLESS bit), whose header bytes are all 0xff",
    },
}


def run(ctx, rep):
    prog = ctx.prog
    for mod, up, pk in PAIRS:
        header_pair(prog, rep, mod, up, pk)
    control_tables(prog, rep, "libtw2_net::protocol")
    control_tables(prog, rep, "libtw2_net::protocol7")
    ordering(prog, rep, "libtw2_net::protocol")
    ordering(prog, rep, "libtw2_net::protocol7")
    reader_size_limit(prog, rep, "R4-reader-size-limit", "libtw2_net::protocol")
    reader_size_limit(prog, rep, "R4-reader-size-limit", "libtw2_net::protocol7")
    datagram_limit(prog, rep, "R4-reader-size-limit", "libtw2_net::protocol")
    datagram_limit(prog, rep, "R4-reader-size-limit", "libtw2_net::protocol7")
    close_reason_clamp(prog, rep)
    chunk_resend_flag(prog, rep)


def header_pair(prog, rep, mod, up, pk):
    rule = "R1-header-bijection"
    tag = "%s::%s" % (mod.split("::")[-1], up)
    pack_id = "%s::%s::pack" % (mod, up)
    unpack_id = "%s::%s::unpack_warn" % (mod, pk)
    if pack_id not in prog.bodies or unpack_id not in prog.bodies:
        raise AnchorLost("pack/unpack pair %s / %s not found" % (pack_id, unpack_id))
    try:
        # ---- unpack(pack(f)) == f
        ev = BitEval(prog)
        f = ev.symbolic("%s::%s" % (mod, up), "f")
        pe, _ = ev.ret_expr(pack_id)
        zeros = _range_facts_deep(ev, pack_id, {0: f})
        ev.zero = zeros
        f = ev.apply_zero(f)       # in-range fields: the bits pack asserts to be zero are zero
        p = ev.eval(pe, {0: f}, ev.ir(pack_id))
        ue, _ = ev.ret_expr(unpack_id)
        u = ev.eval(ue, {0: p}, ev.ir(unpack_id))
        ff = flatten(f)
        uf = flatten(u)
        bad = []
        for key, bit in sorted(ff.items()):
            got = uf.get(key)
            if got != bit:
                bad.append("%s[%d]: %s -> %s" % (key[0], key[1], bit_str(bit), bit_str(got) if got is not None else "missing"))
        nbits = len(ff)
        rep.ob(rule, "%s | unpack(pack(f)) == f" % tag, not bad,
               "all %d field bits survive pack then unpack (in-range fields: %d bits asserted zero)" % (nbits, len(zeros))
               if not bad else "bits altered by pack then unpack: %s" % "; ".join(bad[:6]), prog.bodies[pack_id].loc())
        # ---- pack(unpack(b)) vs b
        ev2 = BitEval(prog)
        b = ev2.symbolic("%s::%s" % (mod, pk), "b")
        u2 = ev2.eval(ue, {0: b}, ev2.ir(unpack_id))
        p2 = ev2.eval(pe, {0: u2}, ev2.ir(pack_id))
        # pack's asserts must hold on unpack's output for every byte pattern (no panic when re-packing)
        z2 = _range_facts_deep(ev2, pack_id, {0: u2}, want_violations=True)
        rep.ob(rule, "%s | pack accepts every unpack output" % tag, not z2,
               "the range asserts of pack are constant-true on unpack's output" if not z2 else
               "pack's asserts can fail on unpack output bits %s" % sorted(bit_str(x) for x in z2)[:6], prog.bodies[pack_id].loc())
        bf = flatten(b)
        pf = flatten(p2)
        S = set()
        for key, bit in bf.items():
            if pf.get(key) != bit:
                S.add(key)
        W = _warn_tested_bits(prog, ev2, unpack_id, b)
        ex = WARN_EXEMPT.get((mod, pk), {})
        for k, why in ex.items():
            if k in W and k not in S:
                W.discard(k)
                rep.exempt("C05 | %s | %s | warn-tested bit %s[%d]" % (rule, tag, k[0], k[1]), why)
        okd = S <= W
        rep.ob(rule, "%s | dropped/merged bits are warned about" % tag, okd,
               "pack(unpack(b)) differs from b only in %d bit(s), all tested by a warning: %s" % (len(S), _fmt(S))
               if okd else "bits lost by unpack/pack without any warning: %s" % _fmt(S - W), prog.bodies[unpack_id].loc())
        okw = W <= S
        rep.ob(rule, "%s | warnings only on non-canonical bits" % tag, okw,
               "every warning-tested bit is one that pack cannot reproduce: %s" % _fmt(W)
               if okw else "warning tests bits that round-trip fine (the reader would warn on the writer's own output): %s" % _fmt(W - S),
               prog.bodies[unpack_id].loc())
        rep.extra.setdefault("header_bits", {})[tag] = {"field_bits": nbits, "packed_bits": len(bf), "dropped_or_merged": _fmt(S), "warn_tested": _fmt(W)}
    except Unsupported as e:
        rep.ob(rule, "%s | analysable" % tag, False, "bit-level evaluation refused (fails closed): %s" % e, prog.bodies[pack_id].loc())


def _fmt(s):
    return ", ".join("%s[%d]" % k for k in sorted(s)) or "(none)"


def _range_facts_deep(ev, fid, env, want_violations=False, depth=0):
    """zero-bit facts from the asserts of fid and of the workspace callees it inlines.
    With want_violations: the set of non-constant bits an assert demands to be zero."""
    zeros = set()
    ir = ev.ir(fid)
    e, rb = ev.ret_expr(fid)
    for c, rel, v, edge, dty in ir.edge_conditions(rb):
        truth = None
        if rel == "==" and v in (0, 1):
            truth = bool(v)
        elif rel == "notin" and len(v) == 1 and v[0] in (0, 1):
            truth = not bool(v[0])
        if truth is None:
            continue
        if c[0] == "bin" and c[1] in ("Eq", "Ne") and ((c[1] == "Eq") == truth):
            for x, y in ((c[2], c[3]), (c[3], c[2])):
                if y[0] == "c" and y[1] == 0 and x[0] == "bin" and x[1] == "Shr" and x[3][0] == "c":
                    val = ev.eval(x[2], env, ir)
                    for k in range(x[3][1], len(val)):
                        bit = val[k]
                        if want_violations:
                            if bit != 0:
                                zeros.add(bit if isinstance(bit, tuple) else ("s", "?", k))
                        elif isinstance(bit, tuple) and bit[0] == "s":
                            zeros.add(bit)
    if depth < 3:
        for x in walk(e):
            if isinstance(x, tuple) and x and x[0] == "call" and x[1] in ev.prog.bodies and x[1].endswith("::pack"):
                cenv = {}
                for i, a in enumerate(x[2]):
                    try:
                        cenv[i] = ev.eval(a, env, ir)
                    except Unsupported:
                        pass
                zeros |= _range_facts_deep(ev, x[1], cenv, want_violations, depth + 1)
    return zeros


def _warn_tested_bits(prog, ev, fid, b, depth=0, env=None):
    """packed-input bits that influence a branch leading to a Warn::warn call in fid (and in the
    unpack_warn callees it inlines)"""
    ir = ev.ir(fid)
    body = ir.b
    env = env if env is not None else {0: b}
    out = set()
    warn_blocks = [bi for bi, t in body.calls() if (t.get("callee") or "").endswith("Warn::warn")]
    for wb in warn_blocks:
        for c, rel, v, edge, dty in ir.edge_conditions(wb):
            # the *outermost* bit expressions of the condition: `((x & 0xf0) >> 4) & 2 != 0` tests one bit, not the four that
            # the inner mask lets through
            def visit(x):
                if not isinstance(x, tuple) or not x:
                    return
                if x[0] == "bin" and x[1] in ("BitAnd", "Shr", "Shl", "BitOr"):
                    try:
                        val = ev.eval(x, env, ir)
                    except Unsupported:
                        val = None
                    if val is not None:
                        for bit in val:
                            for s in sources_in(bit):
                                out.add(_key_of(s))
                        return
                for y in x[1:]:
                    if isinstance(y, tuple):
                        if y and isinstance(y[0], str):
                            visit(y)
                        else:
                            for z in y:
                                visit(z)
            visit(c)
    if depth < 3:
        e, _ = ev.ret_expr(fid)
        for x in walk(e):
            if isinstance(x, tuple) and x and x[0] == "call" and x[1] in prog.bodies and x[1].endswith("::unpack_warn"):
                cenv = {}
                for i, a in enumerate(x[2]):
                    try:
                        cenv[i] = ev.eval(a, env, ir)
                    except Unsupported:
                        pass
                out |= _warn_tested_bits(prog, ev, x[1], b, depth + 1, cenv)
    return out


def _key_of(s):
    # ('s', 'b.flags_size', k) -> ('flags_size', k)
    name = s[1]
    if name.startswith("b."):
        name = name[2:]
    return (name, s[2])


def control_tables(prog, rep, mod):
    rule = "R2-control-tables"
    ver = mod.split("::")[-1]
    # writer: ControlPacket::write -- per variant arm, the first byte written is a CTRLMSG_* constant
    w = prog.one(mod + "::ControlPacket::write")
    wir = IR(w)
    adt = prog.adt(mod + "::ControlPacket")
    wmap = {}
    for bi in sorted(w.live):
        t = w.blocks[bi]["term"]
        if t["k"] != "switch":
            continue
        e = wir.term_operand(bi, t["o"])
        if e[0] != "discr":
            continue
        for v, tb in t["targets"]:
            c = _first_ctrl_const(w, wir, tb, mod)
            if c is not None and v < len(adt["variants"]):
                wmap[adt["variants"][v]["name"]] = c
        rest = [i for i in range(len(adt["variants"])) if adt["variants"][i]["name"] not in wmap and i not in [x for x, _ in t["targets"]]]
        if rest:
            c = _first_ctrl_const(w, wir, t["otherwise"], mod)
            if c is not None and len(rest) == 1:
                wmap[adt["variants"][rest[0]]["name"]] = c
    # reader: read_impl -- switch on the control byte, each constant leads to the construction of a variant
    r = prog.one(mod + "::Packet::read_impl")
    rir = IR(r)
    rmap = {}
    for bi in sorted(r.live):
        t = r.blocks[bi]["term"]
        if t["k"] != "switch" or t.get("dty") != "u8" or len(t["targets"]) < 3:
            continue
        for v, tb in t["targets"]:
            var = _first_variant(r, tb, mod + "::ControlPacket")
            if var is not None:
                rmap.setdefault(var, set()).add(v)
    consts = {c["p"].rsplit("::", 1)[-1]: c["v"] for p_, c in prog.consts.items() if p_.startswith(mod + "::CTRLMSG_") and "v" in c and c["ty"] == "u8"}
    rep.floor(rule, len(wmap), len(adt["variants"]), "%s: control variants with a CTRLMSG constant in write" % ver)
    for var in [v["name"] for v in adt["variants"]]:
        wv = wmap.get(var)
        rv = rmap.get(var)
        ok = wv is not None and rv == {wv}
        rep.ob(rule, "%s | %s" % (ver, var), ok,
               "writer emits %s, reader maps %s back to %s" % (wv, sorted(rv) if rv else rv, var) if ok else
               "control message table mismatch for %s: writer byte %s, reader bytes %s" % (var, wv, sorted(rv) if rv else rv), w.loc())
    vals = [v for v in wmap.values()]
    rep.ob(rule, "%s | injective" % ver, len(set(vals)) == len(vals), "distinct variants use distinct message bytes: %s" % sorted(wmap.items()), w.loc())


def _first_ctrl_const(body, ir, bb, mod):
    """the u8 constant written first on the straight path from bb (argument of the first write of
    a one-byte array / the constant assigned to the message-byte local)"""
    seen = set()
    work = [bb]
    steps = 0
    while work and steps < 40:
        b = work.pop(0)
        steps += 1
        if b in seen:
            continue
        seen.add(b)
        blk = body.blocks[b]
        for si, st in enumerate(blk["st"]):
            if st["k"] == "assign":
                e = ir.rvalue(st["r"], (b, si))
                for x in walk(e):
                    if isinstance(x, tuple) and x and x[0] == "c" and x[2] == "u8" and x[3] and x[3].startswith(mod + "::CTRLMSG_") and not x[3].endswith("_LENGTH"):
                        return x[1]
        t = blk["term"]
        if t["k"] == "call":
            for a in t["args"]:
                e = ir.term_operand(b, a)
                for x in walk(e):
                    if isinstance(x, tuple) and x and x[0] == "c" and x[2] == "u8" and x[3] and x[3].startswith(mod + "::CTRLMSG_") and not x[3].endswith("_LENGTH"):
                        return x[1]
        if t["k"] in ("goto", "call", "drop", "assert") and t.get("t") is not None:
            work.append(t["t"])
    return None


def _first_variant(body, bb, adt_path):
    seen = set()
    work = [bb]
    steps = 0
    while work and steps < 60:
        b = work.pop(0)
        steps += 1
        if b in seen:
            continue
        seen.add(b)
        blk = body.blocks[b]
        for st in blk["st"]:
            if st["k"] == "assign" and st["r"]["k"] == "agg" and (st["r"].get("adt") or "") == adt_path:
                return st["r"]["variant"]
        t = blk["term"]
        if t["k"] in ("goto", "call", "drop", "assert") and t.get("t") is not None:
            work.append(t["t"])
        elif t["k"] == "switch":
            # bool tests inside an arm (e.g. the Close reason handling) are followed; another
            # dispatch on a byte value is a different table: stop there
            if t.get("dty") != "u8":
                for s in body.succ[b]:
                    work.append(s)
    return None


def ordering(prog, rep, mod):
    rule = "R3-token-compression-order"
    ver = mod.split("::")[-1]
    w = prog.one(mod + "::ConnectedPacket::write_impl")
    wir = IR(w)
    comp = [(bi, t) for bi, t in w.calls() if (t.get("callee") or "").endswith("Huffman::compress")]
    rep.floor(rule, len(comp), 1, "%s: HUFFMAN.compress in write_impl" % ver)
    if mod.endswith("protocol"):
        # 0.6: the compressor input is the payload variable that was re-bound to the token buffer
        for bi, t in comp:
            a = wir.term_operand(bi, t["args"][1])
            txt = show(a)
            ok = False
            # the input is a join of `payload` and `&token_buffer`: one of its definitions derefs token_buffer
            for x in walk(a):
                if isinstance(x, tuple) and x and x[0] == "var":
                    for (dbi, dsi, kind, node) in wir.defs.get(x[1], []):
                        de = wir.rvalue(node["r"], (dbi, dsi)) if kind == "assign" else wir.call_expr(dbi, node)
                        if "token_buffer" in show(de):
                            ok = True
            rep.ob(rule, "%s | compress input includes the token" % ver, ok,
                   "the compressor input `%s` is the token-extended buffer when a token is present" % txt[:80], w.loc(t.get("ln")))
    # the compression flag constant is OR-ed only where the compressed buffer is selected: both are
    # assigned in blocks dominated by the same `compressed is shorter` test
    flag_blocks = []
    for bi in sorted(w.live):
        for si, st in enumerate(w.blocks[bi]["st"]):
            if st["k"] == "assign":
                e = wir.rvalue(st["r"], (bi, si))
                if e[0] == "c" and e[3] and e[3].endswith("PACKETFLAG_COMPRESSION"):
                    flag_blocks.append(bi)
    rep.floor(rule, len(flag_blocks), 1, "%s: PACKETFLAG_COMPRESSION assignment" % ver)
    for fb in flag_blocks:
        conds = wir.edge_conditions(fb)
        ok = any(("len" in show(c[0]) or "is_ok" in show(c[0]) or "map" in show(c[0])) for c in conds)
        rep.ob(rule, "%s | flag set under the shorter-than test" % ver, ok,
               "PACKETFLAG_COMPRESSION is set only on the branch that chose the compressed payload (%d dominating conditions)" % len(conds), w.loc())
    r = prog.one(mod + "::Packet::read_impl")
    rir = IR(r)
    if mod.endswith("protocol"):
        # the token is split from a payload that is a join of the raw payload and the decompressed one
        sp = [(bi, t) for bi, t in r.calls() if (t.get("callee") or "") == "std::slice::split_at"]
        ok = False
        for bi, t in sp:
            a = rir.term_operand(bi, t["args"][0])
            n = rir.term_operand(bi, t["args"][1])
            if "TOKEN_SIZE" in show(n):
                for x in walk(a):
                    if isinstance(x, tuple) and x and x[0] == "var":
                        for (dbi, dsi, kind, node) in rir.defs.get(x[1], []):
                            de = rir.rvalue(node["r"], (dbi, dsi)) if kind == "assign" else rir.call_expr(dbi, node)
                            if "decompress" in show(de):
                                ok = True
        rep.ob(rule, "%s | token stripped after decompression" % ver, ok,
               "the token is split from the end of the (decompressed) payload", r.loc())


def _ceval(e):
    """value of an expression over constants (named constants arrive evaluated)"""
    if e[0] == "c" and isinstance(e[1], int):
        return e[1]
    if e[0] == "bin" and e[1] in ("Add", "Sub", "Mul"):
        a, b = _ceval(e[2]), _ceval(e[3])
        if a is None or b is None:
            return None
        return a + b if e[1] == "Add" else a - b if e[1] == "Sub" else a * b
    return None


def reader_size_limit(prog, rep, rule, mod):
    """The reader's payload-size guard (Err(Compression) for over-long payloads): it is applied to the payload *after*
    decompression, its constant is MAX_PACKETSIZE - HEADER_SIZE, and that is at least the largest payload the
    connection layer can emit (chunk area + vital chunk header + token), so everything the writer produces is accepted
    and nothing longer than a datagram's payload is."""
    tag = mod.split("::")[-1]
    b = prog.one(mod + "::Packet::read_impl")
    ir = IR(b)
    c = lambda n: prog.constv(mod + "::" + n)
    MAXP, MAXPKT, HDR, HV = c("MAX_PAYLOAD"), c("MAX_PACKETSIZE"), c("HEADER_SIZE"), c("CHUNK_HEADER_SIZE_VITAL")
    TOK = c("TOKEN_SIZE") if tag == "protocol" else 0
    guards = []
    for bi in sorted(b.live):
        t = b.blocks[bi]["term"]
        if t["k"] != "switch":
            continue
        e = ir.term_operand(bi, t["o"])
        neg = False
        while e[0] == "un" and e[1] == "Not":
            e, neg = e[2], not neg
        if e[0] != "bin" or e[1] not in ("Gt", "Ge", "Lt", "Le"):
            continue
        lhs, rhs = e[2], e[3]
        kval = _ceval(rhs)
        op_ = e[1]
        if kval is None and _ceval(lhs) is not None:
            # K OP len(x)  ->  len(x) OP' K
            lhs, rhs, kval = rhs, lhs, _ceval(lhs)
            op_ = {"Gt": "Lt", "Ge": "Le", "Lt": "Gt", "Le": "Ge"}[op_]
        if lhs[0] != "len" or kval is None:
            continue
        # which raw switch value leads straight to Err(Compression)?
        def builds_error(bb):
            return any(st["k"] == "assign" and st["r"]["k"] == "agg" and st["r"].get("variant") == "Compression" for st in b.blocks[bb]["st"])
        err_raw = None
        listed = set()
        for v_, tb in t["targets"]:
            listed.add(bool(v_))
            if builds_error(tb):
                err_raw = bool(v_)
        if err_raw is None and builds_error(t["otherwise"]) and len(listed) == 1:
            err_raw = not next(iter(listed))
        if err_raw is None:
            continue
        holds_on_error = err_raw if not neg else (not err_raw)
        eff = op_ if holds_on_error else {"Gt": "Le", "Ge": "Lt", "Lt": "Ge", "Le": "Gt"}[op_]
        guards.append((bi, eff, lhs[1], kval))
    rep.floor(rule, len(guards), 1, "%s: size guard returning Err(Compression)" % tag)
    for bi, op, what, k in guards:
        limit = k if op == "Gt" else k - 1 if op == "Ge" else None
        need = MAXP + HV + TOK
        okk = limit is not None and limit == MAXPKT - HDR and limit >= need
        rep.ob(rule, "%s | limit" % tag, okk,
               "payloads up to %s bytes are accepted: equals MAX_PACKETSIZE - HEADER_SIZE = %d and covers the largest payload the connection "
               "layer builds (%d + %d + %d = %d)" % (limit, MAXPKT - HDR, MAXP, HV, TOK, need) if okk else
               "the reader accepts payloads up to %s bytes; the writer emits up to %d (MAX_PAYLOAD + vital chunk header + token) and a datagram holds %d"
               % (limit, need, MAXPKT - HDR), b.loc(b.blocks[bi]["term"].get("ln")))
        # the tested slice is the payload after decompression: the local has a definition that comes out of Packet::decompress
        x = what
        while isinstance(x, tuple) and x and x[0] in ("ref", "deref", "unsize"):
            x = x[2] if x[0] == "ref" else x[1]
        post = False
        if x[0] == "var":
            for (dbi, dsi, kind, node) in ir.defs.get(x[1], []):
                de = ir.rvalue(node["r"], (dbi, dsi)) if kind == "assign" else ir.call_expr(dbi, node)
                if any(isinstance(y, tuple) and y and y[0] == "call" and y[1].endswith("::Packet::decompress") for y in walk(de)):
                    post = True
        rep.ob(rule, "%s | tested after decompression" % tag, post,
               "the guard tests the payload that comes out of the decompression step" if post else
               "the guard tests `%s`, which is not the decompressed payload: a compressed packet can expand beyond the limit" % show(strip_sites(what)),
               b.loc(b.blocks[bi]["term"].get("ln")))


def datagram_limit(prog, rep, rule, mod):
    """The reader refuses a datagram exactly when it is longer than MAX_PACKETSIZE: the writer can fill a datagram completely
    (C04 budget B3 is an equality for 0.6 with a token), so `>=` would refuse the library's own largest packets"""
    from .common import exact_clauses, _txt
    tag = mod.split("::")[-1]
    b = prog.one(mod + "::Packet::read_impl")
    ir = IR(b)
    mp = prog.constv(mod + "::MAX_PACKETSIZE")
    table = [("the datagram is longer than MAX_PACKETSIZE",
              lambda a: a[0] == "len" and "bytes" in _txt(a),
              lambda b_: b_[0] == "c" and b_[1] == mp, "Gt", 1)]
    exact_clauses(rep, rule, tag + " read_impl", b, ir, table, floor=1)


def close_reason_clamp(prog, rep):
    """R5: a Close reason of up to CTRLMSG_CLOSE_REASON_LENGTH (127, the protocol's limit) bytes is read back whole:
    both readers clamp the reason at exactly that constant (sibling agreement 0.6 / 0.7)"""
    rule = "R5-close-reason-clamp"
    vals = {}
    for mod in ("libtw2_net::protocol", "libtw2_net::protocol7"):
        tag = mod.split("::")[-1]
        b = prog.one(mod + "::Packet::read_impl")
        ir = IR(b)
        lim = prog.constv(mod + "::CTRLMSG_CLOSE_REASON_LENGTH")
        found = []
        for bi, t in b.calls():
            if (t.get("callee") or "") in ("std::cmp::min", "std::cmp::Ord::min") or (t.get("callee") or "").endswith("as std::cmp::Ord>::min"):
                e = ir.call_expr(bi, t)
                ks = [_ceval(a) for a in e[2]]
                ks = [k for k in ks if k is not None]
                if ks:
                    found.append((bi, ks[0], t.get("ln")))
        rep.floor(rule, len(found), 1, "%s: cmp::min(nul, <limit>) in read_impl" % tag)
        for bi, k, ln in found:
            vals[tag] = k
            rep.ob(rule, "%s | clamp" % tag, k == lim == 127,
                   "the reason is cut at %d bytes = CTRLMSG_CLOSE_REASON_LENGTH" % k if k == lim == 127 else
                   "the reason is cut at %s bytes but CTRLMSG_CLOSE_REASON_LENGTH is %s: a maximal reason is truncated (and warned about)" % (k, lim), b.loc(ln))
    if len(vals) == 2:
        rep.ob(rule, "0.6 and 0.7 agree", len(set(vals.values())) == 1, "both readers clamp at %s" % sorted(set(vals.values())))


def chunk_resend_flag(prog, rep):
    """R6: the chunk iterator reports a vital chunk's resend flag as `header.flags & CHUNKFLAG_RESEND != 0` (the writer sets
    that bit for retransmissions)"""
    from ..bits import BitEval, Unsupported
    rule = "R6-chunk-resend-flag"
    be = BitEval(prog)
    for mod in ("libtw2_net::protocol", "libtw2_net::protocol7"):
        tag = mod.split("::")[-1]
        b = prog.one(mod + "::ChunksIter::next_warn")
        ir = IR(b)
        flag = prog.constv(mod + "::CHUNKFLAG_RESEND")
        found = False
        ok = False
        for bi, t in b.calls():
            if (t.get("callee") or "") != "std::option::Option::map":
                continue
            e = ir.call_expr(bi, t)
            cl = [x for x in walk(e) if isinstance(x, tuple) and x and x[0] == "agg" and x[1] == "closure"]
            if not cl:
                continue
            try:
                ce, rb = be.ret_expr(cl[0][2])
            except Unsupported:
                continue
            if ce[0] == "agg" and len(ce[4]) == 2:
                found = True
                second = ce[4][1][1]
                while second[0] in ("deref", "ref"):
                    second = second[2] if second[0] == "ref" else second[1]
                # the closure captures the precomputed bool or computes it itself; look through a captured upvar
                txt = show(strip_sites(second))
                cands = [second]
                for cap in cl[0][4]:
                    cands.append(cap[1])
                for c in cands:
                    while c[0] in ("deref", "ref"):
                        c = c[2] if c[0] == "ref" else c[1]
                    if c[0] == "bin" and c[1] == "Ne" and c[3][0] == "c" and c[3][1] == 0 and c[2][0] == "bin" and c[2][1] == "BitAnd" \
                            and c[2][3][0] == "c" and c[2][3][1] == flag:
                        ok = True
        # the same pair built without a closure: `match sequence { Some(s) => Some((s, flags & CHUNKFLAG_RESEND != 0)), .. }`
        for bi in sorted(b.live):
            for si, st in enumerate(b.blocks[bi]["st"]):
                if st["k"] == "assign" and st["r"]["k"] == "agg" and st["r"].get("ak") == "tuple" and len(st["r"].get("ops", [])) == 2:
                    ty = ir.ltystr(st["p"]["l"]) if not st["p"].get("pr") else ""
                    if "u16" not in ty or "bool" not in ty:
                        continue
                    found = True
                    c = ir.operand(st["r"]["ops"][1], (bi, si))
                    while c[0] in ("deref", "ref"):
                        c = c[2] if c[0] == "ref" else c[1]
                    c = strip_sites(c)
                    if c[0] == "bin" and c[1] == "Ne" and c[3][0] == "c" and c[3][1] == 0 and c[2][0] == "bin" and c[2][1] == "BitAnd" \
                            and c[2][3][0] == "c" and c[2][3][1] == flag:
                        ok = True
        rep.ob(rule, "%s | resend flag" % tag, found and ok,
               "vital = sequence.map(|s| (s, flags & CHUNKFLAG_RESEND != 0))" if found and ok else
               "the resend flag of a delivered vital chunk is not `flags & CHUNKFLAG_RESEND != 0`", b.loc())
