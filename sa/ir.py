"""A7: expression normaliser over def-use chains, and dominating-guard collection.

Expressions are nested tuples (hashable):
  ('c', value, ty, name)           integer/bool constant (name = named constant path or None)
  ('k', ty, text)                  other constant (unit, str, ...)
  ('fn', path)                     function item
  ('arg', i, name)                 i-th argument (0-based), never reassigned
  ('var', local, name, epoch)      local with several definitions / address taken; `epoch`
                                   identifies the last point that may have changed it
  ('bin', op, a, b) ('un', op, a) ('cast', kind, ty, a)
  ('ref', mut, e) ('deref', e, epoch) ('field', e, name) ('variant', e, vname)
  ('index', e, i) ('cindex', e, off, from_end) ('subslice', e, a, b, from_end)
  ('len', e)                       length of slice value e (PtrMetadata)
  ('discr', e)
  ('call', path, (args...), site)  site = (body id, bb) identity of the call
  ('agg', kind, name, variant, ((field, e)...))
  ('unwrapped', e)                 payload of the success variant of an Option/Result e

Memory reads (`deref`) and multi-definition locals (`var`) carry an *epoch*: two reads have the
same epoch only if no instruction that may write the same root (a `&mut`-taking call, a store
through a pointer, an assignment to the local) can execute between them.  A guard on a value of
one epoch therefore says nothing about the value at another epoch.
"""
from .facts import path_matches, norm_path

MAXDEPTH = 60
ALL = "ALL"
PENDING = "PENDING"


def is_place_local(p):
    return not p.get("pr")


class IR:
    """per-body def-use view"""

    def __init__(self, body):
        self.b = body
        self._defs = None
        self._addr_mut = None
        self._memo = {}
        self._partial = None
        self._escaped = None
        self.ety = {}
        self._kills = None
        self._epochs = {}
        self._bootstrap = False

    # -------------------------------------------------------------- defs
    def _scan(self):
        defs = {}
        partial = set()
        addr_mut = set()
        addr_holders = {}
        live = self.b.live
        for bi, blk in enumerate(self.b.blocks):
            if bi not in live:
                continue
            for si, st in enumerate(blk["st"]):
                k = st["k"]
                if k == "assign":
                    p = st["p"]
                    if is_place_local(p):
                        defs.setdefault(p["l"], []).append((bi, si, "assign", st))
                    elif not any(x == "*" for x in p["pr"]):
                        partial.add(p["l"])
                    r = st["r"]
                    if r["k"] in ("ref", "rawptr") and r.get("mut"):
                        rp = r["p"]
                        if not any(x == "*" for x in rp.get("pr", [])):
                            addr_mut.add(rp["l"])
                            addr_holders.setdefault(rp["l"], []).append(p)
                elif k == "setdiscr":
                    partial.add(st["p"]["l"])
            t = blk["term"]
            if t["k"] == "call":
                d = t["dest"]
                if is_place_local(d):
                    defs.setdefault(d["l"], []).append((bi, len(blk["st"]), "call", t))
                elif not any(x == "*" for x in d["pr"]):
                    partial.add(d["l"])
        self._defs = defs
        self._partial = partial
        self._addr_mut = addr_mut
        esc = set()
        for l, holders in addr_holders.items():
            for hp in holders:
                if not is_place_local(hp) or len(defs.get(hp["l"], [])) != 1 or hp["l"] in partial:
                    esc.add(l)
        self._escaped = esc

    @property
    def defs(self):
        if self._defs is None:
            self._scan()
        return self._defs

    @property
    def addr_mut(self):
        if self._defs is None:
            self._scan()
        return self._addr_mut

    @property
    def partial(self):
        if self._defs is None:
            self._scan()
        return self._partial

    @property
    def escaped(self):
        if self._defs is None:
            self._scan()
        return self._escaped

    def lname(self, l):
        return self.b.locals[l].get("name")

    def lty(self, l):
        return self.b.locals[l]["tj"]

    def ltystr(self, l):
        return self.b.locals[l]["ty"]

    def is_var(self, l):
        if 1 <= l <= self.b.argc:
            if l in self.defs or l in self.partial:
                return True
            if l in self.addr_mut:
                return True
            return False
        ds = self.defs.get(l, [])
        return len(ds) != 1 or l in self.partial or l in self.addr_mut

    # -------------------------------------------------------------- epochs
    def root_of(self, e):
        return self.access_path(e)[0]

    def access_path(self, e):
        """(root, field path) of a place-like expression; root '?' if it is not rooted in an
        argument or a local"""
        path = []
        while True:
            k = e[0]
            if k == "arg":
                return ("a", e[1]), tuple(reversed(path))
            if k == "var":
                return ("v", e[1]), tuple(reversed(path))
            if k == "field":
                path.append(e[2])
                e = e[1]
            elif k in ("index", "cindex", "subslice"):
                path.append("[]")
                e = e[1]
            elif k in ("deref", "variant", "unwrapped", "len", "unsize", "discr"):
                e = e[1]
            elif k == "ref":
                e = e[2]
            elif k == "cast":
                e = e[3]
            else:
                return "?", ()

    def _compute_kills(self):
        """kills[(bb, idx)] = set of (root, path) locations (or ALL) the instruction may write"""
        kills = {}
        b = self.b

        def loc_of(e):
            r, path = self.access_path(e)
            return None if r == "?" else (r, path)

        for bi in sorted(b.live):
            blk = b.blocks[bi]
            for si, st in enumerate(blk["st"]):
                ks = None
                if st["k"] == "assign" or st["k"] == "setdiscr":
                    p = st["p"]
                    if any(x == "*" for x in p.get("pr", [])) or self.is_var(p["l"]):
                        lc = loc_of(self.place(p, (bi, si)))
                        ks = ALL if lc is None else {lc}
                if ks:
                    kills[(bi, si)] = ks
            t = blk["term"]
            n = len(blk["st"])
            if t["k"] == "call":
                ks = set()
                allk = False
                for ao in t["args"]:
                    pl = ao.get("cp") or ao.get("mv")
                    if pl is None:
                        continue
                    ty = self._place_ty(pl)
                    if ty.startswith("&mut ") or ty.startswith("*mut "):
                        lc = loc_of(self.place(pl, (bi, n)))
                        if lc is None:
                            allk = True
                        else:
                            ks.add(lc)
                    elif ty.startswith("&") or ty.startswith("*const"):
                        continue
                    else:
                        # by-value argument that may contain a mutable reference (closures, structs)
                        if "&mut" in ty or "{closure" in ty or "closure@" in ty:
                            e = self.place(pl, (bi, n))
                            if e[0] == "agg":
                                for _, v in e[4]:
                                    if v[0] == "ref" and v[1]:
                                        lc = loc_of(v)
                                        if lc is None:
                                            allk = True
                                        else:
                                            ks.add(lc)
                                    elif v[0] not in ("ref", "c", "k", "fn"):
                                        tv = self.type_of(v) or ""
                                        if "&mut" in tv:
                                            lc = loc_of(v)
                                            if lc is None:
                                                allk = True
                                            else:
                                                ks.add(lc)
                            else:
                                lc = loc_of(e)
                                if lc is None:
                                    allk = True
                                else:
                                    ks.add(lc)
                d = t["dest"]
                if any(x == "*" for x in d.get("pr", [])) or self.is_var(d["l"]):
                    lc = loc_of(self.place(d, (bi, n)))
                    if lc is None:
                        allk = True
                    else:
                        ks.add(lc)
                if allk:
                    kills[(bi, n)] = ALL
                elif ks:
                    kills[(bi, n)] = ks
            elif t["k"] == "drop":
                p = t["p"]
                if self.is_var(p["l"]):
                    kills[(bi, n)] = {(("v", p["l"]), ())}
        self._kills = kills

    def _place_ty(self, p):
        if p.get("t"):
            return p["t"]
        return self.ltystr(p["l"])

    def _kills_loc(self, pos, loc):
        ks = self._kills.get(pos)
        if ks is None:
            return False
        if ks == ALL:
            return True
        root, path = loc
        if root == "?":
            return True
        for (kr, kp) in ks:
            if kr != root:
                continue
            n = min(len(kp), len(path))
            if kp[:n] == path[:n]:
                return True
        if root[0] == "v" and root[1] in self.escaped:
            return True
        return False

    def epoch(self, loc, at):
        """identity of the last point before `at` that may have written location (root, path)"""
        if at is None or self._bootstrap:
            return None
        self._ensure()
        tab = self._epochs.get(loc)
        if tab is None:
            tab = self._epoch_table(loc)
            self._epochs[loc] = tab
        bb, idx = at
        last = None
        for i in tab["inblock"].get(bb, ()):
            if i < idx:
                last = i
        if last is not None:
            return (bb, last)
        return tab["entry"].get(bb, ("init",))

    def _ensure(self):
        if self._kills is None and not self._bootstrap:
            # computing kills needs expressions (to find roots), which need no epochs themselves
            self._bootstrap = True
            self._kills = {}
            try:
                self._compute_kills()
            finally:
                self._bootstrap = False
            self._memo = {}
            self.ety = {}

    def _epoch_table(self, loc):
        b = self.b
        inblock = {}
        for (bb, idx) in self._kills:
            if self._kills_loc((bb, idx), loc):
                inblock.setdefault(bb, []).append(idx)
        for v in inblock.values():
            v.sort()
        entry = {0: ("init",)}
        out = {}
        order = sorted(b.live)
        changed = True
        it = 0
        while changed and it < 100:
            changed = False
            it += 1
            for bb in order:
                if bb != 0:
                    ins = set()
                    for p in b.pred[bb]:
                        if p in out:
                            ins.add(out[p])
                    if not ins:
                        continue
                    cur = entry.get(bb)
                    if cur == ("phi", bb):
                        new = cur
                    elif len(ins) == 1:
                        new = next(iter(ins))
                    else:
                        new = ("phi", bb)
                    if cur is not None and cur != new:
                        new = ("phi", bb)
                    if cur != new:
                        entry[bb] = new
                        changed = True
                ks = inblock.get(bb)
                o = (bb, ks[-1]) if ks else entry.get(bb)
                if o is not None and out.get(bb) != o:
                    out[bb] = o
                    changed = True
        return {"inblock": inblock, "entry": entry}

    # -------------------------------------------------------------- expressions
    def local(self, l, at=None, depth=0):
        self._ensure()
        if self.is_var(l):
            return ("var", l, self.lname(l), PENDING)
        if l in self._memo:
            return self._memo[l]
        if depth > MAXDEPTH:
            return ("var", l, self.lname(l), ("deep",))
        e = self._local(l, depth)
        self._memo[l] = e
        self.ety.setdefault(e, self.ltystr(l))
        return e

    def _local(self, l, depth):
        b = self.b
        if 1 <= l <= b.argc:
            return ("arg", l - 1, self.lname(l))
        ds = self.defs.get(l, [])
        if not ds:
            return ("var", l, self.lname(l), ("undef",))
        bi, si, kind, node = ds[0]
        self._memo[l] = ("var", l, self.lname(l), ("cycle",))  # cycle guard
        try:
            if kind == "assign":
                e = self.rvalue(node["r"], (bi, si), depth + 1)
            else:
                e = self.call_expr(bi, node, depth + 1)
        finally:
            del self._memo[l]
        return self.stamp(simplify(e), (bi, si))

    def var_init(self, l):
        """expression of the only full assignment of a local that is `var` merely because its
        address is taken (e.g. `let mut it = s.iter(); it.position(..)`), else None"""
        ds = self.defs.get(l, [])
        if len(ds) != 1 or l in self.partial:
            return None
        bi, si, kind, node = ds[0]
        if kind == "assign":
            return simplify(self.rvalue(node["r"], (bi, si), 1))
        return self.call_expr(bi, node, 1)

    def call_expr(self, bi, t, depth=0):
        f = t.get("callee")
        if f is None:
            f = "<indirect>"
        at = (bi, len(self.b.blocks[bi]["st"]))
        args = tuple(self.operand(a, at, depth + 1) for a in t["args"])
        if f in ("std::mem::size_of", "std::mem::align_of"):
            return ("call", f, args, ("targs", tuple(t.get("targs") or ())))
        return ("call", f, args, (self.b.id, bi))

    def term_operand(self, bi, o):
        """operand of the terminator of block bi"""
        return self.operand(o, (bi, len(self.b.blocks[bi]["st"])))

    def operand(self, o, at=None, depth=0):
        if "c" in o:
            return self.const(o["c"])
        if "rt" in o:
            return ("k", "runtime_checks", "")
        p = o.get("cp") or o.get("mv")
        return self.place(p, at, depth)

    def const(self, c):
        if "fn" in c:
            return ("fn", norm_path(c["fn"]))
        if "v" in c:
            return ("c", c["v"], c["ty"], c.get("name"))
        if "pbytes" in c:
            # reference to a constant: identified by the pointee's bytes
            return ("ref", False, ("k", c["ty"].lstrip("&").strip(), "bytes:" + c["pbytes"]))
        return ("k", c["ty"], c.get("name") or "")

    def place(self, p, at=None, depth=0):
        e = self.local(p["l"], at, depth)
        for el in p.get("pr", []):
            if el == "*":
                if e[0] == "ref":
                    e = e[2]
                else:
                    e = ("deref", e, PENDING)
            elif isinstance(el, dict):
                if "f" in el:
                    fn_ = el["n"] if el["n"] else el["f"]
                    if isinstance(fn_, str) and fn_.isdigit():
                        fn_ = int(fn_)
                    e = ("field", e, fn_)
                elif "dc" in el:
                    e = ("variant", e, el["dc"] or el["v"])
                elif "ix" in el:
                    e = ("index", e, self.stamp(self.local(el["ix"], at, depth + 1), at))
                elif "cix" in el:
                    e = ("cindex", e, el["cix"], el["fe"])
                elif "sub" in el:
                    e = ("subslice", e, el["sub"][0], el["sub"][1], el["fe"])
            e = simplify(e)
        e = self.stamp(e, at)
        if p.get("t"):
            self.ety.setdefault(e, p["t"])
        elif not p.get("pr"):
            self.ety.setdefault(e, self.ltystr(p["l"]))
        return e

    def stamp(self, e, at, path=()):
        """fill the PENDING epochs along the spine of a place expression"""
        k = e[0]
        if k == "field":
            inner = self.stamp(e[1], at, (e[2],) + path)
            return e if inner is e[1] else simplify(("field", inner, e[2]))
        if k in ("index", "cindex", "subslice"):
            inner = self.stamp(e[1], at, ("[]",) + path)
            return e if inner is e[1] else (k, inner) + e[2:]
        if k in ("variant",):
            inner = self.stamp(e[1], at, path)
            return e if inner is e[1] else (k, inner) + e[2:]
        if k == "deref":
            inner = self.stamp(e[1], at, path)
            if e[2] == PENDING:
                root, ip = self.access_path(inner)
                ep = self.epoch((root, ip + path), at)
                return ("deref", inner, ep)
            return e if inner is e[1] else ("deref", inner, e[2])
        if k == "var" and e[3] == PENDING:
            ep = self.epoch((("v", e[1]), path), at)
            r = ("var", e[1], e[2], ep)
            self.ety.setdefault(r, self.ltystr(e[1]))
            return r
        return e

    def type_of(self, e):
        k = e[0]
        if k == "c":
            return e[2]
        if k == "cast":
            return e[2]
        if k == "len":
            return "usize"
        if k == "bin":
            if e[1] in ("Lt", "Le", "Gt", "Ge", "Eq", "Ne"):
                return "bool"
            if e[1] in ("Shl", "Shr"):
                return self.type_of(e[2])
            return self.type_of(e[2]) or self.type_of(e[3])
        if k == "un" and e[1] in ("Not", "Neg"):
            return self.type_of(e[2])
        if k == "ovf":
            return "bool"
        return self.ety.get(e)

    def rvalue(self, r, at=None, depth=0):
        k = r["k"]
        if k == "use":
            return self.operand(r["o"], at, depth)
        if k == "bin":
            return ("bin", r["op"], self.operand(r["a"], at, depth), self.operand(r["b"], at, depth))
        if k == "un":
            if r["op"] == "PtrMetadata":
                return ("len", self.operand(r["o"], at, depth))
            return ("un", r["op"], self.operand(r["o"], at, depth))
        if k == "cast":
            return ("cast", r["ck"], r["ty"], self.operand(r["o"], at, depth))
        if k in ("ref", "rawptr"):
            return ("ref", bool(r.get("mut")), self.place(r["p"], at, depth))
        if k == "discr":
            return ("discr", self.place(r["p"], at, depth))
        if k == "agg":
            ops = [self.operand(o, at, depth) for o in r["ops"]]
            if r["ak"] == "adt":
                names = [int(n) if isinstance(n, str) and n.isdigit() else n for n in r.get("fields", [])]
                fl = tuple((names[i] if i < len(names) else i, ops[i]) for i in range(len(ops)))
                return ("agg", "adt", norm_path(r["adt"]), r["variant"], fl)
            if r["ak"] == "closure":
                return ("agg", "closure", norm_path(r["def"]), None, tuple((i, o) for i, o in enumerate(ops)))
            return ("agg", r["ak"], None, None, tuple((i, o) for i, o in enumerate(ops)))
        if k == "repeat":
            return ("repeat", self.operand(r["o"], at, depth), r["n"])
        return ("k", "other", r.get("s", k))

    # -------------------------------------------------------------- guards
    def edge_conditions(self, bb, _depth=0):
        """Conditions that hold on entry to `bb` because of dominating branch edges.

        Returns a list of (expr, rel, value, (from_bb, to_bb), discr_ty):  rel is '==' (value
        int) or 'notin' (value = tuple of ints)."""
        b = self.b
        out = []
        chain = b.dom_chain(bb)
        for child in chain:
            preds = [p for p in b.pred[child] if p in b.live]
            # the edge p->child dominates child iff every other predecessor is dominated by child
            real = [p for p in preds if not b.dominates(child, p)]
            if len(real) != 1:
                continue
            p = real[0]
            t = b.blocks[p]["term"]
            if t["k"] == "switch":
                vals = [v for v, tb in t["targets"] if tb == child]
                e = self.term_operand(p, t["o"])
                if t["otherwise"] == child and not vals:
                    out.append((e, "notin", tuple(v for v, _ in t["targets"]), (p, child), t.get("dty")))
                elif len(vals) == 1 and t["otherwise"] != child:
                    out.append((e, "==", vals[0], (p, child), t.get("dty")))
            elif t["k"] == "assert" and t.get("t") == child:
                e = self.term_operand(p, t["cond"])
                out.append((e, "==", 1 if t["expected"] else 0, (p, child), "bool"))
        if _depth < 3:
            # `matches!` / `&&` temporaries: a bool local assigned constants in different arms; the
            # tested value identifies the arm, whose own dominating conditions then hold as well
            extra = []
            for (e, rel, v, edge, dty) in out:
                if e[0] != "var" or (dty != "bool" and self.ltystr(e[1]) != "bool"):
                    continue
                truth = None
                if rel == "==" and v in (0, 1):
                    truth = v
                elif rel == "notin" and len(v) == 1 and v[0] in (0, 1):
                    truth = 1 - v[0]
                if truth is None:
                    continue
                ds = self.defs.get(e[1], [])
                arms = []
                okc = bool(ds)
                for (bi, si, kind, node) in ds:
                    if kind != "assign" or node["r"]["k"] != "use" or "c" not in node["r"]["o"] or "v" not in node["r"]["o"]["c"]:
                        okc = False
                        break
                    if node["r"]["o"]["c"]["v"] == truth:
                        arms.append(bi)
                if okc and len(arms) == 1 and arms[0] != bb:
                    for c in self.edge_conditions(arms[0], _depth + 1):
                        if c not in out and c not in extra:
                            extra.append(c)
            out.extend(extra)
        return out

    def variant_facts(self, bb):
        """(place expr, rel, value, edge) facts from dominating discriminant tests"""
        out = []
        for e, rel, v, edge, dty in self.edge_conditions(bb):
            if e[0] == "discr":
                out.append((e[1], rel, v, edge))
        return out


def simplify(e):
    k = e[0]
    if k == "deref" and e[1][0] == "ref":
        return e[1][2]
    if k == "field":
        base = e[1]
        if base[0] == "agg" and base[1] in ("adt", "tuple", "closure"):
            for n, v in base[4]:
                if n == e[2]:
                    return v
        if base[0] == "bin" and base[1] in ("AddWithOverflow", "SubWithOverflow", "MulWithOverflow"):
            if e[2] == 0:
                return ("bin", base[1][:3], base[2], base[3])
            return ("ovf", base[1][:3], base[2], base[3])
        if base[0] == "variant":
            inner = base[1]
            # `?`: Try::branch(x) -> Continue(v)
            if base[2] == "Continue" and inner[0] == "call" and path_matches(inner[1], "branch") and e[2] == 0:
                return ("unwrapped", inner[2][0])
            if base[2] in ("Some", "Ok") and e[2] == 0:
                return ("unwrapped", inner)
            if inner[0] == "agg" and inner[1] == "adt" and inner[3] == base[2]:
                for n, v in inner[4]:
                    if n == e[2]:
                        return v
    if k == "call":
        f = e[1]
        a = e[2]
        if a:
            if f in ("std::option::Option::unwrap", "std::option::Option::expect",
                     "std::result::Result::unwrap", "std::result::Result::expect"):
                return ("unwrapped", a[0])
            if f == "std::clone::Clone::clone" or f.endswith("as std::clone::Clone>::clone"):
                if a[0][0] == "ref":
                    return a[0][2]
                return ("deref", a[0], PENDING)
            if f == "std::slice::len":
                return ("len", a[0])
    if k == "cast" and e[1].startswith("Coerce:Unsize"):
        # &[T; N] -> &[T]
        return ("unsize", e[3])
    return e


def strip_sites(e):
    """drop call-site identities and epochs so that expressions of sibling functions compare"""
    if not isinstance(e, tuple):
        return e
    if e and e[0] == "call":
        return ("call", e[1], tuple(strip_sites(x) for x in e[2]))
    if e and e[0] == "var":
        return ("var", e[2] or e[1])
    if e and e[0] == "arg":
        return ("arg", e[1], e[2])
    if e and e[0] == "deref":
        return ("deref", strip_sites(e[1]))
    return tuple(strip_sites(x) for x in e)


def walk(e):
    """all sub-expressions, pre-order"""
    yield e
    if isinstance(e, tuple):
        for x in e[1:] if e and isinstance(e[0], str) else e:
            if isinstance(x, tuple):
                yield from walk(x)


def contains(e, pred):
    for x in walk(e):
        if isinstance(x, tuple) and x and isinstance(x[0], str) and pred(x):
            return True
    return False


def calls_in(e):
    return [x for x in walk(e) if isinstance(x, tuple) and x and x[0] == "call"]


def cval(e):
    if isinstance(e, tuple) and e and e[0] == "c":
        return e[1]
    return None


def show(e, depth=0):
    """compact human-readable rendering"""
    if not isinstance(e, tuple) or not e:
        return str(e)
    k = e[0]
    if depth > 8:
        return "…"
    d = depth + 1
    if k == "c":
        return (e[3].split("::")[-1] + "=" if e[3] else "") + str(e[1])
    if k == "k":
        return e[2] or e[1]
    if k == "fn":
        return e[1]
    if k == "arg":
        return e[2] or "arg%d" % e[1]
    if k == "var":
        if len(e) < 3:
            return str(e[1])
        return (e[2] or "") + "_%d" % e[1]
    if k == "bin":
        return "%s(%s, %s)" % (e[1], show(e[2], d), show(e[3], d))
    if k == "ovf":
        return "ovf_%s(%s, %s)" % (e[1], show(e[2], d), show(e[3], d))
    if k == "un":
        return "%s(%s)" % (e[1], show(e[2], d))
    if k == "cast":
        return "(%s as %s)" % (show(e[3], d), e[2])
    if k == "unsize":
        return show(e[1], d)
    if k == "ref":
        return ("&mut " if e[1] else "&") + show(e[2], d)
    if k == "deref":
        return "*" + show(e[1], d)
    if k == "field":
        return "%s.%s" % (show(e[1], d), e[2])
    if k == "variant":
        return "(%s as %s)" % (show(e[1], d), e[2])
    if k == "index":
        return "%s[%s]" % (show(e[1], d), show(e[2], d))
    if k == "cindex":
        return "%s[%s%d]" % (show(e[1], d), "-" if e[3] else "", e[2])
    if k == "len":
        return "len(%s)" % show(e[1], d)
    if k == "discr":
        return "discr(%s)" % show(e[1], d)
    if k == "call":
        name = e[1]
        short = "::".join(name.split("::")[-2:])
        return "%s(%s)" % (short, ", ".join(show(a, d) for a in e[2]))
    if k == "agg":
        nm = (e[2] or e[1]).split("::")[-1]
        if e[3]:
            nm += "::" + str(e[3])
        return "%s{%s}" % (nm, ", ".join("%s: %s" % (n, show(v, d)) for n, v in e[4]))
    if k == "unwrapped":
        return "ok(%s)" % show(e[1], d)
    if k == "repeat":
        return "[%s; %s]" % (show(e[1], d), e[2])
    return str(e)
