"""Command line entry: python3 -m sa.check Cxx [--tier quick|thorough] | --replay <file>

Exit codes: 0 property held on everything analysed (known findings are printed and tolerated),
1 a violation not listed in known_findings.json, 2 engine failure (extraction failed, a fixture
was not flagged, ...) -- an engine failure is never reported as a verdict.
"""
import argparse
import importlib
import json
import os
import sys
import time
import traceback

from . import extract
from .facts import Program, AnchorLost
from .report import Report

VERIF = extract.VERIF
EVID = os.environ.get("VERIF_EVID_DIR") or os.path.join(VERIF, "evidence")
KNOWN = os.path.join(VERIF, "known_findings.json")


def load_known():
    try:
        with open(KNOWN) as fh:
            return json.load(fh)
    except FileNotFoundError:
        return {"findings": []}


class Ctx:
    def __init__(self, tier, seed):
        self.tier = tier
        self.seed = seed
        self.fdir, self.key, self.cached = extract.facts_dir(tier)
        self._prog = None
        self._cg = None
        self._pa = {}

    @property
    def prog(self):
        if self._prog is None:
            self._prog = Program(self.fdir)
        return self._prog

    @property
    def cg(self):
        if self._cg is None:
            from .callgraph import CallGraph
            self._cg = CallGraph(self.prog)
        return self._cg


def main(argv=None):
    ap = argparse.ArgumentParser()
    ap.add_argument("prop", nargs="?")
    ap.add_argument("--tier", default=os.environ.get("VERIF_TIER", "quick"))
    ap.add_argument("--replay")
    ap.add_argument("--dump", action="store_true", help="print every obligation")
    ap.add_argument("--suggest", action="store_true", help="print failing obligations as table lines")
    a = ap.parse_args(argv)
    if a.replay:
        with open(a.replay) as fh:
            r = json.load(fh)
        print(json.dumps(r, indent=1))
        # re-run the check the replay came from: the violation is a static fact of the tree
        a.prop = r["property"]
    if not a.prop:
        ap.error("property id required")
    tier = a.tier if a.tier in ("quick", "thorough") else "quick"
    seed = int(os.environ.get("VERIF_SEED", "0") or 0)
    pid = a.prop
    t0 = time.time()
    try:
        mod = importlib.import_module("sa.rules." + pid)
    except ImportError as e:
        print("engine failure: no rule module for %s (%s)" % (pid, e))
        return 2
    rep = Report(pid, tier, seed)
    rep.level = getattr(mod, "LEVEL", "other")
    rep.explanation = getattr(mod, "EXPLANATION", "") or (mod.__doc__ or pid)
    rep.assumptions = list(getattr(mod, "ASSUMPTIONS", []))
    try:
        ctx = Ctx(tier, seed)
        rep.tree_key = ctx.key
        try:
            mod.run(ctx, rep)
        except AnchorLost as e:
            rep.anchor_lost(str(e))
        # fixtures: every zero-expected rule must flag its deliberate violation
        fx = getattr(mod, "fixtures", None)
        if fx is not None:
            ok, why = fx(ctx, rep)
            if not ok:
                print("engine failure: fixture not flagged (%s): the engine is blind, no verdict" % why)
                return 2
    except extract.EngineError as e:
        print("engine failure: %s" % e)
        return 2
    except Exception:
        traceback.print_exc()
        print("engine failure: internal error in the analysis (no verdict)")
        return 2
    known = load_known()
    # thorough tier: the committed seeded changes must still be reported (sa/selftest.py)
    if tier == "thorough" and not os.environ.get("VERIF_NO_SELFTEST"):
        try:
            from . import selftest
            kk = set(k["key"] for k in known.get("findings", []) if k.get("property") == pid and k.get("status") == "known")
            base_fail = set(o["key"] for o in rep.obs if not o["ok"])
            st = selftest.run(pid, mod, kk, base_fail)
            rep.extra["selftest"] = st
            validated = {}
            try:
                with open(os.path.join(VERIF, "seeded", "VALIDATED.json")) as fh:
                    validated = json.load(fh)
            except (OSError, ValueError):
                pass
            miss = [x["seed"] for x in st if x["applied"] and "note" not in x and (x["flagged"] if x.get("neutral") else not x["flagged"])]
            if miss and validated.get("tree_key") == rep.tree_key.split("@")[0] and validated.get("repo") == extract.REPO:
                print("engine failure: self-test failed on this (validated) tree for %s (a seeded change is no longer reported, or a behaviour-preserving edit is): no verdict" % miss)
                return 2
        except extract.EngineError as e:
            print("engine failure during self-test: %s" % e)
            return 2
    wall = time.time() - t0
    if a.suggest:
        for o in rep.obs:
            if not o["ok"]:
                k = o["key"].split(" | ", 2)[2]
                print('    %r:\n        "",  # %s @ %s' % (k, o["detail"][:200], o["at"]))
        return 0
    rc = rep.finish(known, wall, EVID, dump=a.dump)
    return rc


if __name__ == "__main__":
    sys.exit(main())
