"""A5/A6: effect inventory and gate (must-pass-through) rules on one CFG."""
from .facts import path_matches
from .ir import IR, show, walk, strip_sites


class Effect:
    __slots__ = ("bb", "idx", "kind", "desc", "ln")

    def __init__(self, bb, idx, kind, desc, ln):
        self.bb = bb
        self.idx = idx
        self.kind = kind
        self.desc = desc
        self.ln = ln

    def __repr__(self):
        return "<%s %s bb%d>" % (self.kind, self.desc, self.bb)


def arg_index(body, name):
    for i in range(1, body.argc + 1):
        if body.locals[i].get("name") == name:
            return i - 1
    return None


def effects(body, ir, write_roots=(), use_roots=(), ctor_pred=None, path_filter=None):
    """Effect sites of a body:
       * 'write'  : an assignment through a place rooted in one of write_roots (('a', i) / ('v', l))
       * 'mutcall': a call that receives a `&mut` rooted in one of write_roots
       * 'use'    : a call that receives any reference rooted in one of use_roots (e.g. the callback)
       * 'ctor'   : a call for which ctor_pred(callee) holds
    path_filter(path) may restrict writes/mutcalls to some field paths."""
    out = []
    wr = set(write_roots)
    ur = set(use_roots)
    for bi in sorted(body.live):
        blk = body.blocks[bi]
        for si, st in enumerate(blk["st"]):
            if st["k"] not in ("assign", "setdiscr"):
                continue
            p = st["p"]
            if not p.get("pr"):
                continue
            if not any(x == "*" for x in p["pr"]):
                # partial assignment to a local: only if the local itself is a tracked root
                if ("v", p["l"]) not in wr:
                    continue
            pe = ir.place(p, (bi, si))
            root, path = ir.access_path(pe)
            if root in wr and (path_filter is None or path_filter(path)):
                out.append(Effect(bi, si, "write", show(pe), st.get("ln")))
        t = blk["term"]
        n = len(blk["st"])
        if t["k"] != "call":
            continue
        f = t.get("callee") or ""
        if ctor_pred is not None and ctor_pred(f):
            out.append(Effect(bi, n, "ctor", f, t.get("ln")))
        for ao in t["args"]:
            pl = ao.get("cp") or ao.get("mv")
            if pl is None:
                continue
            ty = pl.get("t") or body.locals[pl["l"]]["ty"]
            e = ir.place(pl, (bi, n))
            roots = _roots_in(ir, e)
            if ty.startswith("&mut") or "&mut" in ty or "{closure" in ty or "closure@" in ty:
                for root, path in roots:
                    if root in wr and (path_filter is None or path_filter(path)):
                        out.append(Effect(bi, n, "mutcall", "%s(%s)" % (f, show(e)), t.get("ln")))
                        break
            for root, path in roots:
                if root in ur:
                    out.append(Effect(bi, n, "use", "%s(%s)" % (f, show(e)), t.get("ln")))
                    break
        d = t["dest"]
        if d.get("pr") and any(x == "*" for x in d["pr"]):
            pe = ir.place(d, (bi, n))
            root, path = ir.access_path(pe)
            if root in wr and (path_filter is None or path_filter(path)):
                out.append(Effect(bi, n, "write", show(pe), t.get("ln")))
    return out


def _roots_in(ir, e):
    """access paths of an argument expression; closures/aggregates contribute each captured ref"""
    if e[0] == "agg":
        out = []
        for _, v in e[4]:
            out.extend(_roots_in(ir, v))
        return out
    r = ir.access_path(e)
    return [r]


def reachable_without(body, removed_edges):
    return body.reachable_from(0, removed_edges=frozenset(removed_edges))


def switch_edges(body, bb):
    t = body.blocks[bb]["term"]
    if t["k"] != "switch":
        return []
    return [(v, tb) for v, tb in t["targets"]] + [(None, t["otherwise"])]


def bool_edge(body, bb, truth):
    """target block of a bool switch for the given truth value of its operand"""
    t = body.blocks[bb]["term"]
    if t["k"] != "switch":
        return None
    for v, tb in t["targets"]:
        if bool(v) == truth:
            return tb
    # only one value listed: the other goes to otherwise
    return t["otherwise"]


def strip_not(e):
    neg = False
    while e[0] == "un" and e[1] == "Not":
        e = e[2]
        neg = not neg
    return e, neg


def cmp_call(e):
    """(is_eq, a, b) if e is a call to PartialEq::eq/ne, else None"""
    if e[0] != "call" or len(e[2]) != 2:
        return None
    last = e[1].rsplit("::", 1)[-1]
    if last not in ("eq", "ne") or "PartialEq" not in e[1] and "cmp" not in e[1]:
        return None
    a, b = e[2]
    return (last == "eq", _unref(a), _unref(b))


def _unref(x):
    while x[0] == "ref":
        x = x[2]
    return x


def mentions_call(e, pred):
    for x in walk(e):
        if isinstance(x, tuple) and x and x[0] == "call" and pred(x[1]):
            return True
    return False


def var_def_exprs(ir, l):
    """expressions of every full assignment to local l"""
    out = []
    for (bi, si, kind, node) in ir.defs.get(l, []):
        if kind == "assign":
            out.append((bi, si, ir.rvalue(node["r"], (bi, si))))
        else:
            out.append((bi, si, ir.call_expr(bi, node)))
    return out


def typestate_reach(body, ir, start_bb, known, kill_pred=None, max_steps=100000):
    """Blocks reachable from start_bb when discriminant switches on the places in `known`
    (key: strip_sites(place expr) -> variant index) follow only the matching edge.  A fact about
    a place is dropped after an instruction for which kill_pred(place_key, bb, idx) holds."""
    from .ir import ALL
    seen = {}
    work = [(start_bb, frozenset(known.items()))]
    reached = set()
    steps = 0
    while work and steps < max_steps:
        steps += 1
        bb, facts = work.pop()
        key = (bb, facts)
        if key in seen:
            continue
        seen[key] = True
        reached.add(bb)
        fd = dict(facts)
        blk = body.blocks[bb]
        n = len(blk["st"])
        # kills inside the block
        if kill_pred is not None and fd:
            for idx in range(n + 1):
                for k in list(fd):
                    if kill_pred(k, bb, idx):
                        del fd[k]
        t = blk["term"]
        succ = body.succ[bb]
        if t["k"] == "switch":
            e = ir.term_operand(bb, t["o"])
            if e[0] == "discr":
                k = strip_sites(e[1])
                if k in fd:
                    v = fd[k]
                    tgt = None
                    for val, tb in t["targets"]:
                        if val == v:
                            tgt = tb
                    if tgt is None:
                        tgt = t["otherwise"]
                    succ = [tgt]
                else:
                    # learn the variant on each edge
                    for val, tb in t["targets"]:
                        nf = dict(fd)
                        nf[k] = val
                        work.append((tb, frozenset(nf.items())))
                    work.append((t["otherwise"], frozenset(fd.items())))
                    continue
        for s in succ:
            work.append((s, frozenset(fd.items())))
    return reached
