"""Loader for the JSON fact files + CFG utilities (A1)."""
import glob
import json
import os
import re


class Program:
    def __init__(self, fdir):
        self.fdir = fdir
        self.bodies = {}
        self.adts = {}
        self.consts = {}
        self.impls = []
        self.crates = []
        self.dups = 0
        files = sorted(glob.glob(os.path.join(fdir, "*.json")))
        # non-test compilations first so that they win on duplicate ids
        metas = []
        for f in files:
            with open(f) as fh:
                d = json.load(fh)
            metas.append((d.get("test", False), f, d))
        metas.sort(key=lambda m: (m[0], m[1]))
        # canonical names: the path an item has in its defining crate, keyed by its def-path hash
        # (other crates may print it through a re-export)
        H = {}
        for is_test, f, d in metas:
            for b in d["bodies"]:
                if b.get("h"):
                    H.setdefault(b["h"], b["id"])
            for a in d["adts"]:
                if a.get("h"):
                    H.setdefault(a["h"], a["p"])
            for c in d["consts"]:
                if c.get("h"):
                    H.setdefault(c["h"], c["p"])
            for t in d.get("traits", []):
                H.setdefault(t["h"], t["p"])
        self.canon = H
        for is_test, f, d in metas:
            _canonicalise(d, H)
        # functions that did not exist on the reviewed tree are spliced into their callers (sa/inline.py)
        self.inlined = {}
        try:
            from .rules.tables import known_fns as _kf
            known = _kf.KNOWN
        except ImportError:
            known = None
        if known is not None and not os.environ.get("VERIF_NO_INLINE"):
            from .inline import inline_new_helpers
            raws = {}
            for is_test, f, d in metas:
                for b in d["bodies"]:
                    raws.setdefault(norm_path(b["id"]), b)
            self.inlined = inline_new_helpers(raws, known, norm_path, _kf.SCOPE)
        for is_test, f, d in metas:
            self.crates.append({"crate": d["crate"], "test": is_test, "nbodies": d["nbodies"],
                                "file": os.path.basename(f), "types": d.get("crate_types", "")})
            for b in d["bodies"]:
                nid = norm_path(b["id"])
                if nid in self.bodies:
                    self.dups += 1
                    continue
                self.bodies[nid] = Body(b, d["crate"], is_test, self)
            for a in d["adts"]:
                self.adts.setdefault(a["p"], a)
            for c in d["consts"]:
                self.consts.setdefault(c["p"], c)
            for i in d["impls"]:
                i["crate"] = d["crate"]
                i["test"] = is_test
                self.impls.append(i)
        self._by_suffix = None

    def body(self, id_):
        return self.bodies.get(id_)

    def find(self, suffix, crate=None):
        """bodies whose id ends with `suffix` (at a path-segment boundary)"""
        out = []
        for k, b in self.bodies.items():
            if k == suffix or k.endswith("::" + suffix):
                if crate is None or b.crate == crate:
                    out.append(b)
        return out

    def one(self, suffix, crate=None):
        r = self.find(suffix, crate)
        if len(r) != 1:
            raise AnchorLost("body `%s`%s: expected exactly one, found %d" % (
                suffix, " in " + crate if crate else "", len(r)))
        return r[0]

    def const(self, path):
        c = self.consts.get(path)
        if c is None:
            raise AnchorLost("constant `%s` not found" % path)
        return c

    def constv(self, path):
        c = self.const(path)
        if "v" not in c:
            raise AnchorLost("constant `%s` has no scalar value" % path)
        return c["v"]

    def adt(self, path):
        a = self.adts.get(path)
        if a is None:
            raise AnchorLost("type `%s` not found" % path)
        return a


def _canon_const(c, H):
    if "nameh" in c and c["nameh"] in H:
        c["name"] = H[c["nameh"]]
    if "fnh" in c and c["fnh"] in H:
        c["fn"] = H[c["fnh"]]


def _canon_operand(o, H):
    if isinstance(o, dict) and "c" in o:
        _canon_const(o["c"], H)


def _canonicalise(d, H):
    for i in d["impls"]:
        if i.get("trait_h") in H:
            i["trait"] = H[i["trait_h"]]
    for b in d["bodies"]:
        for blk in b["blocks"]:
            for st in blk["st"]:
                if st["k"] == "assign":
                    r = st["r"]
                    if r["k"] == "agg":
                        if r.get("adth") in H:
                            r["adt"] = H[r["adth"]]
                        if r.get("defh") in H:
                            r["def"] = H[r["defh"]]
                        for o in r.get("ops", []):
                            _canon_operand(o, H)
                    for key in ("o", "a", "b"):
                        if key in r:
                            _canon_operand(r[key], H)
            t = blk["term"]
            if t["k"] == "call":
                if t.get("fh") in H:
                    t["f"] = H[t["fh"]]
                if t.get("rfh") in H:
                    t["rf"] = H[t["rfh"]]
                if t.get("trh") in H:
                    t["tr"] = H[t["trh"]]
                for a in t["args"]:
                    _canon_operand(a, H)
                if "fop" in t:
                    _canon_operand(t["fop"], H)
            elif t["k"] == "switch":
                _canon_operand(t["o"], H)
            elif t["k"] == "assert":
                _canon_operand(t["cond"], H)
                for o in t.get("ops", []):
                    _canon_operand(o, H)


_norm_cache = {}


def norm_path(s):
    """strip generic argument groups and unify core/alloc/std so that paths are stable under
    renaming of type/lifetime parameters"""
    if s is None:
        return None
    r = _norm_cache.get(s)
    if r is not None:
        return r
    out = []
    i = 0
    n = len(s)
    while i < n:
        c = s[i]
        if c == "<":
            prev = out[-1] if out else ""
            strip = False
            if prev and (prev.isalnum() or prev == "_" or prev == "]"):
                strip = True
            elif len(out) >= 2 and out[-1] == ":" and out[-2] == ":":
                strip = True
            if strip:
                depth = 0
                j = i
                while j < n:
                    if s[j] == "<":
                        depth += 1
                    elif s[j] == ">" and not (j > 0 and s[j - 1] == "-"):
                        depth -= 1
                        if depth == 0:
                            break
                    j += 1
                if prev == ":":
                    out.pop()
                    out.pop()
                i = j + 1
                continue
        out.append(c)
        i += 1
    r = "".join(out)
    r = re.sub(r"\b(core|alloc)::", "std::", r)
    _norm_cache[s] = r
    return r


class AnchorLost(Exception):
    """A rule table role could not be resolved against the facts: the check fails closed."""
    pass


class Body:
    def __init__(self, raw, crate, is_test, prog):
        self.raw = raw
        self.prog = prog
        self.crate = crate
        self.is_test = is_test
        self.rid = raw["id"]
        self.id = norm_path(raw["id"])
        self.kind = raw["kind"]
        self.file = raw.get("file", "")
        self.lo = raw.get("lo", 0)
        self.hi = raw.get("hi", 0)
        self.argc = raw.get("argc", 0)
        self.locals = raw["locals"]
        self.blocks = raw["blocks"]
        self.n = len(self.blocks)
        self._succ = None
        self._pred = None
        self._idom = None
        self._reach = {}
        self._defs = None
        self._ipdom = None
        for blk in self.blocks:
            t = blk["term"]
            if t["k"] == "call":
                t["nf"] = norm_path(t.get("f"))
                t["nrf"] = norm_path(t.get("rf"))
                t["callee"] = t["nrf"] or t["nf"]

    def __repr__(self):
        return "<Body %s>" % self.id

    def loc(self, ln=None):
        return "%s:%s" % (self.file, ln if ln else self.lo)

    # ------------------------------------------------------------------ CFG
    @staticmethod
    def term_succs(t, unwind=False):
        k = t["k"]
        out = []
        if k == "goto":
            out = [t["t"]]
        elif k == "switch":
            out = [x[1] for x in t["targets"]] + [t["otherwise"]]
        elif k in ("call", "drop", "assert"):
            if t.get("t") is not None:
                out = [t["t"]]
            if unwind and t.get("uw") is not None:
                out.append(t["uw"])
        return out

    @property
    def succ(self):
        if self._succ is None:
            self._succ = []
            for b in self.blocks:
                s = []
                for x in self.term_succs(b["term"]):
                    if x not in s:
                        s.append(x)
                self._succ.append(s)
        return self._succ

    @property
    def pred(self):
        if self._pred is None:
            self._pred = [[] for _ in range(self.n)]
            for i, ss in enumerate(self.succ):
                for s in ss:
                    self._pred[s].append(i)
        return self._pred

    def reachable_from(self, start, removed_edges=frozenset(), removed_blocks=frozenset()):
        """set of blocks reachable from `start` (inclusive) not using the removed edges/blocks"""
        key = (start, removed_edges, removed_blocks)
        if key in self._reach:
            return self._reach[key]
        seen = set()
        if start in removed_blocks:
            self._reach[key] = seen
            return seen
        seen.add(start)
        st = [start]
        while st:
            b = st.pop()
            for s in self.succ[b]:
                if s in seen or (b, s) in removed_edges or s in removed_blocks:
                    continue
                seen.add(s)
                st.append(s)
        self._reach[key] = seen
        return seen

    @property
    def live(self):
        """blocks reachable from entry through normal (non-unwind) edges"""
        return self.reachable_from(0)

    @property
    def idom(self):
        if self._idom is None:
            self._idom = _dominators(self.n, self.succ, self.pred, 0)
        return self._idom

    def dominates(self, a, b):
        """block a dominates block b"""
        idom = self.idom
        if b not in self.live or a not in self.live:
            return False
        while True:
            if a == b:
                return True
            nb = idom[b]
            if nb is None or nb == b:
                return False
            b = nb

    def dom_chain(self, b):
        """b, idom(b), ... entry"""
        idom = self.idom
        out = []
        while b is not None:
            out.append(b)
            nb = idom[b]
            if nb == b:
                break
            b = nb
        return out

    @property
    def ipdom(self):
        """immediate post-dominators w.r.t. a virtual exit joined by every return block"""
        if self._ipdom is None:
            n = self.n
            exit_ = n
            succ = [list(s) for s in self.succ] + [[]]
            for i, b in enumerate(self.blocks):
                if b["term"]["k"] == "return":
                    succ[i].append(exit_)
            pred = [[] for _ in range(n + 1)]
            for i, ss in enumerate(succ):
                for s in ss:
                    pred[s].append(i)
            self._ipdom = _dominators(n + 1, pred, succ, exit_)
        return self._ipdom

    def return_blocks(self):
        return [i for i in self.live if self.blocks[i]["term"]["k"] == "return"]

    def sccs(self):
        """strongly connected components with a cycle (loops), over live blocks"""
        index = {}
        low = {}
        onst = set()
        st = []
        out = []
        counter = [0]
        succ = self.succ
        live = self.live

        def strong(v):
            # iterative Tarjan
            work = [(v, 0)]
            index[v] = low[v] = counter[0]
            counter[0] += 1
            st.append(v)
            onst.add(v)
            while work:
                v, i = work[-1]
                if i < len(succ[v]):
                    work[-1] = (v, i + 1)
                    w = succ[v][i]
                    if w not in live:
                        continue
                    if w not in index:
                        index[w] = low[w] = counter[0]
                        counter[0] += 1
                        st.append(w)
                        onst.add(w)
                        work.append((w, 0))
                    elif w in onst:
                        low[v] = min(low[v], index[w])
                else:
                    work.pop()
                    if work:
                        u = work[-1][0]
                        low[u] = min(low[u], low[v])
                    if low[v] == index[v]:
                        comp = []
                        while True:
                            w = st.pop()
                            onst.discard(w)
                            comp.append(w)
                            if w == v:
                                break
                        if len(comp) > 1 or v in succ[v]:
                            out.append(sorted(comp))

        for v in sorted(live):
            if v not in index:
                strong(v)
        return out

    # ------------------------------------------------------------------ sites
    def calls(self, live_only=True):
        """yield (bb, term) for every call terminator"""
        for i, b in enumerate(self.blocks):
            if live_only and i not in self.live:
                continue
            t = b["term"]
            if t["k"] == "call":
                yield i, t

    def calls_to(self, *suffixes):
        out = []
        for i, t in self.calls():
            f = t.get("nrf") or ""
            g = t.get("nf") or ""
            for s in suffixes:
                if path_matches(f, s) or path_matches(g, s):
                    out.append((i, t))
                    break
        return out


def path_matches(path, suffix):
    if not path:
        return False
    return path == suffix or path.endswith("::" + suffix)


def _dominators(n, succ, pred, entry):
    # Cooper-Harvey-Kennedy
    order = []
    seen = [False] * n
    st = [(entry, 0)]
    seen[entry] = True
    while st:
        v, i = st[-1]
        if i < len(succ[v]):
            st[-1] = (v, i + 1)
            w = succ[v][i]
            if not seen[w]:
                seen[w] = True
                st.append((w, 0))
        else:
            st.pop()
            order.append(v)
    rpo = list(reversed(order))
    num = {v: i for i, v in enumerate(rpo)}
    idom = [None] * n
    idom[entry] = entry
    changed = True
    while changed:
        changed = False
        for v in rpo[1:]:
            new = None
            for p in pred[v]:
                if p in num and idom[p] is not None:
                    if new is None:
                        new = p
                    else:
                        a, b = p, new
                        while a != b:
                            while num[a] > num[b]:
                                a = idom[a]
                            while num[b] > num[a]:
                                b = idom[b]
                        new = a
            if new is not None and idom[v] != new:
                idom[v] = new
                changed = True
    return idom
