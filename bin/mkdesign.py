#!/usr/bin/env python3
"""Assemble /verif/DESIGN.md from doc/design_head.md, the rule modules' own EXPLANATION strings, the evidence of the last
run, known_findings.json, the seeded / neutral corpora, and doc/design_tail.md (so §3 cannot drift from what the rules do)."""
import glob, importlib, json, os, sys, textwrap
V = os.path.dirname(os.path.dirname(os.path.abspath(__file__)))
sys.path.insert(0, V)
props = [json.loads(l) for l in open(os.path.join(V, "properties.jsonl"))]
known = json.load(open(os.path.join(V, "known_findings.json")))["findings"]
manifest = json.load(open(os.path.join(V, "MANIFEST.json")))
checks = {c["property_id"]: c for c in manifest["checks"]}
seeds = {}
for f in sorted(glob.glob(os.path.join(V, "seeded", "*", "meta.json"))):
    m = json.load(open(f))
    seeds.setdefault(m["property"], []).append((os.path.basename(os.path.dirname(f)), m))
neutral = json.load(open(os.path.join(V, "neutral", "INDEX.json")))
OWN = {
 "C01": "own mutant: lazy-site polarity inverted → R1",
 "C02": "D3 reversed → R2",
 "C03": "own mutants: effect hoisted above the token test (O1), state conjunct dropped from the token-request exception (O3)",
 "C04": "D1 reversed → R2 B1; D2 reversed → R2 B7; D16 reversed → R3; D18 reversed → R5",
 "C05": "D18 reversed → R1 (`warnings only on non-canonical bits`)",
 "C06": "own mutant: token-length guard of read_impl removed → R1",
 "C10": "D6 reversed → R1",
 "C11": "D12/D15a, D13 reversed → R1 / R4; D22 reversed → R1",
 "C12": "D7 reversed → R2; D22 reversed → R4",
 "C14": "twelve own mutants (§5) → R0, R1, R1e, R2, R3",
 "C15": "D8 reversed → R2",
 "C16": "D9 reversed → R2a; D10 reversed → R2b",
 "C17": "own mutant: offset committed before the decode result is inspected → R1; D17 reversed → R5; D20 reversed → R4b",
 "C18": "D4 reversed → R1",
 "C19": "D11 reversed → R5",
 "C20": "own mutant: callback wrapped with another peer's address → R2",
}
out = [open(os.path.join(V, "doc", "design_head.md")).read()]
out.append("## 3. Per property: what is decided, how, and what it caught\n")
out.append("The *Rules* paragraph of each property is the `EXPLANATION` string of its rule module (`sa/rules/Cxx.py`), which is "
           "also what the evidence file carries; counts are from the committed quick-tier evidence of the current tree.  "
           "*Catches* lists the seeded changes (§5) the check reports, with the rule that reports each, then fix reversions and own mutants.\n")
for p in props:
    pid = p["id"]
    mod = importlib.import_module("sa.rules." + pid)
    ev = json.load(open(os.path.join(V, "evidence", pid + ".json")))
    cov = ev["coverage"]
    out.append("### %s — %s  (level: *%s*)\n" % (pid, p["title"], mod.LEVEL))
    out.append("**Technique.** %s\n" % checks[pid]["technique"])
    out.append("**Rules (as built).** %s\n" % mod.EXPLANATION.strip())
    out.append("**Assumptions.** %s\n" % "; ".join(mod.ASSUMPTIONS))
    per = ", ".join("%s %d" % (r, v["obligations"]) for r, v in sorted(cov["per_rule"].items()))
    out.append("**Today.** %d obligations, %d discharged (%s).%s\n" % (
        cov["obligations"], cov["discharged"], per,
        "" if not cov.get("known_findings_seen") else "  Known findings re-observed: %d (§4)." % len(cov["known_findings_seen"])))
    kf = [k for k in known if k["property"] == pid and k["status"] == "known"]
    if kf:
        out.append("**Known findings.** " + "; ".join("`%s`" % k["key"].split(" | ", 1)[1] for k in kf) + "\n")
    lines = []
    for name, m in seeds.get(pid, []):
        rep_ = m.get("reported_as", {})
        how = "; ".join("%s %s" % (k, "/".join(v.get("rules", []))) for k, v in rep_.items() if v.get("rules"))
        lines.append("* `%s` — %s → **%s**" % (name, (m.get("summary") or "").strip().replace("\n", " ")[:260], how))
    for q, lst in seeds.items():
        for name, m in lst:
            if q != pid and pid in (m.get("caught_by") or []):
                lines.append("* `%s` (seeded for %s) → **%s %s**" % (name, q, pid, "/".join(m["reported_as"][pid].get("rules", []))))
    if pid in OWN:
        lines.append("* " + OWN[pid])
    ne = sorted(k for k in neutral if not k.startswith("_") and pid in neutral[k])
    if ne:
        lines.append("* neutral edits that must stay silent: " + ", ".join("`%s`" % n for n in ne))
    out.append("**Catches.**\n" + "\n".join(lines) + "\n")
# summary table
out.append("### Summary\n")
out.append("| | level | obligations today | seeded changes reported | known findings |\n|---|---|---|---|---|")
for p in props:
    pid = p["id"]
    mod = importlib.import_module("sa.rules." + pid)
    ev = json.load(open(os.path.join(V, "evidence", pid + ".json")))
    n_own = len(seeds.get(pid, []))
    n_caught = sum(1 for q, lst in seeds.items() for name, m in lst if pid in (m.get("caught_by") or []))
    kf = sum(1 for k in known if k["property"] == pid and k["status"] == "known")
    out.append("| %s | %s | %d | %d (own %d) | %d |" % (pid, mod.LEVEL, ev["coverage"]["obligations"], n_caught, n_own, kf))
out.append("\n`not_applicable` at property level: none.  Not applicable at clause level (stated in each check's `level_note`): C01/C02/C13/C20 "
           "behaviour over histories and fair suffixes; C05/C06 whole-packet re-encoding equality; C07 losslessness, reference equality, run-time "
           "tables; C08 the integer bijection and canonicity; C09/C10 equality of snapshots; C12 exactly-once over permutations; C15 round trip; "
           "C16 \"returns what was stored\"; C19 the sanitizer half.\n")
out.append(open(os.path.join(V, "doc", "design_tail.md")).read())
open(os.path.join(V, "DESIGN.md"), "w").write("\n".join(out))
print("DESIGN.md written:", sum(len(x.splitlines()) for x in out), "lines")
