#!/usr/bin/env python3
"""validate_seeds.py [name-prefix ...]: run every committed seeded change (/verif/seeded/<name>/patch.diff) against the
checks named in its meta.json ("property" first, then "also_try") on a scratch copy of /repo, record which checks report it
in meta.json["caught_by"] / ["rules"], and write seeded/VALIDATED.json with the tree key the validation was made on."""
import importlib, json, os, sys
V = os.path.dirname(os.path.dirname(os.path.abspath(__file__)))
sys.path.insert(0, V)
from sa import extract, selftest
from sa.check import load_known

def main():
    pref = sys.argv[1:]
    known = load_known()
    key, _ = extract.tree_key(extract.REPO)
    rows = []
    for name in sorted(os.listdir(selftest.SEEDED)):
        d = os.path.join(selftest.SEEDED, name)
        mp = os.path.join(d, "meta.json")
        if not os.path.isfile(mp) or (pref and not any(name.startswith(p) for p in pref)):
            continue
        meta = json.load(open(mp))
        cands = [meta["property"]] + [p for p in meta.get("also_try", []) if p != meta["property"]]
        caught, rules = [], {}
        for pid in cands:
            mod = importlib.import_module("sa.rules." + pid)
            kk = set(k["key"] for k in known.get("findings", []) if k.get("property") == pid and k.get("status") == "known")
            # temporarily pretend this seed is registered for pid
            orig = selftest.seeds_for
            selftest.seeds_for = lambda p, _n=name, _d=d, _m=meta: [(_n, os.path.join(_d, "patch.diff"), _m)]
            try:
                # failing keys of the unchanged tree (none expected besides known findings)
                res = selftest.run(pid, mod, kk, set(), log=lambda s: None)
            finally:
                selftest.seeds_for = orig
            r = res[0]
            if r.get("flagged"):
                caught.append(pid)
                rules[pid] = {"rules": r["rules"], "keys": r.get("keys", [])}
            elif not r.get("applied") or "note" in r:
                rules[pid] = {"note": r.get("note", "not applied")}
        meta["caught_by"] = caught
        meta["reported_as"] = rules
        json.dump(meta, open(mp, "w"), indent=1)
        rows.append((name, caught, rules))
        print("%-10s %-8s caught_by=%s %s" % (name, meta["property"], caught, {k: v.get("rules") or v.get("note") for k, v in rules.items()}), flush=True)
    json.dump({"tree_key": key, "repo": extract.REPO, "seeds": {n: c for n, c, _ in rows}}, open(os.path.join(selftest.SEEDED, "VALIDATED.json"), "w"), indent=1)

main()
