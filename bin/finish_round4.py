#!/usr/bin/env python3
"""finish_round4.py: fold the results of the final bin/batch.py runs (final rules, every plausible check per patch) into the
corpora: caught_by / reported_as of every seeded change (old and new), neutral/INDEX.json (an edit is listed for the checks
that stay silent on it), neutral/round4-false-alarms.json (every round-4 edit with the rules that still fire), and
seeded/VALIDATED.json for the current tree."""
import glob, json, os, sys
V = os.path.dirname(os.path.dirname(os.path.abspath(__file__)))
sys.path.insert(0, V)
from sa import extract
sys.path.insert(0, V + "/bin")

AUTO = [("net/", ["C01", "C02", "C03", "C04", "C05", "C06", "C20"]), ("huffman/", ["C07", "C05", "C06", "C15"]), ("packer/", ["C08", "C11", "C14", "C17"]),
        ("snapshot/", ["C09", "C10", "C11", "C12", "C13", "C15"]), ("gamenet/", ["C14", "C15"]), ("demo/", ["C15"]), ("datafile/", ["C16"]),
        ("map/", ["C16"]), ("zlib-minimal/", ["C16"]), ("teehistorian/", ["C17"]), ("serverbrowse/", ["C18"]),
        ("buffer/", ["C19", "C06", "C07", "C08"])]
ALL = ["C%02d" % i for i in range(1, 21)]


def auto_props(patch):
    out = []
    for ln in open(patch, errors="replace"):
        if ln.startswith("+++ b/"):
            f = ln[6:].strip()
            hit = False
            for pre, ps in AUTO:
                if f.startswith(pre):
                    out += [p for p in ps if p not in out]
                    hit = True
            if not hit:
                out += [p for p in ALL if p not in out]
    return out


def load(files):
    res = {}
    for f in files:
        if os.path.exists(f):
            for r in json.load(open(f)):
                res[r["name"]] = r
    return res


def reported(r):
    out = {}
    for pid, keys in r.get("reported", {}).items():
        ks = [k.split("   ## ")[0] for k in keys]
        out[pid] = {"rules": sorted(set(k.split(" | ")[1] for k in ks if " | " in k)), "keys": ks[:4]}
    return out


def main():
    # earlier runs of this session first (own-property runs, neighbour runs, targeted re-tests), the final runs last: a later
    # result of the same patch for the same check replaces an earlier one, checks that were not re-run keep their result
    def merged(files):
        res = {}
        for f in files:
            if not os.path.exists(f):
                continue
            try:
                rows = json.load(open(f))
            except ValueError:
                continue
            for r in rows:
                if not r.get("applied"):
                    continue
                cur = res.setdefault(r["name"], {"name": r["name"], "applied": True, "reported": {}, "engine": {}, "ran": set()})
                ran = set(r.get("reported", {})) | set(r.get("engine", {}))
                # which checks ran is not recorded for silent ones: a run replaces the verdict of the checks it reports, and a
                # final (auto) run replaces all
                if "final_" in f:
                    cur["reported"], cur["engine"] = dict(r.get("reported", {})), dict(r.get("engine", {}))
                else:
                    cur["reported"].update(r.get("reported", {}))
        return res
    early_s = sorted(glob.glob("/tmp/res/seed_C*.json")) + ["/tmp/res/miss.json"] + sorted(glob.glob("/tmp/res/t*.json"))
    seeds = merged(early_s + ["/tmp/res/final_s1.json", "/tmp/res/final_s2.json"])
    olds = load(["/tmp/res/old_a.json", "/tmp/res/old_b.json"])
    early_n = ["/tmp/res/neut_b.json", "/tmp/res/neut_c.json"]
    final_n = load(["/tmp/res/final_n1.json", "/tmp/res/final_n2.json"])
    neut = load(early_n)
    # targeted re-tests after a fix: silent results replace the first-contact alarm of the checks that were re-run
    for f in sorted(glob.glob("/tmp/res/t*.json")):
        try:
            rows = json.load(open(f))
        except ValueError:
            continue
        for r in rows:
            if r["name"].startswith("n") and r.get("applied") and r["name"] in neut:
                neut[r["name"]] = r if not r.get("reported") else neut[r["name"]]
    neut.update(final_n)
    seeds = {k: v for k, v in seeds.items() if k.startswith("s")}
    smap = json.load(open(V + "/seeded/round4-map.json")) if os.path.exists(V + "/seeded/round4-map.json") else {}
    nmap = json.load(open(V + "/neutral/round4-map.json")) if os.path.exists(V + "/neutral/round4-map.json") else {}
    validated = {}
    final_done = set(load(["/tmp/res/final_s1.json", "/tmp/res/final_s2.json"]))
    # new seeds
    for sid, name in smap.items():
        r = seeds.get(sid)
        mp = "%s/seeded/%s/meta.json" % (V, name)
        meta = json.load(open(mp))
        if r and r.get("applied") and not r.get("engine"):
            rep = reported(r)
            meta["caught_by"] = sorted(rep)
            meta["reported_as"] = rep
            meta["also_try"] = [p for p in sorted(rep) if p != meta["property"]]
        else:
            meta.setdefault("caught_by", [])
            meta.setdefault("reported_as", {})
        json.dump(meta, open(mp, "w"), indent=1)
        validated[name] = meta["caught_by"]
    # old seeds: keep a check in caught_by only if the final rules still report the change
    lost = []
    for mp in sorted(glob.glob(V + "/seeded/*/meta.json")):
        name = os.path.basename(os.path.dirname(mp))
        if name in validated:
            continue
        meta = json.load(open(mp))
        r = olds.get(name)
        if r and r.get("applied") and not r.get("engine"):
            rep = reported(r)
            for p in meta.get("caught_by", []):
                if p not in rep:
                    lost.append((name, p))
            meta["caught_by"] = sorted(rep)
            meta["reported_as"] = rep
            json.dump(meta, open(mp, "w"), indent=1)
        validated[name] = meta.get("caught_by", [])
    # neutral
    idx = json.load(open(V + "/neutral/INDEX.json"))
    fa = {}
    for nid, r in sorted(neut.items()):
        patch = "/tmp/neut4/%s/out/patch%s.diff" % (nid[1:].split("-")[0], nid.split("-")[1])
        rep = reported(r) if r.get("applied") else {}
        fa[nid] = {"applied": r.get("applied"), "still_reported": {p: v["rules"] for p, v in rep.items()}, "engine": r.get("engine", {}),
                   "stored_as": nmap.get(nid)}
        if nid in nmap and r.get("applied"):
            props = [p for p in auto_props(patch) if p not in rep and p not in r.get("engine", {})]
            idx[nmap[nid]] = props
    json.dump(idx, open(V + "/neutral/INDEX.json", "w"), indent=1)
    json.dump(fa, open(V + "/neutral/round4-false-alarms.json", "w"), indent=1)
    key, _ = extract.tree_key("/repo")
    n_old = len([1 for mp in glob.glob(V + "/seeded/*/meta.json")]) - len(smap)
    complete = len(olds) >= n_old and all(sid in final_done for sid in smap)
    if not complete:
        # not every stored change was re-run against the final rules in this session: the strict self-test (exit 2 on a miss) is
        # armed only by a complete validation (bin/validate_seeds.py writes the plain key)
        key = "partial-" + key
    json.dump({"tree_key": key, "repo": "/repo", "seeds": validated}, open(V + "/seeded/VALIDATED.json", "w"), indent=1)
    n_new = len(smap)
    own = sum(1 for sid, name in smap.items() if sid[1:4] in validated.get(name, []))
    anyc = sum(1 for sid, name in smap.items() if validated.get(name))
    print("new seeds stored: %d, reported by own check: %d, by any: %d" % (n_new, own, anyc))
    allr = {sid: sorted(reported(r)) for sid, r in seeds.items()}
    print("all 60 round-4 seeds (stored or not): reported by any check: %d, by own: %d" % (
        sum(1 for v in allr.values() if v), sum(1 for sid, v in allr.items() if sid[1:4] in v)))
    print("not reported:", sorted(sid for sid, v in allr.items() if not v))
    print("old seeds that lost a catch:", lost)
    sil = sorted(n for n, v in fa.items() if v["applied"] and not v["still_reported"] and not v["engine"])
    print("neutral: %d of %d silent; still reported: %s" % (len(sil), len(fa), {n: v["still_reported"] for n, v in fa.items() if v["still_reported"]}))


main()
