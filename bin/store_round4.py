#!/usr/bin/env python3
"""store_round4.py: copy the round-4 submissions that were confirmed (confirm<i>.json: demonstration passes on the clean tree,
fails on the patched tree, the repository's suite has no failure with the patch) from the scratch area into /verif/seeded/<P>-<n>/,
and the behaviour-preserving edits whose full suite passed into /verif/neutral/.  `caught_by` / the neutral index are filled in
afterwards from a run of the final rules (bin/batch.py results given on the command line)."""
import glob, json, os, shutil, sys
V = os.path.dirname(os.path.dirname(os.path.abspath(__file__)))
SEED, NEUT = "/tmp/seed4", "/tmp/neut4"


def next_index(pid):
    ns = [int(d.split("-")[1]) for d in os.listdir(V + "/seeded") if d.startswith(pid + "-") and d.split("-")[1].isdigit()]
    return max(ns + [0]) + 1


def main():
    stored = {}
    mapf = V + "/seeded/round4-map.json"
    if os.path.exists(mapf):
        stored = json.load(open(mapf))          # a re-run only adds what was confirmed since
    for pid in ["C%02d" % i for i in range(1, 21)]:
        for i in (1, 2, 3):
            out = "%s/%s/out" % (SEED, pid)
            cf, pf = "%s/confirm%d.json" % (out, i), "%s/patch%d.diff" % (out, i)
            if not (os.path.exists(cf) and os.path.exists(pf)) or ("s%s-%d" % (pid, i)) in stored:
                continue
            try:
                c = json.load(open(cf))
            except ValueError:
                continue
            okc = c.get("clean_demo") == "pass" and c.get("patched_demo") == "fail" and c.get("suite_failed") == 0 and c.get("suite_build_ok", True)
            if not okc:
                print("not kept:", pid, i, {k: c.get(k) for k in ("clean_demo", "patched_demo", "suite_passed", "suite_failed", "suite_build_ok")})
                continue
            name = "%s-%d" % (pid, next_index(pid))
            d = "%s/seeded/%s" % (V, name)
            os.makedirs(d)
            shutil.copy(pf, d + "/patch.diff")
            for ext in ("rs", "txt", "log"):
                src = "%s/demo%d.%s" % (out, i, ext)
                if os.path.exists(src):
                    shutil.copy(src, "%s/demo.%s" % (d, ext))
            try:
                meta = json.load(open("%s/meta%d.json" % (out, i)))
            except (OSError, ValueError):
                meta = {"property": pid}
            meta["property"] = pid
            meta["origin"] = ("fourth seeding round: fresh sub-agent given only the property text and a scratch worktree of /repo "
                              "(prompt: seeded/notes/round4-prompt-template.txt); was patch%d of that agent" % i)
            meta["confirmed_by_me"] = {"confirmed": True, "how": "re-run in the scratch worktree by a confirmation run that I started with a fixed "
                                       "procedure (seeded/notes/round4-confirm-procedure.txt): demonstration on the clean tree, on the patched tree, then "
                                       "the whole suite with the patch", "clean_demo": c.get("clean_demo"), "patched_demo": c.get("patched_demo"),
                                       "suite_passed": c.get("suite_passed"), "suite_failed": c.get("suite_failed"), "commands": c.get("commands"), "notes": c.get("notes")}
            meta["also_try"] = []
            json.dump(meta, open(d + "/meta.json", "w"), indent=1)
            stored["s%s-%d" % (pid, i)] = name
            print("stored", name, "<-", pid, i)
    json.dump(stored, open(V + "/seeded/round4-map.json", "w"), indent=1)
    # neutral edits
    nmap = {}
    nmapf = V + "/neutral/round4-map.json"
    if os.path.exists(nmapf):
        nmap = json.load(open(nmapf))
    for f in sorted(glob.glob("/tmp/res/nsuite/*.txt")):
        idn = os.path.basename(f)[:-4]
        if ("n" + idn) in nmap:
            continue
        txt = open(f).read()
        if not txt.startswith("206 passed 0 failed"):
            print("neutral not kept (suite):", idn, txt.strip())
            continue
        pid, n = idn.split("-")
        name = "r4-%s-%s" % (pid, n)
        shutil.copy("%s/%s/out/patch%s.diff" % (NEUT, pid, n), "%s/neutral/%s.diff" % (V, name))
        mp = "%s/%s/out/meta%s.json" % (NEUT, pid, n)
        if os.path.exists(mp):
            shutil.copy(mp, "%s/neutral/%s.meta.json" % (V, name))
        nmap["n%s-%s" % (pid, n)] = name
        print("stored neutral", name)
    json.dump(nmap, open(V + "/neutral/round4-map.json", "w"), indent=1)


main()
