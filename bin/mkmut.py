#!/usr/bin/env python3
"""mkmut.py <out.diff> <file> <old> <new> [<file> <old> <new> ...]: build a patch against /repo HEAD by exact string replacement"""
import sys, subprocess, os, tempfile, shutil
out = sys.argv[1]
args = sys.argv[2:]
W = tempfile.mkdtemp(prefix="mkmut.")
subprocess.check_call(["git", "-C", "/repo", "worktree", "add", "--detach", "-f", W, "HEAD"], stdout=subprocess.DEVNULL, stderr=subprocess.DEVNULL)
try:
    for i in range(0, len(args), 3):
        f, old, new = args[i:i+3]
        p = os.path.join(W, f)
        s = open(p).read()
        if s.count(old) != 1:
            sys.exit("pattern occurs %d times in %s: %r" % (s.count(old), f, old[:60]))
        open(p, "w").write(s.replace(old, new))
    d = subprocess.run(["git", "-C", W, "diff"], capture_output=True, text=True).stdout
    open(out, "w").write(d)
    print("wrote", out, len(d.splitlines()), "lines")
finally:
    subprocess.call(["git", "-C", "/repo", "worktree", "remove", "--force", W], stdout=subprocess.DEVNULL, stderr=subprocess.DEVNULL)
    shutil.rmtree(W, ignore_errors=True)
