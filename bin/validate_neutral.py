#!/usr/bin/env python3
"""validate_neutral.py: apply each behaviour-preserving edit of /verif/neutral to a scratch copy of /repo and require the
listed checks to stay silent (no new failing obligation)."""
import importlib, json, os, sys
V = os.path.dirname(os.path.dirname(os.path.abspath(__file__)))
sys.path.insert(0, V)
from sa import selftest
from sa.check import load_known
idx = json.load(open(os.path.join(V, "neutral", "INDEX.json")))
known = load_known()
bad = 0
for name in sorted(k for k in idx if not k.startswith("_")):
    patch = os.path.join(V, "neutral", name + ".diff")
    for pid in idx[name]:
        mod = importlib.import_module("sa.rules." + pid)
        kk = set(k["key"] for k in known.get("findings", []) if k.get("property") == pid and k.get("status") == "known")
        orig = selftest.seeds_for
        selftest.seeds_for = lambda p, _n=name, _p=patch: [(_n, _p, {})]
        try:
            r = selftest.run(pid, mod, kk, set(), log=lambda s: None)[0]
        finally:
            selftest.seeds_for = orig
        status = "silent" if r.get("applied") and not r.get("flagged") and "note" not in r else ("FALSE ALARM %s" % r.get("keys") if r.get("flagged") else r.get("note"))
        if r.get("flagged"):
            bad += 1
        print("%-4s %-4s %s" % (name, pid, status), flush=True)
sys.exit(1 if bad else 0)
