#!/usr/bin/env python3
"""batch.py [--props C01,C02|all] [--jobs N] [--out file.json] name=patch.diff ...

Apply each patch in turn to a scratch copy of /repo at a fixed path (/tmp/vlane<N>, remove it when done), re-extract only what
cargo considers stale and run the quick tier of the listed checks (default: all 20) against the copy, in parallel.  Prints, per patch, which checks
report something and by which rule/key.  Used to try seeded faults (must be reported) and neutral edits (must be silent)
against *every* check, not only the one of their own property."""
import json, os, subprocess, sys
from concurrent.futures import ThreadPoolExecutor

V = os.path.dirname(os.path.dirname(os.path.abspath(__file__)))
ALL = ["C%02d" % i for i in range(1, 21)]


def check(pid, env):
    r = subprocess.run([sys.executable, "-m", "sa.check", pid, "--tier", "quick"], cwd=V, env=env, capture_output=True, text=True)
    keys = []
    lines = r.stdout.splitlines()
    for i, ln in enumerate(lines):
        ln = ln.strip()
        if ln.startswith("rule=") and " key=" in ln:
            keys.append(ln.split(" key=", 1)[1] + ("   ## " + lines[i + 1].strip()[:300] if i + 1 < len(lines) else ""))
    note = ""
    if r.returncode == 2:
        note = (r.stdout.strip().splitlines() or [""])[-1][:300]
    return pid, r.returncode, keys, note


def _touched(patch):
    out = []
    for ln in open(patch, errors="replace"):
        if ln.startswith("+++ b/") or ln.startswith("--- a/"):
            out.append(ln[6:].strip())
    return sorted(set(out))


_LANE_PREV = {}


AUTO = [("net/", ["C01", "C02", "C03", "C04", "C05", "C06", "C20"]), ("huffman/", ["C07", "C05", "C06", "C15"]), ("packer/", ["C08", "C11", "C14", "C17"]),
        ("snapshot/", ["C09", "C10", "C11", "C12", "C13", "C15"]), ("gamenet/", ["C14", "C15"]), ("demo/", ["C15"]), ("datafile/", ["C16"]),
        ("map/", ["C16"]), ("zlib-minimal/", ["C16"]), ("teehistorian/", ["C17"]), ("serverbrowse/", ["C18"]),
        ("buffer/", ["C19", "C06", "C07", "C08"]), ("common/", ALL), ("warn/", ALL)]


def auto_props(patch):
    out = []
    for f in _touched(patch):
        for pre, ps in AUTO:
            if f.startswith(pre):
                out += [p for p in ps if p not in out]
    return out or ALL


def run_patch(name, patch, props, jobs, lane=0):
    if props == "auto":
        props = auto_props(patch)
    """one fixed scratch path per lane, so that cargo only re-checks what the patch touches (extract.lane_extract)"""
    sys.path.insert(0, V)
    from sa import extract
    base = "/tmp/vlane%d" % lane
    work, fdir, target = base + "/repo", base + "/facts", base + "/target"
    os.makedirs(base, exist_ok=True)
    res = {"name": name, "applied": False, "reported": {}, "engine": {}}
    src = os.environ.get("VERIF_REPO", "/repo")
    subprocess.run(["rsync", "-a", "--delete", "--exclude", "/target", "--exclude", ".git", src + "/", work + "/"], check=True)
    touched = _touched(patch)
    prevf = base + "/prev.json"
    if lane not in _LANE_PREV and os.path.exists(prevf):
        _LANE_PREV[lane] = json.load(open(prevf))       # the last patch of an earlier process on this lane
    json.dump(touched, open(prevf, "w"))
    for f in set(_LANE_PREV.get(lane, [])) | set(touched):
        fp = os.path.join(work, f)
        if os.path.exists(fp):
            os.utime(fp, None)        # reverted / about to be patched: must look newer than the last build
    _LANE_PREV[lane] = touched
    r = subprocess.run(["git", "apply", "--whitespace=nowarn", os.path.abspath(patch)], cwd=work, capture_output=True, text=True)
    if r.returncode != 0:
        res["note"] = "patch does not apply: " + r.stderr.strip()[:200]
        return res
    res["applied"] = True
    try:
        if not os.path.exists(fdir + "/SEEDED"):
            # members whose fingerprints in the (copied) target are fresh are not re-checked: start from the facts of the clean tree
            import glob, shutil
            os.makedirs(fdir, exist_ok=True)
            bdir, _, _ = extract.facts_dir("quick", repo=src)
            for f in glob.glob(bdir + "/*.json"):
                shutil.copy(f, fdir)
            open(fdir + "/SEEDED", "w").write(bdir)
        extract.lane_extract(work, fdir, target)
    except extract.EngineError as e:
        res["note"] = "does not build: " + str(e)[-300:]
        return res
    env = dict(os.environ, VERIF_REPO=work, VERIF_EVID_DIR=base + "/evid", VERIF_FACTS_DIR=fdir)
    with ThreadPoolExecutor(jobs) as ex:
        rows = list(ex.map(lambda p: check(p, env), props))
    for pid, rc, keys, note in rows:
        if rc == 1:
            res["reported"][pid] = keys
        elif rc == 2:
            res["engine"][pid] = note
    return res


def main():
    args = sys.argv[1:]
    props, jobs, out, lane = ALL, 10, None, 0
    items = []
    while args:
        a = args.pop(0)
        if a == "--props":
            v = args.pop(0)
            props = ALL if v == "all" else ("auto" if v == "auto" else v.split(","))
        elif a == "--jobs":
            jobs = int(args.pop(0))
        elif a == "--out":
            out = args.pop(0)
        elif a == "--lane":
            lane = int(args.pop(0))
        else:
            n, p = a.split("=", 1) if "=" in a else (os.path.basename(a), a)
            items.append((n, p))
    results = []
    for n, p in items:
        r = run_patch(n, p, props, jobs, lane)
        results.append(r)
        rep = {k: sorted(set(x.split(" | ")[1] for x in v if " | " in x)) for k, v in r["reported"].items()}
        print("%-14s %s reported=%s%s%s" % (n, "applied" if r["applied"] else "NOT-APPLIED", rep or "{}",
                                           (" engine=%s" % r["engine"]) if r["engine"] else "", (" " + r.get("note", "")) if r.get("note") else ""), flush=True)
        if out:
            json.dump(results, open(out, "w"), indent=1)


main()
