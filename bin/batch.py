#!/usr/bin/env python3
"""batch.py [--props C01,C02|all] [--jobs N] [--out file.json] name=patch.diff ...

Apply each patch to its own scratch copy of /repo (outside /repo and /verif, removed afterwards), extract the facts once and run
the quick tier of the listed checks (default: all 20) against the copy, in parallel.  Prints, per patch, which checks
report something and by which rule/key.  Used to try seeded faults (must be reported) and neutral edits (must be silent)
against *every* check, not only the one of their own property."""
import json, os, shutil, subprocess, sys, tempfile
from concurrent.futures import ThreadPoolExecutor

V = os.path.dirname(os.path.dirname(os.path.abspath(__file__)))
ALL = ["C%02d" % i for i in range(1, 21)]


def check(pid, env):
    r = subprocess.run([sys.executable, "-m", "sa.check", pid, "--tier", "quick"], cwd=V, env=env, capture_output=True, text=True)
    keys = []
    for ln in r.stdout.splitlines():
        ln = ln.strip()
        if ln.startswith("rule=") and " key=" in ln:
            keys.append(ln.split(" key=", 1)[1])
    note = ""
    if r.returncode == 2:
        note = (r.stdout.strip().splitlines() or [""])[-1][:300]
    return pid, r.returncode, keys, note


def run_patch(name, patch, props, jobs):
    tmp = tempfile.mkdtemp(prefix="vb.", dir="/tmp")
    work = os.path.join(tmp, "repo")
    res = {"name": name, "applied": False, "reported": {}, "engine": {}}
    try:
        shutil.copytree(os.environ.get("VERIF_REPO", "/repo"), work, ignore=lambda d, n: [x for x in n if x in ("target", ".git")], symlinks=True)
        r = subprocess.run(["git", "apply", "--whitespace=nowarn", os.path.abspath(patch)], cwd=work, capture_output=True, text=True)
        if r.returncode != 0:
            res["note"] = "patch does not apply: " + r.stderr.strip()[:200]
            return res
        res["applied"] = True
        env = dict(os.environ, VERIF_REPO=work, VERIF_EVID_DIR=os.path.join(tmp, "evid"))
        first = check(props[0], env)
        rows = [first]
        if first[1] != 2 or "extraction" not in first[3]:
            with ThreadPoolExecutor(jobs) as ex:
                rows += list(ex.map(lambda p: check(p, env), props[1:]))
        for pid, rc, keys, note in rows:
            if rc == 1:
                res["reported"][pid] = keys
            elif rc == 2:
                res["engine"][pid] = note
    finally:
        shutil.rmtree(tmp, ignore_errors=True)
    return res


def main():
    args = sys.argv[1:]
    props, jobs, out = ALL, 10, None
    items = []
    while args:
        a = args.pop(0)
        if a == "--props":
            v = args.pop(0)
            props = ALL if v == "all" else v.split(",")
        elif a == "--jobs":
            jobs = int(args.pop(0))
        elif a == "--out":
            out = args.pop(0)
        else:
            n, p = a.split("=", 1) if "=" in a else (os.path.basename(a), a)
            items.append((n, p))
    results = []
    for n, p in items:
        r = run_patch(n, p, props, jobs)
        results.append(r)
        rep = {k: sorted(set(x.split(" | ")[1] for x in v if " | " in x)) for k, v in r["reported"].items()}
        print("%-14s %s reported=%s%s%s" % (n, "applied" if r["applied"] else "NOT-APPLIED", rep or "{}",
                                           (" engine=%s" % r["engine"]) if r["engine"] else "", (" " + r.get("note", "")) if r.get("note") else ""), flush=True)
        if out:
            json.dump(results, open(out, "w"), indent=1)


main()
