#!/usr/bin/env python3
"""Regenerate /verif/MANIFEST.json from the table below (one entry per claimed property)."""
import json, os
V = os.path.dirname(os.path.dirname(os.path.abspath(__file__)))
props = [json.loads(l) for l in open(os.path.join(V, "properties.jsonl"))]
TB = ("Trusted: rustc nightly MIR + const eval, the mirfacts serialiser, the std-API precondition table in "
      "sa/panics.py, the reviewed table lines of the rule module. ")
CLAIMS = {
 "C06": dict(cat="other", tech="MIR panic-site inventory + dominance-based linear guard discharge + loop inventory",
   text="Static totality argument for the packet reader: every panic site (bounds/overflow asserts, split_at, range index, unwrap, assert!) reachable from Packet::read / ChunksIter (0.6 and 0.7) is implied by the branch conditions dominating it, or is a reviewed table line; every loop is iterator-driven. Holds for all inputs at once.",
   note=TB + "Decides no-panic / no-loop / slice provenance; 're-written packets read back equal' is value-level and not decided."),
 "C18": dict(cat="other", tech="MIR panic-site inventory + guard discharge (shift amounts); store/effect pairing rules on the CFG",
   text="Totality of parse_response / Info*Response::parse / merge (incl. shift-amount obligations `1 << n` => n < 64 against the dominating range tests), plus structural bookkeeping rules: every path of merge that extends the client list must record other.received; every client push of a multi-part version is paired with a received-bit store; get_info returns Some only on the len == num_clients edge after sorting.",
   note=TB + "Order-independence of the merged list beyond the final sort is not decided. One known finding (merge never updates `received`, D5) is listed in known_findings.json."),
}
CLAIMS["C03"] = dict(cat="proof", tech="CFG gate rule (edge-cut reachability of effect sites), effect inventory, variant tables, typestate reachability",
   text="Complete static non-interference argument for Connection::feed_impl (0.6 and 0.7): every effect (write rooted in *self, &mut self call, any callback use, non-empty ReceivePacket) is unreachable from entry once the token gate's pass edges are cut; token accessors return Some exactly for token-carrying variants; the 0.7 unauthenticated token request is dominated by its three tests and reaches only the token reply; reader hint, Token::random and acceptor-stored tokens are checked; no interior mutability in Connection. All obligations discharged = the property holds for every datagram and every reachable state.",
   note=TB + "Warnings are not application events; the caller's scratch buffer is not endpoint state; 0.6 connectionless datagrams are outside the statement. Path-insensitive except for the variant-typestate step of O3.")
CLAIMS["C12"] = dict(cat="other", tech="CFG gate rule + store/compare expression agreement (def-use normal forms) + dominance rules",
   text="Structural mechanisms of the multi-part receiver: writes to the receiver are behind the can_receive(tick) gate in all three message handlers; for each attribute of the transfer the stored expression and the expression later parts are compared with have the same normal form over the message fields; insert is dominated by !contains_key, completion by parts.len()==num_parts and passes finish_delta(tick); sender split uses ceil(len/MAX_SNAPSHOT_PACKSIZE) and tick-base, receiver reconstructs tick.wrapping_sub(wire).",
   note=TB + "Exactly-once delivery over all permutations and duplications is a schedule-level property and is not decided; VecMap::values key order is assumed.")
CLAIMS["C05"] = dict(cat="other", tech="bit-provenance dataflow (known-bits lattice with symbolic sources) over pack/unpack; table agreement on MIR switch/aggregate structure",
   text="Header clause decided for all bit patterns at once: for every packet/chunk header type of 0.6 and 0.7, unpack(pack(f)) = f on all in-range fields, pack accepts every unpack output, and the bits that pack(unpack(b)) cannot reproduce are exactly the bits the reader's warning conditions test. Control-message tables of writer and reader are inverse bijections; compression flag/payload selection and token placement are consistent between write_impl and read_impl.",
   note=TB + "Whole-packet round trips through the Huffman bit stream are value-level and not decided. The analysed functions must be straight-line apart from assert/warn diamonds; otherwise the rule refuses (fails closed).")
CLAIMS["C19"] = dict(cat="other", tech="unsafe/who-may-call inventory, expression-agreement rules on Drop impls, dominance rules for the counter, MIR panic-site discharge",
   text="Structural half of the buffer abstraction: frozen inventory of unsafe code and of callers of the unsafe API; write-back exactness of every intermediate's Drop (set_len(len+initialized), [..initialized], parent += initialized) and tail-slice construction (ptr+len, capacity-len); the initialised counter is written only by advance (bounded by its assert) and extend (one increment per yielded slot); BufferRef is constructed only by new/cap_at and new only by the intermediates; every workspace advance(n) takes n from the call that filled uninitialized_mut(); no reachable panic site in the public API (capacity exhaustion is CapacityError; cap_at caps).",
   note=TB + "The 'under an address sanitizer' half of the property is dynamic by definition and is not applicable to static analysis; lifetime soundness is enforced by the borrow checker (compile_fail witnesses run in the thorough tier).")
CLAIMS["C04"] = dict(cat="other", tech="MIR panic-site discharge with interprocedural preconditions; constant-budget obligations; who-may-call + type facts; dominance/edge-cut rules; bit-provenance for canonical headers",
   text="No valid API call sequence panics (every reachable panic site discharged by dominating guards incl. the chunk-size assert against send()'s TooLongData test, or reviewed API precondition); datagrams are <= 1400 bytes by construction (only PacketBuilder::send calls Callback::send, with the output of Packet::write into a [u8; 1400] field); budgets over constants extracted from the code (header + chunk area + token <= MAX_PACKETSIZE, ArrayVec capacities, chunk count below 256 through the admission predicate); count/content pairing of num_chunks and data; the writer's headers are canonical for the reader (bit domain).",
   note=TB + "Chunk bytes being bit-identical after a reader pass is value-level and not decided. Documented API preconditions (assert_online, reset/connect states, NUL-free reason) are the caller's.")
CLAIMS["C02"] = dict(cat="other", tech="loop inventory over the call graph (SCCs with recognised progress arguments), constant-budget / structural progress obligation for the resend loop, must-pass-through rules on CFGs for timer arming",
   text="Every call into Connection/Net returns: each CFG cycle reachable from the public API is iterator- or reader-driven or reviewed, and the one non-advancing cycle of resend is accepted only under a checked progress argument (budget inequality over extracted constants, or empty-packet admission + flush clears). Timer mechanisms: ResendChunk::new and resend arm the retransmit timer; tick_action re-arms before every send; flush/connect/send_connless arm the send timer; needs_tick is min(send, oldest resend) and inactive outright only when idle; Net::needs_tick is the min over peers; resend requests are set and honoured on the right edges.",
   note=TB + "Liveness under a fair suffix (the connecting side becomes ready, every chunk is eventually delivered) is a history-level property and is not decided. The `optional` crate's ordering of the none value is assumed.")
CLAIMS["C10"] = dict(cat="other", tech="expression agreement between writer and reader sites (def-use normal forms), dominance clauses, bit-provenance for the key packing",
   text="Registry and layout agreement between the building and the reading side: the number stored for a UUID equals the id of its type-0 registry item on the writer, the reader inserts key_to_id(item_key) on the TYPE_ID_EX branch, recycle re-adds (0, number, uuid) from the same map entry; write_impl/read_from_ints agree on word order, byte units and unsigned key order; type_id's unwrap is covered by the MissingUuidType clause; key/key_to_raw_type_id/key_to_id are mutually inverse on all bit patterns.",
   note=TB + "Indistinguishability of every snapshot after a wire round trip is value-level and not decided; these are the structural conditions it rests on (D6 was a violation of the reader-side agreement).")
CLAIMS["C09"] = dict(cat="other", tech="expression agreement on sibling functions (def-use normal forms, operand roles), arm/effect agreement between writer and reader, bit-provenance for the key packing",
   text="Inverse-operation and wire-layout agreement behind delta application: create_item_delta/apply_item_delta store wrapping_sub/wrapping_add with matching operand roles and copy new items verbatim, with no panicking arithmetic on item words; Delta::write_impl and read_impl write/read the size word under the same predicate (object_size(type) is None) for the same argument and exchange the same header length and one data word per element; key packing is a bijection; crc is a wrapping fold; create_raw records deletions exactly for keys missing in the target and an update for every target item.",
   note=TB + "The equality apply(A, create(A,B)) = B as such, and agreement with the DDNet reference implementation, are value-level / cross-language and are not decided.")
CLAIMS["C11"] = dict(cat="other", tech="MIR panic-site discharge over the snapshot API incl. follow-up operations; who-may-write choke-point rule with dominance of the limit tests; pairing and clause rules",
   text="Totality of the snapshot/delta parsers and of the follow-up operations on accepted snapshots (every reachable panic site discharged by dominating guards or reviewed; three genuine sites are listed known findings); the 1024-item / 64 KiB limits are enforced at a single choke point (only prepare_item_vacant inserts/grows, dominated by both limit tests with the evaluated constants); the delta reader allocates one word per word read and range-checks ids/sizes; a resizing delta is refused before apply_item_delta.",
   note=TB + "'Written out and read back equal' is value-level and not decided. Known findings: Delta::create on snapshots whose common key has different lengths, Builder::add_item after type ids are exhausted, Delta::write with an inconsistent object_size.")
CLAIMS["C13"] = dict(cat="other", tech="dominance / must-pass-through rules on the CFGs of Storage and Manager; MIR panic-site discharge",
   text="The anchored mechanisms as dominance facts: ack_tick = Some(tick) and the stored snapshot are dominated by the Ok edge of read_with_delta and the crc-match edge; UnknownSnap/InvalidCrc returns pass ack_tick = None; the base snapshot is taken only on the tick-equality edge; set_delta_tick/add_snap use the exact base or none; the Manager routes receiver -> delta read -> storage and never touches storage after an error; reachable panic sites are discharged or reviewed.",
   note=TB + "Item-for-item equality with the sender over all loss/duplication histories is a history-level property and is not decided. Known finding: Delta::create (via Storage::add_snap) panics when an item changes its length between snapshots.")
CLAIMS["C15"] = dict(cat="other", tech="table agreement between writer and reader (MIR switch/constant structure), comparison-strictness agreement, edge-cut dominance for the reader's tick guard, MIR panic-site discharge",
   text="Chunk header tables agree between ChunkHeader::write and ::read (type codes inverse, size-encoding thresholds never trigger the reader's over-long warnings, inline sizes cannot collide with escape codes, tick flags disjoint from the inline mask, max_tick_delta equals the mask); DemoWriter::write_snap refuses exactly the ticks TickMarker::new's assert rejects (<= vs >) under the checked identification last_tick = prev_tick = last written tick; the reader accepts an absolute tick only above the previous one and adds inline deltas with checked_add; reachable panic sites of reader and writer are discharged or reviewed.",
   note=TB + "The round trip of chunk sequences and of typed object sets is value-level and not decided. Writer-side payloads above the 64 KiB format maximum panic instead of returning an error (outside the quantifier; recorded in DESIGN).")
CLAIMS["C16"] = dict(cat="other", tech="MIR panic-site discharge with type-instantiated preconditions; validation-clause presence table; validate-before-arithmetic (taint-style dominance) rule; ADT layout facts for the OnlyI32 inventory",
   text="Totality of datafile/map open + accessors: every reachable panic site is discharged by dominating guards or tied (reviewed line) to a named validation clause; the clauses Reader::check / HeaderRest::check must contain are verified present (ranges, contiguity, bounds, non-negativity, divisibility by 4) and Reader::new returns Ok only after check(); inside check no checked arithmetic touches a file-table value before a comparison has looked at it; every `unsafe impl OnlyI32` is for a repr(C) struct of i32 words.",
   note=TB + "'Returns exactly what was stored' is value-level and not decided. zlib's FFI boundary is trusted to respect the destination length.")
NA = {}
m = {"version": 1,
     "setup_cmd": "cd /verif/engine/mirfacts && CARGO_NET_OFFLINE=true cargo build --release --offline",
     "hooks": {"guard": "libtw2_verif",
               "enable": "none needed: the analysis reads the unmodified source through a rustc driver (RUSTC_WORKSPACE_WRAPPER under cargo +nightly check); no cfg-guarded code was added to /repo",
               "baseline_off_cmd": "cd /repo && cargo test --workspace --no-fail-fast --offline",
               "source_commits": [], "add_only": True},
     "engines": [
        {"name": "mirfacts", "path": "engine/mirfacts", "serves_properties": [p["id"] for p in props],
         "kind_free_text": "rustc_private driver serialising type-checked MIR, evaluated constants, ADT layouts, impls and unsafe blocks of every workspace crate to JSON"},
        {"name": "sa", "path": "sa", "serves_properties": [p["id"] for p in props],
         "kind_free_text": "Python rule engine over the MIR facts: CFG/dominators/SCC, call graph with rapid type analysis, expression normaliser with memory epochs, integer linear guard-discharge reasoner, panic-site inventory with exported preconditions, effect/gate rules, rule tables per property"}],
     "checks": [], "not_applicable": [],
     "notes": "All checks are static: they rebuild MIR facts from /repo's current working tree (cached by a content hash of all build inputs) and evaluate rule tables against them. Exit 2 = engine failure (never a verdict)."}
for p in props:
    c = CLAIMS.get(p["id"])
    if c:
        m["checks"].append({"property_id": p["id"],
            "quick_cmd": "python3 -m sa.check %s --tier quick" % p["id"],
            "thorough_cmd": "python3 -m sa.check %s --tier thorough" % p["id"],
            "evidence_file": "/verif/evidence/%s.json" % p["id"],
            "replay_cmd_template": "python3 -m sa.check --replay {path}",
            "engine": "sa",
            "level_claimed": {"category": c["cat"], "text": c["text"], "design_ref": "DESIGN.md §3 " + p["id"]},
            "level_note": c["note"], "technique": c["tech"]})
    else:
        m["not_applicable"].append({"property_id": p["id"],
            "reason": NA.get(p["id"], "static rule module not yet registered in this round (under construction); no verdict is claimed")})
json.dump(m, open(os.path.join(V, "MANIFEST.json"), "w"), indent=1)
print("claimed:", [c["property_id"] for c in m["checks"]])
