#!/usr/bin/env python3
"""sweep_stmt.py <relative file> <fn name[#occurrence]> <prop> [<prop>...] [--test-pkg=<cargo package>] [--kinds=del,ret]

Statement-level mutation sweep over one function (the comparison-operator sweep is bin/sweep.py).  Mutants, each on a
scratch copy of /repo:
  del   delete one single-line effect statement (`x = ..;`, `x += ..;`, `recv.method(..);`, `f(..)?;`) -- a forgotten
        bookkeeping update, a dropped call;
  ret   delete one single-line `return ..;` / `continue;` / `break;` that stands alone in a block after other statements.
A mutant that no longer compiles is skipped; for the others the listed checks are run, and survivors are additionally run
against the package's own tests (a survivor the repository's tests kill is not a realistic test-passing change)."""
import importlib, json, os, re, shutil, subprocess, sys, tempfile
V = os.path.dirname(os.path.dirname(os.path.abspath(__file__)))
sys.path.insert(0, V)
from sa import extract, selftest
from sa.facts import AnchorLost
from sa.report import Report
from sa.check import load_known

rel, fn = sys.argv[1], sys.argv[2]
props = [a for a in sys.argv[3:] if not a.startswith("--")]
opt = {a.split("=", 1)[0]: a.split("=", 1)[1] for a in sys.argv[3:] if a.startswith("--") and "=" in a}
test_pkg = opt.get("--test-pkg")
kinds = opt.get("--kinds", "del,ret").split(",")
src = open(os.path.join(extract.REPO, rel)).read()
occ = 0
if "#" in fn:
    fn, occ = fn.split("#")[0], int(fn.split("#")[1])
ms = list(re.finditer(r"\bfn\s+%s\b" % re.escape(fn), src))
if len(ms) <= occ:
    sys.exit("function not found")
i = src.index("{", ms[occ].end())
depth, j = 0, i
while True:
    c = src[j]
    if c == "{":
        depth += 1
    elif c == "}":
        depth -= 1
        if depth == 0:
            break
    j += 1
lines = src.split("\n")
lo = src.count("\n", 0, i) + 1          # first line after the opening brace (0-based index of next line)
hi = src.count("\n", 0, j)              # line of the closing brace
sites = []
for k in range(lo, hi):
    t = lines[k].strip()
    if not t.endswith(";") or t.startswith("//") or t.startswith("let ") or t.startswith("use "):
        continue
    if t.count("(") != t.count(")") or t.count("{") != t.count("}"):
        continue
    if re.match(r"^(return\b.*|continue|break);$", t):
        if "ret" in kinds:
            sites.append((k, "ret", t))
        continue
    if re.match(r"^(assert|debug_assert|unreachable|panic|warn|error|info|debug|trace|println|eprintln)\w*!", t):
        continue
    if "del" in kinds and (re.match(r"^[\w\.\*\[\]\(\)&: ]+\s*([-+*/|&^]|<<|>>)?=\s[^=]", t) or re.match(r"^[\w\.:\*&]+(\.|::)\w+.*\(.*\)\??;$", t) or re.match(r"^\w+\(.*\)\??;$", t)):
        sites.append((k, "del", t))
known = load_known()
mods = {p: importlib.import_module("sa.rules." + p) for p in props}
real_repo = extract.REPO
out = []
for n, (k, kind, text) in enumerate(sites):
    new = "\n".join(lines[:k] + lines[k + 1:])
    tmp = tempfile.mkdtemp(prefix="vsa-sweep.")
    work = os.path.join(tmp, "repo")
    res = {"n": n, "line": k + 1, "kind": kind, "text": text[:120]}
    try:
        selftest._copy_tree(real_repo, work)
        open(os.path.join(work, rel), "w").write(new)
        extract.REPO = work
        try:
            fdir, key, _ = extract.facts_dir("quick", repo=work, log=open(os.devnull, "w"))
            flagged = {}
            for p in props:
                kk = set(x["key"] for x in known.get("findings", []) if x.get("property") == p and x.get("status") == "known")
                ctx = selftest._Ctx("quick", 0, fdir, key)
                rep = Report(p, "quick", 0)
                try:
                    mods[p].run(ctx, rep)
                except AnchorLost as e:
                    rep.anchor_lost(str(e))
                except Exception as e:          # an analysis that cannot cope with the mutant: counts as reported (fails closed)
                    flagged[p] = ["engine:" + type(e).__name__]
                    continue
                newv = [o for o in rep.obs if not o["ok"] and o["key"] not in kk]
                if newv:
                    flagged[p] = sorted(set(o["rule"] for o in newv))
            res["flagged"] = flagged
            shutil.rmtree(fdir, ignore_errors=True)
            if not flagged and test_pkg:
                r = subprocess.run(["cargo", "test", "--offline", "-q", "-p", test_pkg], cwd=work, capture_output=True, text=True,
                                   env=dict(os.environ, CARGO_NET_OFFLINE="true", CARGO_TARGET_DIR=os.path.join(extract.CACHE, "target-sweep"), RUST_BACKTRACE="0"))
                res["tests"] = "pass" if r.returncode == 0 else "FAIL"
        except extract.EngineError:
            res["flagged"] = {"(does not compile)": []}
        finally:
            extract.REPO = real_repo
    finally:
        shutil.rmtree(tmp, ignore_errors=True)
    out.append(res)
    print("%3d L%-4d %-3s %-9s %s" % (n, res["line"], kind, "REPORTED" if res["flagged"] else "survives", res["text"]), res["flagged"] or ("tests:" + res.get("tests", "-")), flush=True)
os.makedirs(extract.CACHE, exist_ok=True)
json.dump(out, open(os.path.join(extract.CACHE, "sweepstmt-%s-%s-%d.json" % (os.path.basename(rel), fn, occ)), "w"), indent=1)
real = [r for r in out if "(does not compile)" not in r["flagged"]]
print("survivors: %d of %d compiling mutants (%d sites)" % (sum(1 for r in real if not r["flagged"]), len(real), len(out)))
