#!/bin/bash
# usage: try_revert.sh <patch.diff> <prop>...   -- run checks against a scratch worktree with the patch REVERSED
set -e
PATCH=$(readlink -f "$1"); shift
W=$(mktemp -d /tmp/vw.XXXXXX)
git -C /repo worktree add --detach -f "$W" HEAD >/dev/null 2>&1
trap 'git -C /repo worktree remove --force "$W" >/dev/null 2>&1; rm -rf "$W"' EXIT
git -C "$W" apply -R "$PATCH"
cd /verif
for p in "$@"; do
  VERIF_REPO="$W" VERIF_EVID_DIR=/verif/.cache/evid-scratch python3 -m sa.check "$p" | sed "s#$W/##g" || true
done
