#!/usr/bin/env python3
"""sweep.py <relative file> <fn name> <prop> [<prop>...]: comparison-operator mutation sweep over one function.
For every comparison operator inside the function (`<`, `<=`, `>`, `>=`, `==`, `!=`) build the neighbouring mutant on a scratch
copy of /repo and record whether the listed checks report it (or the tree no longer compiles).  Survivors are printed for triage:
they are either equivalent, killed by the repository's tests, or a gap in the rules."""
import importlib, json, os, re, shutil, subprocess, sys, tempfile
V = os.path.dirname(os.path.dirname(os.path.abspath(__file__)))
sys.path.insert(0, V)
from sa import extract, selftest
from sa.facts import AnchorLost
from sa.report import Report
from sa.check import load_known

rel, fn = sys.argv[1], sys.argv[2]
props = [a for a in sys.argv[3:] if not a.startswith("--")]
test_pkg = next((a.split("=", 1)[1] for a in sys.argv[3:] if a.startswith("--test-pkg=")), None)
src = open(os.path.join(extract.REPO, rel)).read()
occ = 0
if "#" in fn:
    fn, occ = fn.split("#")[0], int(fn.split("#")[1])
ms = list(re.finditer(r"\bfn\s+%s\b" % re.escape(fn), src))
if len(ms) <= occ:
    sys.exit("function not found")
m = ms[occ]
i = src.index("{", m.end())
depth, j = 0, i
while True:
    c = src[j]
    if c == "{":
        depth += 1
    elif c == "}":
        depth -= 1
        if depth == 0:
            break
    j += 1
body_lo, body_hi = i, j
SWAP = {"<=": "<", "<": "<=", ">=": ">", ">": ">=", "==": "!=", "!=": "=="}
sites = []
for mm in re.finditer(r"(?<![<>=!\-&|])(<=|>=|==|!=|<|>)(?![<>=])", src[body_lo:body_hi]):
    pos = body_lo + mm.start()
    line = src[src.rfind("\n", 0, pos) + 1: src.find("\n", pos)]
    op = mm.group(1)
    if op in ("<", ">") and (re.search(r"[A-Za-z_:]\s*<[A-Za-z_&'\[(]", line) and "if" not in line and "assert" not in line and "while" not in line):
        continue        # generics
    if "->" in line[max(0, pos - src.rfind("\n", 0, pos) - 3):][:4]:
        continue
    if line.strip().startswith("//"):
        continue
    sites.append((pos, op, line.strip()))
known = load_known()
mods = {p: importlib.import_module("sa.rules." + p) for p in props}
real_repo = extract.REPO
out = []
for n, (pos, op, line) in enumerate(sites):
    new = src[:pos] + SWAP[op] + src[pos + len(op):]
    tmp = tempfile.mkdtemp(prefix="vsa-sweep.")
    work = os.path.join(tmp, "repo")
    res = {"n": n, "line": src.count("\n", 0, pos) + 1, "op": op, "to": SWAP[op], "text": line[:110]}
    try:
        selftest._copy_tree(real_repo, work)
        open(os.path.join(work, rel), "w").write(new)
        extract.REPO = work
        try:
            fdir, key, _ = extract.facts_dir("quick", repo=work, log=open(os.devnull, "w"))
            flagged = {}
            for p in props:
                kk = set(k["key"] for k in known.get("findings", []) if k.get("property") == p and k.get("status") == "known")
                ctx = selftest._Ctx("quick", 0, fdir, key)
                rep = Report(p, "quick", 0)
                try:
                    mods[p].run(ctx, rep)
                except AnchorLost as e:
                    rep.anchor_lost(str(e))
                newv = [o for o in rep.obs if not o["ok"] and o["key"] not in kk]
                if newv:
                    flagged[p] = sorted(set(o["rule"] for o in newv))
            res["flagged"] = flagged
            shutil.rmtree(fdir, ignore_errors=True)
            if not flagged and test_pkg:
                # is the survivor at least killed by the repository's own tests of that package?
                r = subprocess.run(["cargo", "test", "--offline", "-q", "-p", test_pkg], cwd=work, capture_output=True, text=True,
                                   env=dict(os.environ, CARGO_NET_OFFLINE="true", CARGO_TARGET_DIR=os.path.join(V, ".cache", "target-sweep"), RUST_BACKTRACE="0"))
                res["tests"] = "pass" if r.returncode == 0 else "FAIL"
        except extract.EngineError:
            res["flagged"] = {"(does not compile)": []}
        finally:
            extract.REPO = real_repo
    finally:
        shutil.rmtree(tmp, ignore_errors=True)
    out.append(res)
    print("%3d L%-4d %-2s -> %-2s %-9s %s" % (n, res["line"], op, SWAP[op], "REPORTED" if res["flagged"] else "survives", res["text"]), res["flagged"] or ("tests:" + res.get("tests", "-")), flush=True)
json.dump(out, open(os.path.join(V, ".cache", "sweep-%s-%s-%d.json" % (os.path.basename(rel), fn, occ)), "w"), indent=1)
print("survivors: %d of %d" % (sum(1 for r in out if not r["flagged"]), len(out)))
