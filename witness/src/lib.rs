//! Compile-fail witnesses: programs that violate the type-level half of C19 / C06 must not
//! build.  Every witness names the error it must fail with and has a compiling twin
//! (`no_run`: compiled, never executed) that differs only by the offending line, so a
//! witness that fails for an unrelated reason (a wrong path, a changed signature) is
//! noticed because its twin stops compiling too.
//!
//! Run by `python3 -m sa.check C19 --tier thorough` through `cargo +nightly test --doc`.

/// W1 (C19): the backing `Vec` cannot be touched while a `BufferRef` into its spare capacity exists.
/// ```compile_fail,E0499
/// use libtw2_buffer::{Buffer, ToBufferRef};
/// let mut v: Vec<u8> = Vec::with_capacity(8);
/// let mut inter = (&mut v).to_to_buffer_ref();
/// let mut r = inter.to_buffer_ref();
/// v.push(1);                       // second mutable borrow of `v`
/// r.write(b"ab").unwrap();
/// ```
/// ```no_run
/// use libtw2_buffer::{Buffer, ToBufferRef};
/// let mut v: Vec<u8> = Vec::with_capacity(8);
/// {
///     let mut inter = (&mut v).to_to_buffer_ref();
///     let mut r = inter.to_buffer_ref();
///     r.write(b"ab").unwrap();
/// }
/// v.push(1);
/// ```
pub struct W1VecIsBorrowed;

/// W2 (C19): one intermediate hands out one `BufferRef` at a time (the counter is `&'size mut`).
/// ```compile_fail,E0499
/// use libtw2_buffer::{Buffer, ToBufferRef};
/// let mut v: Vec<u8> = Vec::with_capacity(8);
/// let mut inter = (&mut v).to_to_buffer_ref();
/// let mut a = inter.to_buffer_ref();
/// let mut b = inter.to_buffer_ref(); // second mutable borrow of `inter`
/// a.write(b"a").unwrap();
/// b.write(b"b").unwrap();
/// ```
/// ```no_run
/// use libtw2_buffer::{Buffer, ToBufferRef};
/// let mut v: Vec<u8> = Vec::with_capacity(8);
/// let mut inter = (&mut v).to_to_buffer_ref();
/// let mut a = inter.to_buffer_ref();
/// a.write(b"a").unwrap();
/// ```
pub struct W2OneRefAtATime;

/// W3 (C19): the initialised slice borrows the buffer's storage and cannot outlive it.
/// ```compile_fail,E0597
/// use libtw2_buffer::with_buffer;
/// let s: &[u8];
/// {
///     let mut v: Vec<u8> = Vec::with_capacity(4);
///     s = with_buffer(&mut v, |mut b| { b.write(b"ab").unwrap(); b.initialized() });
/// }                                 // `v` dropped here while still borrowed
/// assert_eq!(s.len(), 2);
/// ```
/// ```no_run
/// use libtw2_buffer::with_buffer;
/// let mut v: Vec<u8> = Vec::with_capacity(4);
/// let s: &[u8] = with_buffer(&mut v, |mut b| { b.write(b"ab").unwrap(); b.initialized() });
/// assert_eq!(s.len(), 2);
/// ```
pub struct W3InitializedBorrowsStorage;

/// W4 (C19): moving the split point is `unsafe`; safe code cannot call it.
/// ```compile_fail,E0133
/// use libtw2_buffer::with_buffer;
/// let mut v: Vec<u8> = Vec::with_capacity(4);
/// with_buffer(&mut v, |mut b| { b.advance(4); });
/// ```
/// ```no_run
/// use libtw2_buffer::with_buffer;
/// let mut v: Vec<u8> = Vec::with_capacity(4);
/// with_buffer(&mut v, |mut b| { let _ = b.remaining(); });
/// ```
pub struct W4AdvanceIsUnsafe;

/// W5 (C19): handing out the uninitialised tail is `unsafe`; safe code cannot read it.
/// ```compile_fail,E0133
/// use libtw2_buffer::with_buffer;
/// let mut v: Vec<u8> = Vec::with_capacity(4);
/// let first = with_buffer(&mut v, |mut b| b.uninitialized_mut()[0]);
/// ```
/// ```no_run
/// use libtw2_buffer::with_buffer;
/// let mut v: Vec<u8> = Vec::with_capacity(4);
/// let n = with_buffer(&mut v, |b| b.remaining());
/// ```
pub struct W5UninitializedIsUnsafe;

/// W6 (C19): the fields of `BufferRef` are private; the split point cannot be forged.
/// ```compile_fail,E0451
/// use libtw2_buffer::BufferRef;
/// let mut storage = [0u8; 4];
/// let mut n = 4usize;
/// let _forged = BufferRef { buffer: &mut storage[..2], initialized_: &mut n };
/// ```
/// ```no_run
/// use libtw2_buffer::BufferRef;
/// let mut storage = [0u8; 4];
/// let mut n = 0usize;
/// let _b = BufferRef::new(&mut storage[..2], &mut n);
/// ```
pub struct W6FieldsArePrivate;

/// W7 (C06): a parsed packet borrows the datagram (and the decompression buffer); it cannot
/// outlive either.
/// ```compile_fail,E0597
/// use libtw2_net::protocol::Packet;
/// use libtw2_warn::Ignore;
/// let mut scratch: Vec<u8> = Vec::with_capacity(4096);
/// let p;
/// {
///     let datagram = vec![0x10u8, 0x00, 0x00, 0x04];
///     p = Packet::read(&mut Ignore, &datagram, None, &mut scratch);
/// }                                 // `datagram` dropped here while still borrowed
/// let _ = p.is_ok();
/// ```
/// ```no_run
/// use libtw2_net::protocol::Packet;
/// use libtw2_warn::Ignore;
/// let mut scratch: Vec<u8> = Vec::with_capacity(4096);
/// let datagram = vec![0x10u8, 0x00, 0x00, 0x04];
/// let p = Packet::read(&mut Ignore, &datagram, None, &mut scratch);
/// let _ = p.is_ok();
/// ```
pub struct W7PacketBorrowsDatagram;

/// W8 (C06): while a parsed packet is alive the scratch buffer it may point into cannot be reused.
/// ```compile_fail,E0499
/// use libtw2_net::protocol::Packet;
/// use libtw2_warn::Ignore;
/// let mut scratch: Vec<u8> = Vec::with_capacity(4096);
/// let datagram = vec![0x10u8, 0x00, 0x00, 0x04];
/// let p = Packet::read(&mut Ignore, &datagram, None, &mut scratch);
/// scratch.clear();                  // second mutable borrow of `scratch`
/// let _ = p.is_ok();
/// ```
/// ```no_run
/// use libtw2_net::protocol::Packet;
/// use libtw2_warn::Ignore;
/// let mut scratch: Vec<u8> = Vec::with_capacity(4096);
/// let datagram = vec![0x10u8, 0x00, 0x00, 0x04];
/// {
///     let p = Packet::read(&mut Ignore, &datagram, None, &mut scratch);
///     let _ = p.is_ok();
/// }
/// scratch.clear();
/// ```
pub struct W8ScratchIsBorrowed;
